"""C10 -- cross-section libraries: lossless, order-independent, refusing merge (LibraryMerge) and macroscopic constants as
number-density-weighted sums (Macros).

spec -> code
  * LibraryMerge: TLC explores every merge order (refusals included) of every multiset of generated source libraries;
    every edge (s, merge(t,o), s') is executed as path(s);merge on libraries written and re-read by armi's own
    ISOTXS/GAMISO/PMATRX writers/readers; after the call the libraries are projected (whose data every nuclide holds,
    group structures, dose factors, velocity, file metadata, chi flags) and compared with the state TLC printed.
  * LibraryMergeDir: the file-based entry point mergeXSLibrariesInWorkingDirectory as another realisation of a merge
    history: generated ISOxx / xx.gamiso / xx.pmatrx files in a fresh directory per behaviour, the user's library in every
    pre-filled state TLC reaches (empty, files merged by hand, an earlier directory merge), with and without gamma libraries;
    the function's skip rule and its dummy-nuclide rules are part of the action.
  * Macros: TLC enumerates micro tables x suffixes x compositions, checks linearity / additivity / zero / defining sums
    in the specification over exact rationals and prints every case with the expected arrays; the real functions are
    called once per case.
code -> spec
  * seeded random scenarios (five generated libraries over five labels, random merge attempts) run on the real code; TLC
    validates every recorded history against LibraryMerge_trace.
"""
import concurrent.futures
import json
import shutil
import multiprocessing
import os
import random
import re

from harness import common, tlc, tracecheck
from harness import replay as rp
from harness import gen_xslib as G
from harness.armi_env import armi_ready

MODDIR = os.path.join(common.SPEC, "xs")
MERGE_ACTIONS = ("Merge", "MergeRefused")
# the exception classes of the three refusals (Property, Metadata, Overlap in the specification).  ValueError: comparing the
# per-nuclide PMATRX metadata of two entries of one label that both carry activation cross sections (lists of arrays) trips
# numpy's "truth value is ambiguous" inside properties.numpyHackForEqual -- an accidental exception class, but the overlap
# IS rejected, which is all the statement asks
REFUSAL_CLASSES = ("ImmutablePropertyError", "OSError", "AttributeError", "ValueError")
NPROC = 4            # processes replaying merge edges
_THIS = __import__("sys").modules[__name__]
_SELFTEST = False
_CACHE = {}


def _tlc_verdict(rep, label, res):
    rep.add_tlc(label, res)
    if res.violation:
        rep.violation("tlc:" + res.violation["name"], "TLC: %s violated in the specification (%s)" % (res.violation["name"], label),
                      {"direction": "tlc", "trace": res.violation["trace"][:20000]})


def launch(thorough):
    """Every TLC run of the tier that reads no trace, a few at a time.  Emission runs are cached (the self-test re-uses them)."""
    t = "_thorough" if thorough else ""
    jobs = {
        "merge_emit": ("LibraryMerge_mc", "LibraryMerge_emit%s.cfg" % t, dict(workers=1, coverage=False)),
        "macro_emit": ("Macros_mc", "Macros_emit%s.cfg" % t, dict(workers=1, coverage=False)),
        "dir_emit": ("LibraryMergeDir_mc", "LibraryMergeDir_emit%s.cfg" % t, dict(workers=1, coverage=False)),
    }
    if not _SELFTEST:
        jobs["merge_mc"] = ("LibraryMerge_mc", "LibraryMerge_mc%s.cfg" % t, dict(workers=4, want_prints=False))
        jobs["macro_mc"] = ("Macros_mc", "Macros_mc%s.cfg" % t, dict(workers=8, want_prints=False))
        jobs["dir_mc"] = ("LibraryMergeDir_mc", "LibraryMergeDir_mc%s.cfg" % t, dict(workers=2, want_prints=False))
        if thorough:
            jobs["merge_four"] = ("LibraryMerge_mc", "LibraryMerge_four_thorough.cfg", dict(workers=4, want_prints=False))
            jobs["merge_all"] = ("LibraryMerge_mc", "LibraryMerge_all.cfg", dict(workers=6, want_prints=False))
    out = {}
    todo = {k: v for k, v in jobs.items() if (v[0], v[1]) not in _CACHE}
    with concurrent.futures.ThreadPoolExecutor(max_workers=6) as ex:
        futs = {k: ex.submit(tlc.run, mod, cfg, MODDIR, timeout=3000, **kw) for k, (mod, cfg, kw) in todo.items()}
        for k, f in futs.items():
            res = f.result()
            if k.endswith("_emit"):
                _CACHE[(jobs[k][0], jobs[k][1])] = res
            out[k] = res
    for k, (mod, cfg, _) in jobs.items():
        if k not in out:
            out[k] = _CACHE[(mod, cfg)]
        out[k].cfgname = cfg
    return out


# ------------------------------------------------------------------------------------------------------------
# LibraryMerge adapter
# ------------------------------------------------------------------------------------------------------------
_SOURCES = None


def sources():
    global _SOURCES
    if _SOURCES is None:
        _SOURCES = G.Sources(common.workdir("c10-src"))
    return _SOURCES


class MergeAdapter:
    """world = the real libraries of one scenario: index 0 an empty IsotxsLibrary, 1..NSrc as read from generated files."""

    def __init__(self, nlab):
        armi_ready()
        from armi.nuclearDataIO import xsLibraries
        from armi.utils import properties

        self.xsLibraries = xsLibraries
        self.refusals = (properties.ImmutablePropertyError, OSError, AttributeError, ValueError)
        self.labels = list(range(1, nlab + 1))

    def build(self, root):
        S = sources()
        libs = [self.xsLibraries.IsotxsLibrary()]
        for sid, d in enumerate(root["src"], start=1):
            libs.append(S.load(d, sid))
        return {"libs": libs, "nsrc": len(root["src"]), "err": "", "last": None}

    def merge(self, w, t, o):
        """target.merge(other) -> "" or "refused".  The statement asks for "an error": which of the refusal classes is raised
        (and hence in which order the code looks for conflicts) is not compared; it is kept in w["cls"] for the reports.
        Anything else (TypeError, KeyError, ...) escapes: an exception out of a legal call is a verdict."""
        w["cls"] = ""
        try:
            w["libs"][t].merge(w["libs"][o])
        except self.refusals as ex:
            w["cls"] = type(ex).__name__
            return "refused"
        return ""

    def apply(self, w, a):
        w["err"] = ""
        w["last"] = a
        if a["n"] not in MERGE_ACTIONS:
            raise AssertionError("unknown action %r" % a)
        w["err"] = self.merge(w, a["t"], a["o"])
        return w["err"]

    def project_libs(self, w):
        S = sources()
        return [G.project_library(x, S, w["nsrc"], self.labels) for x in w["libs"]]

    def project(self, w):
        return shape_obs(self.project_libs(w), w["err"], w["last"])


def shape_obs(libs, err, act, expected=False):
    """The observation: target first, then the bystanders, `other` last, so that a divergence is named after the target
    whenever the target diverges ("rejected with an error leaving the target unchanged").  `other` is compared at a refusal
    too: a refused merge that alters it (chi flags, nuclides re-homed to the target) leaves a library whose content is no
    longer that of its source, which every later merge of that library inherits -- keys ...:other:<group>.
    The outcome is compared as accepted / refused (the specification's refusal kind names the violation keys only)."""
    out = {"err": "refused" if err else ""}
    if act is not None and act.get("n") in ("MergeDir", "MergeDirRefused"):
        # the user's library is index 0.  A refused directory merge is a loop of merges that stopped half-way: only the
        # refusal and the untouched in-memory libraries are compared
        if not err:
            out["target"] = libs[0]
        out["rest"] = libs[1:]
    elif act is not None and "t" in act:
        out["target"] = libs[act["t"]]
        out["rest"] = [x for i, x in enumerate(libs) if i not in (act["t"], act["o"])]
        out["other"] = libs[act["o"]]
    else:
        out["rest"] = libs
    return out


class DirAdapter(MergeAdapter):
    """LibraryMergeDir: a fresh directory per world holding the scenario's files under the names the function looks for
    (ISOxx, xx.gamiso, xx.pmatrx); library 0 empty, libraries of directory sources read from THOSE paths (so that fileNames
    are what the function's skip rule compares), the outsider from its own file."""

    def __init__(self):
        MergeAdapter.__init__(self, nlab=8)
        self.n = 0
        self.base = common.workdir("c10-dir")      # the path must not contain "ISO": the function searches the id in the path

    def build(self, root):
        from armi import nuclearDataIO as ndio

        S = sources()
        self.n += 1
        d = os.path.join(self.base, "w%d_%d" % (os.getpid(), self.n))
        os.makedirs(d)
        paths, pathmap, dummies = {}, {}, set()
        for e in root["dir"]:
            xsid = G.LABELS[root["src"][e["n"] - 1]["labs"][0]][1]
            for k, name in (("n", ndio.getExpectedISOTXSFileName(suffix="", xsID=xsid)), ("g", ndio.getExpectedGAMISOFileName(suffix="", xsID=xsid)),
                            ("p", ndio.getExpectedPMATRXFileName(suffix="", xsID=xsid))):
                sid = e[k]
                paths[sid] = os.path.join(d, name)
                shutil.copy(S.path(root["src"][sid - 1], sid), paths[sid])
                pathmap[paths[sid]] = sid
            if e["dl"]:
                dummies.add(e["dl"])
        libs = [self.xsLibraries.IsotxsLibrary()]
        for sid, desc in enumerate(root["src"], start=1):
            libs.append(G._iomod(desc["kind"]).readBinary(paths[sid]) if sid in paths else S.load(desc, sid))
        return {"libs": libs, "nsrc": len(root["src"]), "err": "", "last": None, "dir": d, "pathmap": pathmap, "dummies": dummies}

    def apply(self, w, a):
        if a["n"] in MERGE_ACTIONS:
            return MergeAdapter.apply(self, w, a)
        if a["n"] not in ("MergeDir", "MergeDirRefused"):
            raise AssertionError("unknown action %r" % a)
        w["err"], w["cls"], w["last"] = "", "", a
        try:
            self.xsLibraries.mergeXSLibrariesInWorkingDirectory(w["libs"][0], "", bool(a["gam"]), alternateDirectory=w["dir"])
        except self.refusals as ex:
            w["cls"] = type(ex).__name__
            w["err"] = "refused"
        return w["err"]

    def project_libs(self, w):
        S = sources()
        return [G.project_library(x, S, w["nsrc"], self.labels, w["pathmap"], w["dummies"]) for x in w["libs"]]

    def dispose(self, w):
        shutil.rmtree(w["dir"], ignore_errors=True)


FIELD_GROUP = {"ngs": "properties", "ggs": "properties", "nd": "properties", "gd": "properties", "vel": "velocity",
               "meta": "file-metadata", "pdose": "file-metadata", "files": "file-metadata", "fw": "chi", "labels": "labels",
               "nucs": "nuclides", "alive": "consumed", "ids": "per-id-view"}
ASBUILT_FIELDS = ("nd", "ngs", "vel", "ggs", "gd")


def beyond_known_partial(asb, expected_target, observed_target):
    """D1 (known finding) stated exactly: after a refused merge the five library-level properties are either untouched (the
    property) or in the state TLC prints as AsBuiltProps (what _mergeProperties has assigned before the refusal).  True when
    the real target is in neither state: a different violation, which must not hide behind the known one."""
    if not isinstance(asb, dict) or "none" in asb or not isinstance(observed_target, dict) or not observed_target.get("alive"):
        return False
    obs = {f: observed_target.get(f) for f in ASBUILT_FIELDS}
    return obs != {f: expected_target.get(f) for f in ASBUILT_FIELDS} and obs != {f: asb.get(f) for f in ASBUILT_FIELDS}



def merge_key(div):
    """Stable identifier of a merge divergence: outcome class (and the refusal the specification expects), which library,
    which group of fields."""
    a = div["action"]
    d = div["first_difference"]
    path = d.split(":")[0]
    if path.startswith(".exception"):
        m = re.search(r"exception: (\w+) escaped", d)
        return "merge:%s:exception:%s" % (a["n"], m.group(1) if m else "?")
    if path == ".err":
        return "merge:%s:outcome" % a["n"]
    if div.get("beyond"):
        return "merge:%s:%s:target:properties-not-the-known-partial-merge" % (a["n"], div.get("kind", ""))
    parts = [p for p in re.sub(r"\[\d+\]", "", path).split(".") if p]
    who = parts[0] if parts else "?"
    field = parts[1] if len(parts) > 1 else "?"
    group = FIELD_GROUP.get(field, field)
    if group == "nuclides" and len(parts) > 2:
        group = {"cf": "chi", "owner": "container"}.get(parts[2], "nuclide-data")
    kind = div.get("kind", "")
    return "merge:%s%s:%s:%s" % (a["n"], ":" + kind if kind else "", who, group)


def edges_of(res):
    edges = []
    for p in res.prints:
        if isinstance(p, dict) and "act" in p:
            e = dict(p)
            e["obs"] = shape_obs(p["to"]["lib"], p["err"], p["act"], expected=True)
            edges.append(e)
    return edges


_RCTX = None


def _replay_chunk(idxs):
    g, ad = _RCTX
    out = []
    for i in idxs:
        e = g.edges[i]
        pre = g.path[e["_fk"]]
        root = pre[0]["from"] if pre else e["from"]
        d = rp.run_behaviour(ad, root, pre + [e], check_from=len(pre))
        if d:
            d["kind"] = e["err"]          # the refusal kind the specification gives this edge ("" = accepted)
            if e["err"] and isinstance(d.get("observed"), dict):
                d["beyond"] = beyond_known_partial(e.get("asb"), e["obs"].get("target", {}), d["observed"].get("target"))
                if d["beyond"]:
                    d["first_difference"] = "library-level properties after the refusal are %s: neither untouched %s nor the known partial merge %s" % (
                        json.dumps({f: d["observed"]["target"].get(f) for f in ASBUILT_FIELDS}),
                        json.dumps({f: e["obs"]["target"].get(f) for f in ASBUILT_FIELDS}), json.dumps(e["asb"]))
        out.append((i, d))
    return out


def replay_all(g, ad, nproc=NPROC):
    """Like rp.replay_graph, but keeps going after divergences, keeps ONE divergence per key (the shortest behaviour) and
    attributes a divergence to the first edge that shows it: edges are taken level by level (BFS depth of their source
    state) and an edge whose BFS-tree prefix already diverged is not replayed (its prefix is reported instead).
    The edges of one level are shared among `nproc` forked processes.  Returns (n, nontrivial, divs, masked)."""
    global _RCTX
    S = sources()
    for e in g.edges:                      # materialise every source file before forking
        if e.get("lvl") == 1:
            for sid, d in enumerate(e["from"]["src"], start=1):
                S.path(d, sid)
    levels = {}
    for i, e in enumerate(g.edges):
        pre = g.path.get(e["_fk"])
        if pre is not None:
            levels.setdefault(len(pre), []).append(i)
    divs = {}
    n = nt = masked = 0
    bad_states = set()
    _RCTX = (g, ad)
    ctx = multiprocessing.get_context("fork")
    try:
        for lvl in sorted(levels):
            todo = []
            for i in levels[lvl]:
                e = g.edges[i]
                if e["_fk"] in bad_states:
                    masked += 1
                    tree = g.path.get(e["_tk"])
                    if tree and tree[-1] is e:
                        bad_states.add(e["_tk"])
                else:
                    todo.append(i)
            if not todo:
                continue
            if nproc > 1 and len(todo) > 200:
                size = max(50, len(todo) // (nproc * 4))
                chunks = [todo[k:k + size] for k in range(0, len(todo), size)]
                with ctx.Pool(nproc) as pool:
                    results = [r for part in pool.map(_replay_chunk, chunks) for r in part]
            else:
                results = _replay_chunk(todo)
            for i, d in results:
                e = g.edges[i]
                n += 1
                nt += 1 if e["_fk"] != e["_tk"] else 0
                if d:
                    tree = g.path.get(e["_tk"])
                    if tree and tree[-1] is e:
                        bad_states.add(e["_tk"])
                    k = merge_key(d)
                    cnt = divs.get(k, {}).get("count", 0) + 1
                    if k not in divs or len(d["behaviour"]) < len(divs[k]["behaviour"]):
                        divs[k] = d
                    divs[k]["count"] = cnt
    finally:
        _RCTX = None
    return n, nt, divs, masked


def run_merge(rep, thorough, seed, results):
    # 1. the design itself: invariants over every merge order of every scenario
    for k in ("merge_mc", "merge_four", "merge_all"):
        if k in results and not _SELFTEST:
            res = results[k]
            _tlc_verdict(rep, "exhaustive:" + res.cfgname, res)
            never = [a for a in MERGE_ACTIONS if res.coverage.get(a, (0, 0))[1] == 0]
            if never:
                raise tlc.MachineryError("vacuous: actions never taken in %s: %s" % (res.cfgname, never))
    # 2. spec -> code: every edge on real libraries
    eres = results["merge_emit"]
    _tlc_verdict(rep, "edges:" + eres.cfgname, eres)
    g = rp.Graph(edges_of(eres))
    ad = MergeAdapter(nlab=3)
    n, nt, divs, masked = replay_all(g, ad)
    if n == 0:
        raise tlc.MachineryError("no merge edges replayed")
    rep.add_replay("merge-edges", n, nt,
                   "every edge (s, target.merge(other), s') of TLC's state graph is executed as path(s);merge on libraries "
                   "written and re-read by armi's ISOTXS/GAMISO/PMATRX code; the libraries are projected and compared; "
                   "non-trivial = the merge succeeds (the state changes)")
    if masked:
        rep.note("%d merge edges not replayed because the path leading to them already diverged (reported at its first edge)" % masked)
    for key, d in divs.items():
        rep.violation(key, "real libraries diverge from LibraryMerge after %s (specified outcome: %s; %d edges): %s" % (
            json.dumps(d["action"]), d["kind"] + " conflict, refused" if d["kind"] else "merged", d["count"], d["first_difference"]),
            dict(d, direction="replay", part="merge"))
    ok = [x for x in g.edges if x["err"] == "" and len(g.path[x["_fk"]]) == 2]
    no = [x for x in g.edges if x["err"] != "" and len(g.path[x["_fk"]]) == 1]
    for kind, pool in (("merge-edge", ok), ("merge-refusal", no)):
        if pool:
            e = pool[len(pool) // 2]
            rep.sample({"kind": kind, "sources": e["from"]["src"], "path": [s["act"] for s in g.path[e["_fk"]]], "act": e["act"],
                        "expected_err": e["err"], "expected_target": e["obs"].get("target")})


def run_merge_dir(rep, thorough, seed, results):
    """mergeXSLibrariesInWorkingDirectory as another realisation of a merge history (LibraryMergeDir)."""
    if "dir_mc" in results and not _SELFTEST:
        res = results["dir_mc"]
        _tlc_verdict(rep, "exhaustive:" + res.cfgname, res)
        never = [a for a in ("MergeDir", "UserMerge") if res.coverage.get(a, (0, 0))[1] == 0]
        if never:
            raise tlc.MachineryError("vacuous: actions never taken in %s: %s" % (res.cfgname, never))
    eres = results["dir_emit"]
    _tlc_verdict(rep, "edges:" + eres.cfgname, eres)
    g = rp.Graph(edges_of(eres))
    n, nt, divs, masked = replay_all(g, DirAdapter())
    ndir = sum(1 for e in g.edges if e["act"]["n"].startswith("MergeDir"))
    if n == 0 or ndir == 0 or not any(e["act"]["n"] == "MergeDirRefused" for e in g.edges):
        raise tlc.MachineryError("vacuous: directory merge edges replayed=%d, directory calls=%d" % (n, ndir))
    rep.add_replay("directory-merge-edges", n, nt,
                   "every edge of LibraryMergeDir's state graph (the user's own merges of files read by hand and calls of "
                   "mergeXSLibrariesInWorkingDirectory with and without gamma libraries, in any order, <= 3 calls) is executed on a "
                   "fresh directory of generated ISOxx / xx.gamiso / xx.pmatrx files; non-trivial = the state changes")
    rep.note("directory merges: %d of the %d edges call mergeXSLibrariesInWorkingDirectory" % (ndir, len(g.edges)))
    if masked:
        rep.note("%d directory-merge edges not replayed because the path leading to them already diverged" % masked)
    for key, d in divs.items():
        rep.violation(key, "real libraries diverge from LibraryMergeDir after %s (specified outcome: %s; %d edges): %s" % (
            json.dumps(d["action"]), d["kind"] + " conflict, refused" if d["kind"] else "merged", d["count"], d["first_difference"]),
            dict(d, direction="replay", part="merge-dir"))
    ok = [x for x in g.edges if x["act"]["n"] == "MergeDir" and x["_fk"] != x["_tk"] and len(g.path[x["_fk"]]) == 1]
    if ok:
        e = ok[len(ok) // 2]
        rep.sample({"kind": "directory-merge", "sources": e["from"]["src"], "dir": e["from"]["dir"], "path": [s["act"] for s in g.path[e["_fk"]]],
                    "act": e["act"], "expected_target": e["obs"].get("target")})


# ------------------------------------------------------------------------------------------------------------
# code -> spec: random merge histories
# ------------------------------------------------------------------------------------------------------------
TRACE_NSRC, TRACE_NLAB = 5, 5


def random_desc(rng):
    # biased towards compatible libraries, so that histories reach libraries merged from three and more sources
    kind = rng.choice(["n", "g", "p"])
    labs = sorted(rng.sample(range(1, TRACE_NLAB + 1), rng.choice([1, 1, 2, 2, 3])))
    gs = lambda: rng.choice([1, 1, 1, 1, 1, 1, 1, 2, 3])  # noqa: E731
    d = {"kind": kind, "labs": labs, "ngs": 0, "ggs": 0, "nd": 0, "gd": 0, "meta": rng.choice([1] * 9 + [2]), "fw": False}
    if kind == "n":
        d["ngs"] = gs()
        d["fw"] = rng.random() < 0.3
    elif kind == "g":
        d["ggs"] = gs()
    else:
        d["ngs"], d["ggs"] = gs(), gs()
        d["nd"] = d["gd"] = rng.choice([0, 0, 1, 1, 2])
    return d


def merge_traces(ntraces, nev, seed):
    rng = random.Random(seed * 104729 + 10)
    ad = MergeAdapter(nlab=TRACE_NLAB)
    traces = []
    for t in range(ntraces):
        src = [random_desc(rng) for _ in range(TRACE_NSRC)]
        attempts = [(rng.random(), rng.random()) for _ in range(nev)]
        # two families: every attempt recorded (refusals included) / successful merges only
        traces.append(record_trace(ad, "%s%d" % ("a" if t % 3 == 2 else "m", t), src, attempts, accepted_only=(t % 3 == 2)))
    return traces


def would_refuse(ad, src, accepted, ti, oi):
    """Try target.merge(other) on a throw-away copy of the world (sources re-read, the accepted merges so far re-applied):
    no oracle, the real code says whether it refuses."""
    w = ad.build({"src": src})
    for a in accepted:
        ad.merge(w, a["t"], a["o"])
    try:
        return bool(ad.merge(w, ti, oi))
    except Exception:  # noqa: BLE001  an escaping exception is recorded by the real attempt
        return False


def record_trace(ad, tid, src, attempts, accepted_only=False):
    """Run one history on the real code.  attempts: pairs of numbers in [0,1) choosing target / other among the libraries
    that are still alive (so that a recorded trace can be re-run exactly).  accepted_only: an attempt the real code refuses
    (found out on a throw-away copy) is skipped, so the history consists of successful merges only and reaches libraries
    merged from many sources whatever a refused merge may leave behind."""
    w = ad.build({"src": src})
    ev = []
    for x, y in attempts:
        alive = [i for i, lib in enumerate(w["libs"]) if lib.__dict__]
        if len(alive) < 2:
            break
        ti = alive[int(x * len(alive))]
        rest = [i for i in alive if i != ti]
        oi = rest[int(y * len(rest))]
        a = {"n": "merge", "t": ti, "o": oi}
        if accepted_only and would_refuse(ad, src, [e["a"] for e in ev], ti, oi):
            continue
        try:
            err = ad.merge(w, ti, oi)
            libs = ad.project_libs(w)
            ev.append({"a": a, "post": {"libs": libs, "err": err, "cls": w["cls"]}})
        except Exception as ex:  # noqa: BLE001  an escaping exception ends the history; TLC rejects the event
            ev.append({"a": a, "post": {"libs": [], "err": "exception %s: %s" % (type(ex).__name__, str(ex)[:160])}})
            break
    return {"id": tid, "src": src, "attempts": attempts, "accepted_only": accepted_only, "ev": ev}


def trace_verdicts(bad):
    """(key, text, payload) for every rejected trace; keys coincide with the replay keys of the same mechanism."""
    out = []
    for b in bad:
        ev = b["trace"]["ev"]
        k = b["matched"]
        nxt = ev[k] if k < len(ev) else {}
        a = nxt.get("a", {})
        exp = (b.get("mismatch") or {}).get("expected")
        post = nxt.get("post", {})
        if "invariant" in b:
            key, why = "trace:merge:invariant:" + b["invariant"], "invariant %s fails on a recorded history" % b["invariant"]
        elif str(post.get("err", "")).startswith("exception"):
            key = "merge:%s:exception:%s" % ("Merge" if not (exp or {}).get("err") else "MergeRefused", post["err"].split()[1].rstrip(":"))
            why = post["err"]
        elif exp:
            act = {"n": "MergeRefused" if exp["err"] else "Merge", "t": a.get("t"), "o": a.get("o")}
            go = shape_obs(post.get("libs", []), post.get("err"), act)
            eo = shape_obs(exp["libs"], exp["err"], act, expected=True)
            why = rp.diff(eo, go) or ".?: recorded state is not the specification's"
            beyond = bool(exp["err"]) and beyond_known_partial(exp.get("asb"), eo.get("target", {}), go.get("target"))
            if beyond:
                why = "library-level properties after the refusal are neither untouched nor the known partial merge %s: %s" % (json.dumps(exp["asb"]), why)
            key = merge_key({"action": act, "first_difference": why, "kind": exp["err"], "beyond": beyond})
        else:
            key, why = "trace:merge:unmatched", "no step of the specification matches"
        out.append((key, "recorded merge history %s is not a behaviour of LibraryMerge at event %d (%s): %s" % (
            b["trace"]["id"], k + 1, json.dumps(a), why[:400]),
            {"direction": "trace", "part": "merge", "trace": b["trace"], "matched": k, "expected": exp}))
    return out


def run_merge_traces(rep, thorough, seed):
    ntr = 60 if _SELFTEST else 600 if thorough else 150
    traces = merge_traces(ntr, 9, seed)
    bad, stats = tracecheck.validate("LibraryMerge_trace", "LibraryMerge_trace.cfg", MODDIR, traces, timeout=3000)
    rep.add_tlc("trace-validation:merge", stats["tlc"])
    nref = sum(1 for t in traces for e in t["ev"] if e["post"]["err"])
    nacc = [t for t in traces if t["accepted_only"]]
    lost = sum(len(b["trace"]["ev"]) - b["matched"] - 1 for b in bad)
    lost_acc = sum(len(b["trace"]["ev"]) - b["matched"] - 1 for b in bad if b["trace"].get("accepted_only"))
    rep.add_traces("merge-histories", len(traces), sum(len(t["ev"]) for t in traces),
                   "seeded random scenarios of %d generated source libraries over %d labels, <= 9 random merge attempts each, run on "
                   "the real code; the projection of every library after every call must be a step of LibraryMerge" % (TRACE_NSRC, TRACE_NLAB))
    rep.note("merge histories: %d events, %d of them refusals; %d histories (%d events) consist of successful merges only" % (
        sum(len(t["ev"]) for t in traces), nref, len(nacc), sum(len(t["ev"]) for t in nacc)))
    if bad:
        rep.note("%d histories rejected; %d recorded events after the rejected one were not validated (%d of them in the "
                 "successful-merges-only histories)" % (len(bad), lost, lost_acc))
    if nref == 0 or nref == sum(len(t["ev"]) for t in traces):
        raise tlc.MachineryError("vacuous: the recorded histories contain %d refusals out of %d events" % (nref, sum(len(t["ev"]) for t in traces)))
    rep.sample({"kind": "merge-trace", "id": traces[0]["id"], "sources": traces[0]["src"], "events": [e["a"] for e in traces[0]["ev"]],
                "errors": [e["post"]["err"] for e in traces[0]["ev"]]})
    for key, text, payload in trace_verdicts(bad):
        rep.violation(key, text, payload)


# ------------------------------------------------------------------------------------------------------------
# Macros: one real call per printed case
# ------------------------------------------------------------------------------------------------------------
MACRO_RTOL = 1e-9   # a handful of double additions/multiplications of small rationals


def macro_key(case, quantity, exp, got):
    """Input class x quantity x symptom."""
    if isinstance(got, dict) and "raises" in got:
        symptom = "exception:" + got["raises"].split(":")[0]
    elif got == "None":
        symptom = "None"
    elif got == "refused" or exp == "refused":
        symptom = "refusal"
    else:
        symptom = "value"
    if case["empty"]:
        return "macro:empty-composition:%s" % quantity.split(".")[0]
    q = re.sub(r"^(\w+)\.rx\..*$", r"\1.rx", quantity)
    return "macro:%s:%s" % (q, symptom)


CREATOR_CALLS = ("creator", "gcreator", "names", "minimum")


def check_macro_case(world, mult_world, table, case, empty_dict=False):
    """-> list of (key, text, payload)"""
    exp = G.expected_macro(case, table)
    got = G.run_macro_case(world, case, mult_world, empty_dict=empty_dict)
    out = []
    failed = set()
    for q, e in exp.items():
        call = q.split(".")[0]
        if q in got:
            o, q0 = got[q], q
        elif call in CREATOR_CALLS:
            # that createMacrosFromMicros call raised / was refused (reported under the bare prefix), or was expected to be
            # refused and was not (its fields are there): one verdict per call, not one per field
            if call in failed:
                continue
            failed.add(call)
            o, q0 = (got[call], call) if call in got else ("the macroscopic collection", call)
            e = e if q == call else "the macroscopic collection"
        else:
            o, q0 = "missing", q
        d = rp.diff(e, o, rtol=MACRO_RTOL)
        if d:
            out.append((macro_key(case, q0, e, o), "%s for composition %s (suffix %s, table %d%s): expected %s, observed %s" % (
                q0, json.dumps(case["comp"]), case["sfx"], case["v"], ", empty dict" if empty_dict else "",
                json.dumps(e)[:200], json.dumps(o)[:300]),
                {"direction": "replay", "part": "macros", "case": case, "table": table, "quantity": q0, "empty_dict": empty_dict,
                 "expected": e, "observed": o}))
    return out


def check_total_scatter(world, table, v):
    out = []
    for i, rad in [(i, rad) for i in range(len(table["entries"])) for rad in ("n", "g")]:
        e = table["entries"][i][rad]
        lacking = [k for k, h in zip(table["scatKinds"], e["hasScat"]) if not h]
        payload = {"direction": "replay", "part": "totalScatter", "table": table, "entry": i, "radiation": rad}
        try:
            got = world.micro_total_scatter(i, rad)
        except Exception as ex:  # noqa: BLE001  a legal query that raises is an observation
            out.append(("totalScatter:micro:exception:%s:lacking-%s" % (type(ex).__name__, "n2nScatter" if "n2nScatter" in lacking else "+".join(lacking) or "nothing"),
                        "XSCollection.getTotalScatterMatrix raised %s: %s on a nuclide without %s" % (type(ex).__name__, ex, lacking), payload))
            continue
        d = rp.diff(G.mat(e["totScat"]), got, rtol=MACRO_RTOL)
        if d:
            out.append(("totalScatter:micro:value:lacking-%s" % ("+".join(lacking) or "nothing"),
                        "XSCollection.getTotalScatterMatrix of table %d entry %d: %s" % (v, i, d), payload))
    return out


def _macro_worlds(thorough):
    """For --replay: the tables are re-printed by TLC (a multLib case needs the library of another table of the same tier)."""
    res = tlc.run("Macros_mc", "Macros_emit%s.cfg" % ("_thorough" if thorough else ""), MODDIR, workers=1, coverage=False, timeout=3000)
    tables = {p["table"]: p for p in res.prints if isinstance(p, dict) and "table" in p}
    wd = common.workdir("c10-macro")
    return {v: G.MacroWorld(tb, wd) for v, tb in tables.items()}


def run_macros(rep, thorough, seed, results):
    if "macro_mc" in results and not _SELFTEST:
        res = results["macro_mc"]
        _tlc_verdict(rep, "exhaustive:" + res.cfgname, res)
        if res.coverage.get("Next", (0, 0))[1] == 0:
            raise tlc.MachineryError("vacuous: Macros explored no case")
    eres = results["macro_emit"]
    _tlc_verdict(rep, "cases:" + eres.cfgname, eres)
    tables = {p["table"]: p for p in eres.prints if isinstance(p, dict) and "table" in p}
    cases = [p["case"] for p in eres.prints if isinstance(p, dict) and "case" in p]
    if not tables or not cases:
        raise tlc.MachineryError("Macros printed no tables / cases")
    wd = common.workdir("c10-macro")
    worlds = {v: G.MacroWorld(tb, wd) for v, tb in tables.items()}
    n = nontrivial = 0
    for c in cases:
        for empty_dict in [False] + ([True] if c["empty"] else []):     # the empty composition also as an empty dict
            n += 1
            nontrivial += 0 if (c["empty"] or c["refused"]) else 1
            for key, text, payload in check_macro_case(worlds[c["v"]], worlds[tables[c["v"]]["multTable"]], tables[c["v"]], c, empty_dict):
                rep.violation(key, text, payload)
    if nontrivial == 0:
        raise tlc.MachineryError("vacuous: no macro case with a non-empty, accepted composition")
    rep.add_replay("macro-cases", n, nontrivial,
                   "every (table, suffix, composition) TLC enumerates is given to computeMacroscopicGroupConstants (7 reactions, nuSigF, "
                   "total, transport; neutron and gamma collections; with a distinct multLib), the neutron/gamma energy-deposition and "
                   "fission/capture energy-generation functions and to MacroscopicCrossSectionCreator on a real HexBlock (libType micros "
                   "and gammaXS, with nucNames, with minimumNuclideDensity); non-trivial = neither empty nor refused")
    m = 0
    for v, w in worlds.items():
        m += 2 * len(tables[v]["entries"])
        for key, text, payload in check_total_scatter(w, tables[v], v):
            rep.violation(key, text, payload)
    rep.add_replay("micro-total-scatter", m, m, "XSCollection.getTotalScatterMatrix on every generated nuclide against the table's sum")
    ok = [c for c in cases if not c["empty"] and not c["refused"] and c["sfx"] == "AA"]
    if ok:
        c = ok[len(ok) // 2]
        rep.sample({"kind": "macro-case", "table": c["v"], "suffix": c["sfx"], "composition": c["comp"],
                    "expected": {k: c["n"][k] for k in ("absorption", "removal", "nuSigF")}})


def run(rep, tier, seed):
    thorough = tier == "thorough"
    for m in ("LibraryMerge_mc", "LibraryMergeDir_mc", "LibraryMerge_trace", "Macros_mc"):
        tlc.sany(m, MODDIR)
    rep.exhaustive = True
    results = launch(thorough)          # all threads have ended before any process is forked
    run_merge(rep, thorough, seed, results)
    run_merge_dir(rep, thorough, seed, results)
    run_merge_traces(rep, thorough, seed)
    run_macros(rep, thorough, seed, results)
    rep.extra["tolerances"] = {"macroscopic arrays": "rtol %g (a handful of double operations on small rationals)" % MACRO_RTOL,
                               "library content": "exact (ids recognised from byte-exact fingerprints of arrays and metadata)"}
    rep.assume(
        "a source library is what armi's ISOTXS / GAMISO / PMATRX reader returns for a generated file of one kind; libraries are "
        "merged at most once and never into themselves",
        "order of nuclideLabels / fileNames is not content (compared as sets); the free-text libraryLabel is not content",
        "neutron velocity: the first merged library that has one provides it (documented 'just use the first one'); that one is "
        "present iff a neutron library was merged is order-independent",
        "every generated PMATRX nuclide carries neutron heating data (two data-free entries of one label would merge silently)",
        "at a refused merge the target is compared first, then the bystanders, then `other` (a refused merge that alters `other` "
        "leaves a library that is no longer what its source gave; keys ...:other:...)",
        "a refusal is any of ImmutablePropertyError (group structures / dose factors), OSError (file metadata), AttributeError or "
        "numpy's ValueError (same kind of data for one label); which one is raised when several conflicts coexist is not compared",
        "the per-id view of a library (getNuclides(id)) holds the nuclides whose label ENDS with the id; the label domain has an "
        "id (NA) that is a substring of a label of another id (NA23AA)",
        "known finding D1, stated exactly: after a refused merge the five library-level properties (dose factors, energy "
        "structures, velocity) are either untouched or in the state AsBuiltProps TLC prints (what _mergeProperties assigns "
        "before the refusal); any other state is reported under ...:properties-not-the-known-partial-merge",
        "createMacrosFromMicros: the composition is the block's restricted to nucNames and to densities above "
        "minimumNuclideDensity, for every field; libType gammaXS = every field from the gamma collection; a multLib provides "
        "the multipliers only",
        "directory merge: ids in the order of the sorted ISOxx names; an id whose ISOxx path is already in the library's fileNames "
        "is skipped with its gamma files; a refused directory merge is compared on the refusal only (a loop of merges that "
        "stopped); of a dummy nuclide's synthesised entries only their existence is observed",
        "multipliers efiss / ecapt: exactly 0.0 is a value (ISOTXS files state them for every nuclide; 'absent' does not occur)",
        "zero for an empty composition = zero vector (not None, not an exception); a nuclide with non-zero density that the library "
        "lacks is refused with ValueError as documented; data a nuclide does not carry contribute nothing",
        "energy-deposition constants are compared in the library's unit (observed J/cm divided by units.JOULES_PER_eV)",
    )


# ------------------------------------------------------------------------------------------------------------
def replay(payload):
    part, direction = payload.get("part"), payload.get("direction")
    if part == "merge" and direction == "replay":
        ad = MergeAdapter(nlab=len(payload["root"]["lib"][0]["nucs"]))
        steps = [{"act": a, "obs": {}} for a in payload["behaviour"]]
        steps[-1]["obs"] = payload["expected"]
        d = rp.run_behaviour(ad, payload["root"], steps, check_from=len(steps) - 1)
        print(json.dumps(d, indent=1, default=str) if d else "no divergence: behaviour conforms")
        return 1 if d else 0
    if part == "merge-dir" and direction == "replay":
        steps = [{"act": a, "obs": {}} for a in payload["behaviour"]]
        steps[-1]["obs"] = payload["expected"]
        d = rp.run_behaviour(DirAdapter(), payload["root"], steps, check_from=len(steps) - 1)
        print(json.dumps(d, indent=1, default=str) if d else "no divergence: behaviour conforms")
        return 1 if d else 0
    if part == "merge" and direction == "trace":
        tr = payload["trace"]
        ad = MergeAdapter(nlab=TRACE_NLAB)
        again = record_trace(ad, tr["id"], tr["src"], [tuple(x) for x in tr["attempts"]], tr.get("accepted_only", False))
        bad, _ = tracecheck.validate("LibraryMerge_trace", "LibraryMerge_trace.cfg", MODDIR, [again], timeout=600)
        for key, text, _p in trace_verdicts(bad):
            print(key, "\n ", text)
        if not bad:
            print("no divergence: the re-recorded history is a behaviour of LibraryMerge")
        return 1 if bad else 0
    if part == "macros":
        worlds = _macro_worlds(payload.get("tier") == "thorough")
        t = payload["table"]
        out = check_macro_case(worlds[t["table"]], worlds[t["multTable"]], t, payload["case"], payload.get("empty_dict", False))
        for key, text, _p in out:
            print(key, "\n ", text)
        if not out:
            print("no divergence: the case conforms")
        return 1 if out else 0
    if part == "totalScatter":
        w = G.MacroWorld(payload["table"], common.workdir("c10-macro"))
        out = check_total_scatter(w, payload["table"], payload["table"]["table"])
        for key, text, _p in out:
            print(key, "\n ", text)
        if not out:
            print("no divergence")
        return 1 if out else 0
    print("replay of direction=%s: see payload (TLC trace)" % direction)
    return 0


def selftest():
    """In-process mutants of the anchored code; each must be detected by replay, trace validation or the macro cases."""
    global _SELFTEST
    from harness.report import Report
    from harness.selftest import patched, run_mutants

    armi_ready()
    import numpy as np
    from armi.nuclearDataIO import nuclearFileMetadata, xsCollections, xsLibraries, xsNuclides
    from armi.utils import properties

    _SELFTEST = True
    L = xsLibraries.IsotxsLibrary

    def detect():
        rep = Report("C10", "quick", 0)
        run(rep, "quick", 0)
        return [v["key"] for v in rep.violations]

    # ---- merge mutants ----
    def merge_nuclides_later_wins(self, other):
        for key, nuc in other.items():
            if key in self:
                del self[key]          # the later library silently replaces the entry
            self[key] = nuc

    def xscollection_merge_overwrites(self, other):
        if any(v is not None for k, v in other.__dict__.items() if k not in ("source", "higherOrderScatter")):
            self.__dict__.update(other.__dict__)

    def merge_attributes_keep_first(this, other, attrName):
        a = getattr(this, attrName)
        return a if a is not None else getattr(other, attrName)

    def merge_energies_no_check(self, other):
        if getattr(self, "_neutronEnergyUpperBounds", None) is None:
            self.neutronEnergyUpperBounds = other.neutronEnergyUpperBounds
        if getattr(self, "_neutronVelocity", None) is None:
            self.neutronVelocity = other.neutronVelocity

    orig_md_merge = nuclearFileMetadata._Metadata.merge

    def metadata_merge_no_compare(self, other, selfContainer, otherContainer, fileType, exceptionClass):
        try:
            return orig_md_merge(self, other, selfContainer, otherContainer, fileType, exceptionClass)
        except exceptionClass:
            merged = self.__class__()
            merged.update(other)
            merged.update(self)
            return merged

    def file_md_merge_drops_names(self, other, selfContainer, otherContainer, mergedData):
        mergedData.fileNames = list(self.fileNames)
        mergedData["libraryLabel"] = self["libraryLabel"] or other["libraryLabel"]

    orig_merge = L.merge

    def merge_keeps_other(self, other):
        keep = dict(other.__dict__)
        orig_merge(self, other)
        other.__dict__ = keep          # the merged-in library is not emptied: its nuclides now live in two libraries

    def merge_props_skip_gamma(self, other):
        properties.unlockImmutableProperties(other)
        try:
            self.neutronDoseConversionFactors = other.neutronDoseConversionFactors
            self._mergeNeutronEnergies(other)
            self.gammaDoseConversionFactors = other.gammaDoseConversionFactors
        finally:
            properties.lockImmutableProperties(other)

    orig_xsn_merge = xsNuclides.XSNuclide.merge

    def nuclide_merge_scales(self, other):
        orig_xsn_merge(self, other)
        if self.gammaXS.nGamma is not None and self.micros.nGamma is not None:
            self.gammaXS.nGamma = self.gammaXS.nGamma * 1.0000001     # data no longer identical to its source

    # ---- macro mutants ----
    orig_cmgc = xsCollections.computeMacroscopicGroupConstants

    def cmgc_unsorted_last_twice(constantName, numberDensities, lib, microSuffix, libType=None, multConstant=None, multLib=None):
        r = orig_cmgc(constantName, numberDensities, lib, microSuffix, libType=libType, multConstant=multConstant, multLib=multLib)
        if r is not None and constantName == "nalph":
            r = r * 2.0          # one reaction double counted
        return r

    def cmgc_missing_silently_skipped(constantName, numberDensities, lib, microSuffix, libType=None, multConstant=None, multLib=None):
        present = {}
        for k, v in numberDensities.items():
            try:
                lib.getNuclide(k, microSuffix)
                present[k] = v
            except KeyError:
                pass
        return orig_cmgc(constantName, present, lib, microSuffix, libType=libType, multConstant=multConstant, multLib=multLib)

    def absorption_skips_n2n(self):
        return [self.nGamma, self.fission, self.nalph, self.np, self.nd, self.nt]

    def removal_keeps_diagonal(self):
        self.macros.removal = self.macros.absorption - self.macros.n2n
        self.macros.removal += self.macros.totalScatter.sum(axis=0).getA1()

    def total_scatter_n2n_once(self):
        ms = [m for m in (self.elasticScatter, self.inelasticScatter, self.n2nScatter) if m is not None]
        return sum(ms)

    def scatter_ignores_suffix(self, libType="micros"):
        for nuclide in self.microLibrary.nuclides:
            mc = getattr(nuclide, libType)
            nd = self.densities.get(nuclide.name, 0.0)
            for k in ("elasticScatter", "inelasticScatter", "n2nScatter"):
                if mc[k] is not None:
                    self.macros[k] = self.macros[k] + mc[k] * nd

    def xs_multiplier_first_group(libNuclide, multiplier, libType):
        if multiplier:
            try:
                v = getattr(getattr(libNuclide, libType), multiplier)
            except Exception:
                v = libNuclide.isotxsMetadata[multiplier]
            v = np.asarray(v)
            return v if v.ndim == 0 else np.full(v.shape, v[0])      # nu taken from the first group only
        return np.asarray(1.0)

    # ---- write-once property / chi rule ----
    def overwritable(name):
        priv = "_" + name

        def getter(self):
            return getattr(self, priv, None)

        def setter(self, value):
            if value is not None or not hasattr(self, priv):
                setattr(self, priv, value)            # no comparison with the value already set

        return property(getter, setter)

    def skipped_keys_without_chiflags(self, other, selfContainer, otherContainer, mergedData):
        keys = set(["chi", "libraryLabel"])
        if self["chi"] is not None or other["chi"] is not None:
            mergedData["fileWideChiFlag"] = 0
            keys.add("fileWideChiFlag")
            mergedData["chi"] = None                  # the file-wide chi is dropped, but no nuclide is told to write its own
        return keys

    # ---- the validator itself: corrupted recordings must be rejected ----
    g = globals()
    orig_record = g["record_trace"]

    def record_drops_event(ad, tid, src, attempts, accepted_only=False):
        tr = orig_record(ad, tid, src, attempts, accepted_only)
        ok = [i for i, e in enumerate(tr["ev"][:-1]) if not e["post"]["err"]]
        if ok and tid.endswith("7"):
            del tr["ev"][ok[0]]
        return tr

    def record_corrupts_field(ad, tid, src, attempts, accepted_only=False):
        tr = orig_record(ad, tid, src, attempts, accepted_only)
        if tid.endswith("3"):
            for e in tr["ev"]:
                for lib in e["post"]["libs"]:
                    if lib.get("alive") and lib["labels"]:
                        lib["nucs"][lib["labels"][0] - 1]["cf"] = 1 - lib["nucs"][lib["labels"][0] - 1]["cf"]
                        return tr
        return tr

    # ---- second seeding round ----
    def removal_below_diagonal_only(self):
        from scipy import sparse
        self.macros.removal = self.macros.absorption - self.macros.n2n
        self.macros.removal += sparse.tril(self.macros.totalScatter, k=-1).sum(axis=0).getA1()   # up-scatter out of a group forgotten

    def xs_multiplier_zero_is_absent(libNuclide, multiplier, libType):
        if multiplier:
            try:
                v = getattr(getattr(libNuclide, libType), multiplier)
            except Exception:
                v = libNuclide.isotxsMetadata[multiplier] or 1.0      # an energy per capture of exactly 0 becomes 1
        else:
            v = 1.0
        return np.asarray(v)

    def resourced(fn, old, new):
        """The function recompiled from its own source with one fragment replaced (for mutants in the middle of a long function)."""
        import inspect
        import textwrap

        src = textwrap.dedent(inspect.getsource(fn))
        if src.count(old) != 1:
            raise tlc.MachineryError("selftest: fragment %r not found exactly once in %s" % (old, fn.__name__))
        ns = {}
        exec(compile(src.replace(old, new), "<mutant of %s>" % fn.__name__, "exec"), fn.__globals__, ns)
        return ns[fn.__name__]

    dirmerge = xsLibraries.mergeXSLibrariesInWorkingDirectory
    dir_skips_known_ids = resourced(dirmerge, "if xsLibFilePath in lib.isotxsMetadata.fileNames:",
                                    "if xsLibFilePath in lib.isotxsMetadata.fileNames or xsID in lib.xsIDs:")
    dir_gamma_without_dummies = resourced(dirmerge, "gammaLibrary, dummyNuclidesInNeutron", "gammaLibrary, None")
    dir_reference_never_set = resourced(dirmerge, "if not referenceDummyNuclides:", "if False:")
    dir_merges_unsorted_last_first = resourced(dirmerge, "for xsLibFilePath in sorted(xsLibFiles):", "for xsLibFilePath in sorted(xsLibFiles, reverse=True):")

    # ---- third seeding round ----
    def get_nuclides_suffix_anywhere(self, suffix):
        nucs = []
        for nucLabel, nuc in self.items():
            if not suffix or suffix in nucLabel:          # the id is looked for in the whole label, not in its last two characters
                if nuc not in nucs:
                    nucs.append(nuc)
        return nucs

    MC = xsCollections.MacroscopicCrossSectionCreator
    basic_xs_nusigf_always_neutron = resourced(MC._convertBasicXS, "libType=libType,\n            multConstant=NU,",
                                               "libType=\"micros\",\n            multConstant=NU,")
    scatter_from_block_densities = resourced(MC._convertScatterMatrices, "self.densities.get(nuclide.name, 0.0)",
                                             "self.block.getNumberDensity(nuclide.name)")
    cmgc_multiplier_from_lib = resourced(xsCollections.computeMacroscopicGroupConstants, "_getXsMultiplier(multLibNuclide,", "_getXsMultiplier(libNuclide,")

    def merge_props_gamma_before_neutron(self, other):
        properties.unlockImmutableProperties(other)
        try:
            self.neutronDoseConversionFactors = other.neutronDoseConversionFactors
            self.gammaDoseConversionFactors = other.gammaDoseConversionFactors
            self.gammaEnergyUpperBounds = other.gammaEnergyUpperBounds
            self._mergeNeutronEnergies(other)
        finally:
            properties.lockImmutableProperties(other)

    P = patched
    M = xsCollections.MacroscopicCrossSectionCreator
    mutants = [
        ("_mergeNuclides lets the later library win silently", lambda: P(L, "_mergeNuclides", merge_nuclides_later_wins)),
        ("XSCollection.merge overwrites existing cross sections", lambda: P(xsCollections.XSCollection, "merge", xscollection_merge_overwrites)),
        ("_mergeAttributes keeps the first production datum silently", lambda: P(xsNuclides, "_mergeAttributes", merge_attributes_keep_first)),
        ("_mergeNeutronEnergies does not compare group structures", lambda: P(xsLibraries._XSLibrary, "_mergeNeutronEnergies", merge_energies_no_check)),
        ("_Metadata.merge does not refuse differing file metadata", lambda: P(nuclearFileMetadata._Metadata, "merge", metadata_merge_no_compare)),
        ("FileMetadata merge drops the other library's file names", lambda: P(nuclearFileMetadata.NuclideXSMetadata, "_mergeLibrarySpecificData", file_md_merge_drops_names)),
        ("merge does not empty the merged-in library", lambda: P(L, "merge", merge_keeps_other)),
        ("_mergeProperties forgets the gamma group structure", lambda: P(L, "_mergeProperties", merge_props_skip_gamma)),
        ("XSNuclide.merge perturbs merged gamma data by 1e-7", lambda: P(xsNuclides.XSNuclide, "merge", nuclide_merge_scales)),
        ("neutron group structure is overwritable (write-once property broken)",
         lambda: P(xsLibraries._XSLibrary, "neutronEnergyUpperBounds", overwritable("neutronEnergyUpperBounds"))),
        ("file-wide chi dropped without switching nuclides to their own chi",
         lambda: P(nuclearFileMetadata.NuclideXSMetadata, "_getSkippedKeys", skipped_keys_without_chiflags)),
        ("[validator] a recorded history with one event removed", lambda: P(_THIS, "record_trace", record_drops_event)),
        ("[validator] a recorded history with one field corrupted", lambda: P(_THIS, "record_trace", record_corrupts_field)),
        ("macro sum double counts one reaction", lambda: P(xsCollections, "computeMacroscopicGroupConstants", cmgc_unsorted_last_twice)),
        ("nuclides missing from the library are silently skipped", lambda: P(xsCollections, "computeMacroscopicGroupConstants", cmgc_missing_silently_skipped)),
        ("absorption omits n2n", lambda: P(xsCollections.XSCollection, "getAbsorptionXS", absorption_skips_n2n)),
        ("removal keeps the in-group scatter", lambda: P(M, "_computeRemovalXS", removal_keeps_diagonal)),
        ("total scatter counts n2n once", lambda: P(xsCollections.XSCollection, "getTotalScatterMatrix", total_scatter_n2n_once)),
        ("macro scatter matrices ignore the xs-id suffix", lambda: P(M, "_convertScatterMatrices", scatter_ignores_suffix)),
        ("directory merge also skips an id the library already has ANY data for", lambda: P(xsLibraries, "mergeXSLibrariesInWorkingDirectory", dir_skips_known_ids)),
        ("directory merge gives GAMISO libraries no dummy nuclides", lambda: P(xsLibraries, "mergeXSLibrariesInWorkingDirectory", dir_gamma_without_dummies)),
        ("directory merge never records the reference dummy nuclides", lambda: P(xsLibraries, "mergeXSLibrariesInWorkingDirectory", dir_reference_never_set)),
        ("directory merge reads the ISOxx files in reverse order", lambda: P(xsLibraries, "mergeXSLibrariesInWorkingDirectory", dir_merges_unsorted_last_first)),
        ("getNuclides(id) looks for the id anywhere in the label", lambda: P(L, "getNuclides", get_nuclides_suffix_anywhere)),
        ("gamma macros: nuSigF always from the neutron collection", lambda: P(M, "_convertBasicXS", basic_xs_nusigf_always_neutron)),
        ("macro scatter matrices ignore nucNames / minimumNuclideDensity", lambda: P(M, "_convertScatterMatrices", scatter_from_block_densities)),
        ("multiplier read from lib although a multLib is given", lambda: P(xsCollections, "computeMacroscopicGroupConstants", cmgc_multiplier_from_lib)),
        ("_mergeProperties assigns the gamma properties before the neutron check", lambda: P(L, "_mergeProperties", merge_props_gamma_before_neutron)),
        ("removal counts out-scatter below the diagonal only (needs up-scatter)", lambda: P(M, "_computeRemovalXS", removal_below_diagonal_only)),
        ("a multiplier of exactly 0 (ecapt / efiss) is treated as absent = 1", lambda: P(xsCollections, "_getXsMultiplier", xs_multiplier_zero_is_absent)),
        ("multiplier (nu) taken from the first group", lambda: P(xsCollections, "_getXsMultiplier", xs_multiplier_first_group)),
    ]
    only = os.environ.get("VERIF_MUTANTS")          # substring filter, for working on one mutant
    if only:
        mutants = [m for m in mutants if only in m[0]]
    try:
        return run_mutants(mutants, detect)
    finally:
        _SELFTEST = False
