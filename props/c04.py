"""C04 -- a reactor saved to the database loads back observationally equal.  (work in progress: projection first)"""
import hashlib
import json
import math
import os
import random

from harness import common, tlc, tracecheck
from harness.armi_env import armi_ready

MODDIR = os.path.join(common.SPEC, "db")

# ------------------------------------------------------------------------------------------------------------
# number / value encoding (TLC has no reals, 32-bit integers): an encoding, never a rule of the property
# ------------------------------------------------------------------------------------------------------------
SIG = 12  # significant digits kept when a real enters a digest (rtol 1e-12: values recomputed by the same code)


def num(x):
    """integral reals -> int (1.0 == 1 as numbers), other reals -> repr string; |ints| >= 2^31 -> string."""
    if x is None:
        return "None"
    if isinstance(x, (bool,)):
        return "True" if x else "False"
    try:
        f = float(x)
    except Exception:
        return str(x)
    if math.isnan(f):
        return "nan"
    if math.isinf(f):
        return "inf" if f > 0 else "-inf"
    if f.is_integer() and abs(f) < 2 ** 31:
        return int(f)
    return repr(f)


def canon(v, sig=SIG):
    """canonical JSON-able form of a parameter value: python/numpy scalar types are not distinguished (documented C05
    normal form: sequences come back as sequences, numpy scalars as numbers), reals rounded to `sig` digits."""
    import numpy as np

    if v is None:
        return None
    if isinstance(v, (bool, np.bool_)):
        return bool(v)
    if isinstance(v, (int, np.integer)):
        return float(v) if abs(int(v)) < 2 ** 52 else str(int(v))
    if isinstance(v, (float, np.floating)):
        f = float(v)
        if math.isnan(f):
            return "nan"
        if math.isinf(f):
            return "inf" if f > 0 else "-inf"
        if f == 0:
            return 0.0
        return float("%.*e" % (sig - 1, f))
    if isinstance(v, (str, bytes)):
        return v if isinstance(v, str) else v.decode()
    if isinstance(v, np.ndarray):
        return canon(v.tolist(), sig)
    if isinstance(v, (list, tuple)):
        return [canon(x, sig) for x in v]
    if isinstance(v, dict):
        return {str(k): canon(x, sig) for k, x in sorted(v.items(), key=lambda kv: str(kv[0]))}
    if isinstance(v, (set, frozenset)):
        return sorted(str(x) for x in v)
    return "<%s>%s" % (type(v).__name__, str(v))


def digest(obj):
    s = json.dumps(obj, sort_keys=True, separators=(",", ":"), default=str)
    return hashlib.sha1(s.encode()).hexdigest()[:12]


# ------------------------------------------------------------------------------------------------------------
# projection of a real reactor onto the abstract state of spec/db/Layout.tla
# ------------------------------------------------------------------------------------------------------------
COMPOSITION_PARAMS = ("numberDensities", "nuclides", "detailedNDens")


def walk(root):
    """in-memory depth-first order (children as listed by their parent)"""
    out = [root]
    for c in root:
        out += walk(c)
    return out


def _triple(ind):
    return [num(ind[0]), num(ind[1]), num(ind[2])]


def grid_key(g):
    """faithful encoding of (type name, reduce()) up to python's tuple equality (the writer's deduplication key)"""
    if g is None:
        return "", None
    red = g.reduce()

    def c(v):
        import numpy as np

        if v is None or isinstance(v, str):
            return v
        if isinstance(v, (list, tuple, np.ndarray)):
            return [c(x) for x in v]
        return repr(float(v))

    full = [type(g).__name__] + [c(x) for x in red]
    return "%s#%s" % (type(g).__name__, digest(full)), full


def param_maps(o):
    """persistent (saveToDB) parameters of one object, split into dimensions / composition / the rest"""
    dims, comp, rest = {}, {}, {}
    dimnames = set(getattr(o, "DIMENSION_NAMES", ()))
    from armi.reactor import parameters

    for pd in o.p.paramDefs:
        if not pd.saveToDB:
            continue
        v = o.p.get(pd.name, pd.default)
        if v is parameters.NoDefault:
            v = "<unset>"
        if pd.name in dimnames:
            if isinstance(v, tuple) and len(v) == 2 and hasattr(v[0], "getDimension"):
                dims[pd.name] = {"link": "%s.%s" % (v[0].name, v[1]), "value": canon(v[0].getDimension(v[1]))}
            else:
                dims[pd.name] = canon(v)
        elif pd.name in COMPOSITION_PARAMS:
            comp[pd.name] = canon(v)
        elif pd.name == "serialNum":
            continue
        elif pd.serializer is not None:
            rest[pd.name] = canon(str(v))
        else:
            rest[pd.name] = canon(v)
    return dims, comp, rest


def observables(o):
    """public model queries the statement lists, in three groups: coordinates (oc), resolved dimensions (od), and
    material / temperatures / area / volume / mass / number densities (om).  A query that raises is recorded as such
    (the same query must then raise on the copy)."""
    from armi.reactor.components import Component

    oc, od, om = {}, {}, {}

    def q(out, name, fn):
        try:
            out[name] = canon(fn())
        except Exception as ex:  # noqa: BLE001
            out[name] = "raises:" + type(ex).__name__

    sl = o.spatialLocator
    if sl is not None:
        q(oc, "localCoords", lambda: sl.getLocalCoordinates())
        q(oc, "globalCoords", lambda: sl.getGlobalCoordinates())
    if isinstance(o, Component):
        for d in sorted(o.DIMENSION_NAMES):
            q(od, "dim:" + d, lambda d=d: o.getDimension(d))
            q(od, "cold:" + d, lambda d=d: o.getDimension(d, cold=True))
        q(om, "T", lambda: o.temperatureInC)
        q(om, "Tin", lambda: o.inputTemperatureInC)
        q(om, "material", lambda: type(o.material).__name__)
        q(om, "area", o.getArea)
        q(om, "volume", o.getVolume)
        q(om, "mass", o.getMass)
        q(om, "nd", lambda: dict(o.getNumberDensities()))
    elif o.parent is not None and not hasattr(o, "blueprints"):
        if hasattr(o, "getHeight"):
            q(om, "height", o.getHeight)
        if hasattr(o, "getMass") and len(o):
            q(om, "mass", o.getMass)
            q(om, "volume", o.getVolume)
            q(om, "nd", lambda: dict(o.getNumberDensities()))
        if hasattr(o, "getLocation"):
            q(oc, "location", o.getLocation)
        if hasattr(o, "getType"):
            q(om, "type", o.getType)
            q(om, "flags", lambda: str(o.p.flags))
    if o.spatialGrid is not None:
        g = o.spatialGrid
        q(oc, "cellCoords", lambda: [list(g.getCoordinates(c.spatialLocator.indices)) for c in o
                                     if type(c.spatialLocator).__name__ == "IndexLocation"][:12])
        q(oc, "symmetry", lambda: str(g.symmetry))
        q(oc, "geomType", lambda: str(g.geomType))
    return oc, od, om


def _public(g, attr):
    """the public (normalising) property of a grid; an unset geometry type raises ValueError on both sides alike"""
    try:
        return str(getattr(g, attr))
    except Exception as ex:  # noqa: BLE001
        return "raises:" + type(ex).__name__


def project(root, detail=False):
    """abstract state (spec/db/Layout.tla): nodes in in-memory depth-first order, 1-based ids, root = 1.
    Returns (nodes, details, notes): details = the un-digested values (diagnostics / naming of differences only)."""
    from armi.reactor import grids
    from armi.reactor.components import Component

    objs = walk(root)
    idx = {id(o): i + 1 for i, o in enumerate(objs)}
    notes = []
    # component sort keys enter TLC as dense ranks (TLC cannot order reals); the rule (lexicographic, stable) is TLC's
    keys = {}
    for o in objs:
        if isinstance(o, Component):
            try:
                keys[id(o)] = (float(o.getBoundingCircleOuterDiameter(cold=True)), float(o.getCircleInnerDiameter(cold=True)))
            except Exception:  # noqa: BLE001
                keys[id(o)] = None
    r1 = {v: i + 1 for i, v in enumerate(sorted({k[0] for k in keys.values() if k}))}
    r2 = {v: i + 1 for i, v in enumerate(sorted({k[1] for k in keys.values() if k}))}

    def ints(ind, where):
        out = []
        for x in ind:
            f = float(x)
            if not f.is_integer():
                notes.append("non-integral grid index %r at %s" % (f, where))
            out.append(int(f))
        return out

    nodes, details = [], []
    for o in objs:
        sl = o.spatialLocator
        if sl is None:
            lk, loc = "N", []
        elif type(sl) is grids.MultiIndexLocation:
            lk, loc = "M", [ints(s.indices, o.name) for s in sl]
        elif type(sl) is grids.CoordinateLocation:
            lk, loc = "C", [[repr(float(x)) for x in sl.indices]]
        elif type(sl) is grids.IndexLocation:
            lk, loc = "I", [ints(sl.indices, o.name)]
        else:
            lk, loc = "N", []
            notes.append("unknown locator class %s at %s" % (type(sl).__name__, o.name))
        g = getattr(sl, "grid", None) if sl is not None else None
        lg = 0 if g is None else idx.get(id(g.armiObject), -1)
        if o.spatialGrid is None:
            grid, gfull = {"raw": "", "obs": "", "ax": False}, None
        else:
            raw, gfull = grid_key(o.spatialGrid)
            obsfull = list(gfull[:-2]) + [_public(o.spatialGrid, "geomType"), _public(o.spatialGrid, "symmetry")]
            grid = {"raw": raw, "obs": "%s#%s" % (gfull[0], digest(obsfull)), "ax": bool(o.spatialGrid.isAxialOnly)}
        iscomp = isinstance(o, Component)
        k = keys.get(id(o))
        dims, comp, rest = param_maps(o)
        oc, od, om = observables(o)
        n = {
            "ty": type(o).__name__, "nm": str(o.name), "sn": int(o.p.serialNum), "kids": [idx[id(c)] for c in o],
            "lk": lk, "loc": loc, "lg": lg, "grid": grid,
            "cmp": iscomp, "ck": [r1[k[0]], r2[k[1]]] if k else [0, 0],
            "mat": type(o.material).__name__ if iscomp else "",
            "tmp": [repr(float(o.inputTemperatureInC)), repr(float(o.temperatureInC))] if iscomp else [],
            "pd": digest(dims), "pn": digest(comp), "pp": digest(rest), "oc": digest(oc), "od": digest(od), "om": digest(om),
        }
        nodes.append(n)
        details.append({"pd": dims, "pn": comp, "pp": rest, "oc": oc, "od": od, "om": om, "grid": gfull})
    return nodes, details, notes


def project_file(group):
    """layout/* of one time-node group exactly as h5py shows it (reals as repr strings; see Layout.tla FileObs)."""
    lay = group["layout"]

    def dec(a):
        return [x.decode() if isinstance(x, bytes) else str(x) for x in a]

    def c(v):
        import numpy as np

        if v is None or isinstance(v, str):
            return v
        if isinstance(v, (list, tuple, np.ndarray)):
            return [c(x) for x in v]
        return repr(float(v))

    gg = lay["grids"]
    gtypes = dec(gg["type"][:])
    graw = []
    for i, ty in enumerate(gtypes):
        sub = gg[str(i)]
        bounds = [sub["bounds_%d" % k][:].tolist() if "bounds_%d" % k in sub else None for k in range(3)]
        full = [ty, c(sub["unitSteps"][:].tolist()), c(bounds), c(sub["unitStepLimits"][:].tolist()),
                c(sub["offset"][:].tolist()) if sub.attrs["offset"] else None,
                sub["geomType"].asstr()[()], sub["symmetry"].asstr()[()]]
        graw.append("%s#%s" % (ty, digest(full)))
    ints = lambda a: [int(x) for x in a]  # noqa: E731
    return {
        "type": dec(lay["type"][:]), "name": dec(lay["name"][:]), "serialNum": ints(lay["serialNum"][:]),
        "indexInData": ints(lay["indexInData"][:]), "numChildren": ints(lay["numChildren"][:]),
        "locationType": dec(lay["locationType"][:]),
        "location": [[repr(float(x)) for x in row] for row in lay["location"][:].tolist()],
        "gridIndex": [str(int(x)) for x in lay["gridIndex"][:]],
        "grids": graw,
        "material": dec(lay["material"][:]),
        "temperatures": [[repr(float(x)) for x in row] for row in lay["temperatures"][:].tolist()],
    }


# ------------------------------------------------------------------------------------------------------------
# real histories: reactors built by armi from generated blueprints, mutated through public calls, written, loaded
# ------------------------------------------------------------------------------------------------------------
# parameters the loader legitimately re-derives or that steer geometry/time (DESIGN C04 modelling notes); never assigned
# by the driver's AssignParam (they are still COMPARED)
NOT_ASSIGNED = {
    "serialNum", "assemNum", "type", "flags", "nuclides", "numberDensities", "detailedNDens", "volume", "area", "mult",
    "temperatureInC", "height", "heightBOL", "z", "zbottom", "ztop", "axMesh", "orientation", "xsType", "envGroup",
    "xsTypeNum", "envGroupNum", "kgHM", "kgFis", "puFrac", "maxAssemNum", "cycle", "timeNode", "molesHmBOL", "massHmBOL",
    "nHMAtBOL", "initialB10ComponentVol", "topIndex", "mergeWith", "customIsotopicsName", "theoreticalDensityFrac",
    "displacementX", "displacementY",
}
# parameters without a default that AssignParam may set on SOME objects of a class (fixed list: stable finding keys)
NODEFAULT_OK = ("zrFrac", "buRate")


def settle(r):
    """bring the live reactor to a self-consistent state before it is observed and written (DESIGN C04): lazy volumes
    computed, block mass parameters as processLoading would compute them"""
    from armi.reactor.components import Component

    for o in walk(r):
        if isinstance(o, Component):
            o.getVolume()
    if r.core is not None and len(r.core):
        r.core.setBlockMassParams()


class _cwd:
    def __init__(self, d):
        self.d = d

    def __enter__(self):
        self.old = os.getcwd()
        os.chdir(self.d)

    def __exit__(self, *a):
        os.chdir(self.old)


class History:
    """one real history; events are appended to self.ev in the trace format of DbState_trace.tla"""

    def __init__(self, hid, family, variant, rng, workdir):
        from harness import gen_reactor

        self.id, self.family, self.variant, self.rng = hid, family, variant, rng
        self.wd = os.path.join(workdir, hid)
        os.makedirs(self.wd, exist_ok=True)
        self.w = gen_reactor.build(self.wd, family, variant, extra_settings={"trackAssems": True})
        self.r = self.w.r
        self.ev, self.how = [], []
        self.dbs = {}       # file tag -> Database (open for writing)
        self.slots = {}     # slot -> (file tag, cycle, node)
        self.loaded = {}    # handle -> reactor
        self.details = {}   # ("live", event index) / ("load", h) / ... -> (nodes, details) for naming differences
        self.notes = []

    # -- mutations (each returns a short description or None if not applicable) ---------------------------------
    def mutate(self, n):
        kinds = ["AssignParam"] * 4 + ["SetComposition", "SetTemperature", "Swap", "Rotate", "Discharge", "AssignNoDefault"]
        if self.family == "hex_third":
            kinds.append("GrowToFull")
        for _ in range(n):
            k = self.rng.choice(kinds)
            d = getattr(self, "m_" + k)()
            if d:
                self.how.append(d)

    def _objs(self):
        return walk(self.r)

    def m_AssignParam(self):
        import numpy as np
        from armi.reactor import parameters

        rng = self.rng
        o = rng.choice(self._objs())
        dims = set(getattr(o, "DIMENSION_NAMES", ()))
        cands = []
        for pd in o.p.paramDefs:
            if not pd.saveToDB or pd.name in NOT_ASSIGNED or pd.name in dims or pd.serializer is not None:
                continue
            v = o.p.get(pd.name, pd.default)
            if v is parameters.NoDefault:
                continue
            # (a parameter whose value is None may expect an array / dict / string: only numbers are replaced by numbers)
            if isinstance(v, (int, float, np.integer, np.floating)) and not isinstance(v, (bool, np.bool_)):
                cands.append((pd.name, v))
            elif isinstance(v, np.ndarray) and v.dtype.kind == "f" and v.ndim == 1 and len(v):
                cands.append((pd.name, v))
        if not cands:
            return None
        name, v = rng.choice(sorted(cands, key=lambda c: c[0]))
        if isinstance(v, np.ndarray):
            new = np.array([round(rng.uniform(0.0, 9.0), 6) for _ in v])
        elif isinstance(v, (int, np.integer)):
            new = int(v) + rng.randrange(1, 5)
        else:
            new = round(rng.uniform(0.001, 900.0), 6)
        try:
            o.p[name] = new
        except Exception as ex:  # noqa: BLE001  a parameter that refuses the value is simply not mutated
            return "AssignParam %s.%s refused (%s)" % (type(o).__name__, name, type(ex).__name__)
        return "AssignParam %s.%s" % (type(o).__name__, name)

    def m_AssignNoDefault(self):
        from armi.reactor.components import Component

        comps = [o for o in self._objs() if isinstance(o, Component)]
        o = self.rng.choice(comps)
        name = self.rng.choice(NODEFAULT_OK)
        o.p[name] = round(self.rng.uniform(0.01, 0.9), 6)
        return "AssignParam %s.%s (no default)" % (type(o).__name__, name)

    def m_SetComposition(self):
        from armi.reactor.components import Component

        comps = [o for o in self._objs() if isinstance(o, Component) and len(o.getNumberDensities())]
        if not comps:
            return None
        c = self.rng.choice(comps)
        nd = c.getNumberDensities()
        nuc = self.rng.choice(sorted(nd))
        c.setNumberDensity(nuc, nd[nuc] * self.rng.choice((0.5, 0.9, 1.25)))
        return "setNumberDensity %s %s" % (c.name, nuc)

    def m_SetTemperature(self):
        from armi.reactor.components import Component

        comps = [o for o in self._objs() if isinstance(o, Component) and type(o.material).__name__ in ("HT9", "UZr")]
        if not comps:
            return None
        c = self.rng.choice(comps)
        c.setTemperature(round(self.rng.uniform(300.0, 650.0), 3))
        return "setTemperature %s" % c.name

    def m_Swap(self):
        from armi.physics.fuelCycle.fuelHandlers import FuelHandler
        from harness import gen_core

        a = list(self.r.core)
        if len(a) < 2:
            return None
        a1, a2 = self.rng.sample(a, 2)
        FuelHandler(gen_core.OperatorStub(self.r, self.w.cs)).swapAssemblies(a1, a2)
        return "swapAssemblies"

    def m_Rotate(self):
        import math

        a = [x for x in self.r.core if type(x).__name__ == "HexAssembly"]
        if not a:
            return None
        self.rng.choice(a).rotate(math.radians(60 * self.rng.randrange(1, 6)))
        return "rotate"

    def m_Discharge(self):
        a = list(self.r.core)
        if len(a) < 3:
            return None
        self.r.core.removeAssembly(self.rng.choice(a[1:]))
        return "removeAssembly(discharge)"

    def m_GrowToFull(self):
        from armi.reactor.converters import geometryConverters

        if "third" not in str(self.r.core.symmetry):
            return None
        geometryConverters.ThirdCoreHexToFullCoreChanger(self.w.cs).convert(self.r)
        return "growToFullCore"

    # -- observed calls ---------------------------------------------------------------------------------------
    def _proj(self, r, tag):
        nodes, det, notes = project(r)
        self.details[tag] = (nodes, det)
        for n in notes:
            self.notes.append("%s: %s" % (tag, n))
        return nodes

    def state(self):
        settle(self.r)
        nodes = self._proj(self.r, "live@%d" % (len(self.ev) + 1))
        self.ev.append({"a": {"n": "State", "how": self.how[-12:]}, "post": {"live": nodes}})
        self.how = []
        return nodes

    def _db(self, tag):
        from armi.bookkeeping.db.database import Database

        if tag not in self.dbs:
            db = Database("%s-%s.h5" % (self.id, tag), "w")
            with _cwd(self.wd):
                db.open()
            self.dbs[tag] = db
        return self.dbs[tag]

    def _write(self, r, slot, tag, cycle, node, call, extra):
        import h5py  # noqa: F401
        from armi.bookkeeping.db.database import getH5GroupName

        db = self._db(tag)
        oc, on = r.p.cycle, r.p.timeNode
        r.p.cycle, r.p.timeNode = cycle, node
        a = dict({"n": call, "s": slot}, **extra)
        try:
            db.writeToDB(r)
        except (ValueError, NotImplementedError) as ex:
            self.ev.append({"a": dict(a, n="WriteRefused"), "post": {"exception": type(ex).__name__}})
            return False
        finally:
            r.p.cycle, r.p.timeNode = oc, on
        db.h5db.flush()
        self.slots[slot] = (tag, cycle, node)
        self.ev.append({"a": a, "post": {"file": project_file(db.h5db[getH5GroupName(cycle, node)])}})
        return True

    def write(self, slot):
        before = self.details.get("live@%d" % len(self.ev), (None,))[0]
        ok = self._write(self.r, slot, "a", slot - 1, 0, "Write", {})
        # frame condition "a write leaves the reactor as it was": equality of two projections of the same object
        after, _, _ = project(self.r)
        if before is not None and after != before:
            self.notes.append("write-changed-original")
        return ok

    def resave(self, h, slot):
        return self._write(self.loaded[h], slot, "b", slot - 1, 0, "Resave", {"h": h})

    def load(self, slot, h):
        from armi.bookkeeping.db.database import Database
        from harness import gen_reactor

        tag, cycle, node = self.slots[slot]
        self.close_db(tag)
        db = Database(self.dbs[tag]._fullPath, "r")
        db.open()
        try:
            r2 = db.load(cycle, node, cs=self.w.cs, bp=gen_reactor.fresh_blueprints(self.w))
        finally:
            db.close()
        self.loaded[h] = r2
        nodes = self._proj(r2, "load@%d" % (len(self.ev) + 1))
        self.ev.append({"a": {"n": "Load", "s": slot, "h": h}, "post": {"state": nodes}})

    def close_db(self, tag):
        """finish a database file (armi moves it from its fast path to the given path on close)"""
        db = self.dbs.get(tag)
        if db is not None and db.isOpen():
            with _cwd(self.wd):
                db.close(True)

    def close(self):
        import shutil

        for tag in self.dbs:
            try:
                self.close_db(tag)
            except Exception:  # noqa: BLE001
                pass
        shutil.rmtree(self.wd, ignore_errors=True)

    def trace(self):
        return {"id": self.id, "ev": self.ev}


def play(hid, family, variant, seed, workdir, nmut=6, two_snapshots=True):
    """the standard history:  State Write(1) [mutate State Write(2)] | Load(1,1) Load(1,2) [Load(2,3)] Resave(1,3) Load(3,4)"""
    rng = random.Random(seed)
    h = History(hid, family, variant, rng, workdir)
    try:
        h.mutate(rng.randrange(0, nmut + 1))
        h.state()
        ok1 = h.write(1)
        ok2 = False
        if two_snapshots:
            h.mutate(rng.randrange(1, nmut + 1))
            h.state()
            ok2 = h.write(2)
        if ok1:
            h.load(1, 1)
            h.load(1, 2)
        if ok2:
            h.load(2, 3)
        if ok1 and h.resave(1, 3):
            h.load(3, 4)
    finally:
        h.close()
    return h
