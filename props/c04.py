"""C04 -- a reactor saved to the database loads back observationally equal.  (work in progress: projection first)"""
import hashlib
import json
import math
import os
import random

from harness import common, tlc, tracecheck
from harness.armi_env import armi_ready

MODDIR = os.path.join(common.SPEC, "db")

# ------------------------------------------------------------------------------------------------------------
# number / value encoding (TLC has no reals, 32-bit integers): an encoding, never a rule of the property
# ------------------------------------------------------------------------------------------------------------
SIG = 12  # significant digits kept when a real enters a digest (rtol 1e-12: values recomputed by the same code)


def num(x):
    """integral reals -> int (1.0 == 1 as numbers), other reals -> repr string; |ints| >= 2^31 -> string."""
    if x is None:
        return "None"
    if isinstance(x, (bool,)):
        return "True" if x else "False"
    try:
        f = float(x)
    except Exception:
        return str(x)
    if math.isnan(f):
        return "nan"
    if math.isinf(f):
        return "inf" if f > 0 else "-inf"
    if f.is_integer() and abs(f) < 2 ** 31:
        return int(f)
    return repr(f)


def canon(v, sig=SIG):
    """canonical JSON-able form of a parameter value: python/numpy scalar types are not distinguished (documented C05
    normal form: sequences come back as sequences, numpy scalars as numbers), reals rounded to `sig` digits."""
    import numpy as np

    if v is None:
        return None
    if isinstance(v, (bool, np.bool_)):
        return bool(v)
    if isinstance(v, (int, np.integer)):
        return float(v) if abs(int(v)) < 2 ** 52 else str(int(v))
    if isinstance(v, (float, np.floating)):
        f = float(v)
        if math.isnan(f):
            return "nan"
        if math.isinf(f):
            return "inf" if f > 0 else "-inf"
        if f == 0:
            return 0.0
        return float("%.*e" % (sig - 1, f))
    if isinstance(v, (str, bytes)):
        return v if isinstance(v, str) else v.decode()
    if isinstance(v, np.ndarray):
        return canon(v.tolist(), sig)
    if isinstance(v, (list, tuple)):
        return [canon(x, sig) for x in v]
    if isinstance(v, dict):
        return {str(k): canon(x, sig) for k, x in sorted(v.items(), key=lambda kv: str(kv[0]))}
    if isinstance(v, (set, frozenset)):
        return sorted(str(x) for x in v)
    return "<%s>%s" % (type(v).__name__, str(v))


def digest(obj):
    s = json.dumps(obj, sort_keys=True, separators=(",", ":"), default=str)
    return hashlib.sha1(s.encode()).hexdigest()[:12]


# ------------------------------------------------------------------------------------------------------------
# projection of a real reactor onto the abstract state of spec/db/Layout.tla
# ------------------------------------------------------------------------------------------------------------
COMPOSITION_PARAMS = ("numberDensities", "nuclides", "detailedNDens")


def walk(root):
    """in-memory depth-first order (children as listed by their parent)"""
    out = [root]
    for c in root:
        out += walk(c)
    return out


def _triple(ind):
    return [num(ind[0]), num(ind[1]), num(ind[2])]


def grid_key(g):
    """faithful encoding of (type name, reduce()) up to python's tuple equality (the writer's deduplication key)"""
    if g is None:
        return "", None
    red = g.reduce()

    def c(v):
        import numpy as np

        if v is None or isinstance(v, str):
            return v
        if isinstance(v, (list, tuple, np.ndarray)):
            return [c(x) for x in v]
        return repr(float(v))

    full = [type(g).__name__] + [c(x) for x in red]
    return "%s#%s" % (type(g).__name__, digest(full)), full


def param_maps(o):
    """persistent (saveToDB) parameters of one object, split into dimensions / composition / the rest"""
    dims, comp, rest = {}, {}, {}
    dimnames = set(getattr(o, "DIMENSION_NAMES", ()))
    from armi.reactor import parameters

    for pd in o.p.paramDefs:
        if not pd.saveToDB:
            continue
        v = o.p.get(pd.name, pd.default)
        if v is parameters.NoDefault:
            v = "<unset>"
        if pd.name in dimnames:
            if isinstance(v, tuple) and len(v) == 2 and hasattr(v[0], "getDimension"):
                dims[pd.name] = {"link": "%s.%s" % (v[0].name, v[1]), "value": canon(v[0].getDimension(v[1]))}
            else:
                dims[pd.name] = canon(v)
        elif pd.name in COMPOSITION_PARAMS:
            comp[pd.name] = canon(v)
        elif pd.name == "serialNum":
            continue
        elif pd.serializer is not None:
            rest[pd.name] = canon(str(v))
        else:
            rest[pd.name] = canon(v)
    return dims, comp, rest


def observables(o):
    """public model queries the statement lists: materials, temperatures, dimensions, number densities, volumes, masses,
    coordinates.  A query that raises is recorded as such (the same query must then raise on the copy)."""
    from armi.reactor.components import Component

    out = {}

    def q(name, fn):
        try:
            out[name] = canon(fn())
        except Exception as ex:  # noqa: BLE001
            out[name] = "raises:" + type(ex).__name__

    sl = o.spatialLocator
    if sl is not None:
        q("localCoords", lambda: sl.getLocalCoordinates())
        q("globalCoords", lambda: sl.getGlobalCoordinates())
    if isinstance(o, Component):
        for d in sorted(o.DIMENSION_NAMES):
            q("dim:" + d, lambda d=d: o.getDimension(d))
            q("cold:" + d, lambda d=d: o.getDimension(d, cold=True))
        q("T", lambda: o.temperatureInC)
        q("Tin", lambda: o.inputTemperatureInC)
        q("material", lambda: type(o.material).__name__)
        q("matDensity", lambda: o.material.density(Tc=o.temperatureInC))
        q("area", o.getArea)
        q("volume", o.getVolume)
        q("mass", o.getMass)
        q("nd", lambda: dict(o.getNumberDensities()))
        q("mult", o.getDimension.__self__.getDimension if False else (lambda: o.getDimension("mult")))
    elif hasattr(o, "getVolume") and o.parent is not None and not hasattr(o, "blueprints"):
        if hasattr(o, "getHeight"):
            q("height", o.getHeight)
        if hasattr(o, "getMass") and len(o):
            q("mass", o.getMass)
            q("volume", o.getVolume)
            q("nd", lambda: dict(o.getNumberDensities()))
        if hasattr(o, "getLocation"):
            q("location", o.getLocation)
        if hasattr(o, "getType"):
            q("type", o.getType)
            q("flags", lambda: str(o.p.flags))
    if o.spatialGrid is not None:
        g = o.spatialGrid
        q("cellCoords", lambda: [[list(c.indices), list(g.getCoordinates(c.indices))] for c in o if hasattr(c.spatialLocator, "indices")
                                 and not isinstance(c.spatialLocator.indices, list)][:8])
        q("symmetry", lambda: str(g.symmetry))
        q("geomType", lambda: str(g.geomType))
    return out


def project(root, detail=False):
    """abstract state: nodes in in-memory depth-first order, 1-based indices, root = 1"""
    from armi.reactor import grids
    from armi.reactor.components import Component

    objs = walk(root)
    idx = {id(o): i + 1 for i, o in enumerate(objs)}
    # component sort keys enter TLC as dense ranks (TLC cannot order reals); the rule (lexicographic, stable) is TLC's
    keys = {}
    for o in objs:
        if isinstance(o, Component):
            try:
                keys[id(o)] = (float(o.getBoundingCircleOuterDiameter(cold=True)), float(o.getCircleInnerDiameter(cold=True)))
            except Exception:  # noqa: BLE001
                keys[id(o)] = None
    r1 = {v: i + 1 for i, v in enumerate(sorted({k[0] for k in keys.values() if k}))}
    r2 = {v: i + 1 for i, v in enumerate(sorted({k[1] for k in keys.values() if k}))}
    nodes, details = [], []
    for o in objs:
        sl = o.spatialLocator
        if sl is None:
            lk, loc = "N", []
        elif type(sl) is grids.MultiIndexLocation:
            lk, loc = "M", [_triple(s.indices) for s in sl]
        elif type(sl) is grids.CoordinateLocation:
            lk, loc = "C", [_triple(sl.indices)]
        elif type(sl) is grids.IndexLocation:
            lk, loc = "I", [_triple(sl.indices)]
        else:
            lk, loc = "?" + type(sl).__name__, []
        g = getattr(sl, "grid", None) if sl is not None else None
        lg = 0 if g is None else idx.get(id(g.armiObject), -1)
        gk, gfull = grid_key(o.spatialGrid)
        iscomp = isinstance(o, Component)
        k = keys.get(id(o))
        dims, comp, rest = param_maps(o)
        obs = observables(o)
        n = {
            "ty": type(o).__name__, "nm": str(o.name), "sn": int(o.p.serialNum), "kids": [idx[id(c)] for c in o],
            "lk": lk, "loc": loc, "lg": lg, "ax": bool(g is not None and g.isAxialOnly), "grid": gk,
            "cmp": iscomp, "ck": [r1[k[0]], r2[k[1]]] if k else [0, 0],
            "mat": type(o.material).__name__ if iscomp else "", "tmp": [num(o.inputTemperatureInC), num(o.temperatureInC)] if iscomp else [],
            "pd": digest(dims), "pn": digest(comp), "pp": digest(rest), "ov": digest(obs),
        }
        nodes.append(n)
        if detail:
            details.append({"pd": dims, "pn": comp, "pp": rest, "ov": obs, "grid": gfull})
    return (nodes, details) if detail else nodes
