"""C04 -- a reactor saved to the database loads back observationally equal.

spec/db/Layout.tla    the layout algebra (sorted depth-first flattening, location packing, grid deduplication, the recursive
                      consumer of numChildren, canonical order) and the clause-wise equality of the statement
spec/db/DbState.tla   histories: mutate / Write / WriteRefused / Load / Resave over snapshots and loaded reactors

run():  1. TLC: Layout_mc (all trees <= 4 nodes: 10 theorems) and DbState_mc (all histories <= 4/5 calls: 7 invariants, 3 step properties)
        2. spec -> code: every tree TLC emits (Layout_emit) is built from real Reactor/Composite/Circle objects, written with
           Database.writeToDB into an in-memory HDF5 file, layout/* compared with FileObs(Flatten(t)), loaded with
           Database.load and compared with LoadFile(Flatten(t)); unsortable trees must be refused
        3. code -> spec: reactors armi builds from generated blueprints (harness/gen_reactor.py) are mutated through public
           calls, written, loaded twice, re-saved and loaded again; every call's observation (layout/* read with h5py, the
           projection of the loaded reactor) goes to TLC (DbState_trace), which computes the required file and state from the
           projection of the original and judges every clause of the statement on every node.  One history in six goes on in a
           fresh process (python -m props.c04 --fresh): load + save there, then load the result here (class-level `assigned`
           flags of the parameter definitions decide what _writeParams stores: DbState.flags).
Expected values are always TLC's.  Python projects (project / project_file), encodes reals as strings and opaque values as
digests, and afterwards NAMES the parameter inside a digest TLC found different (name_verdict) so that keys are stable.
"""
import hashlib
import json
import math
import os
import random

from harness import common, tlc, tracecheck
from harness.armi_env import armi_ready

MODDIR = os.path.join(common.SPEC, "db")

# ------------------------------------------------------------------------------------------------------------
# number / value encoding (TLC has no reals, 32-bit integers): an encoding, never a rule of the property
# ------------------------------------------------------------------------------------------------------------
SIG = 12  # significant digits kept when a real enters a digest (rtol 1e-12: values recomputed by the same code)


def num(x):
    """integral reals -> int (1.0 == 1 as numbers), other reals -> repr string; |ints| >= 2^31 -> string."""
    if x is None:
        return "None"
    if isinstance(x, (bool,)):
        return "True" if x else "False"
    try:
        f = float(x)
    except Exception:
        return str(x)
    if math.isnan(f):
        return "nan"
    if math.isinf(f):
        return "inf" if f > 0 else "-inf"
    if f.is_integer() and abs(f) < 2 ** 31:
        return int(f)
    return repr(f)


def canon(v, sig=SIG):
    """canonical JSON-able form of a parameter value: python/numpy scalar types are not distinguished (documented C05
    normal form: sequences come back as sequences, numpy scalars as numbers), reals rounded to `sig` digits."""
    import numpy as np

    if v is None:
        return None
    if isinstance(v, (bool, np.bool_)):
        return bool(v)
    if isinstance(v, (int, np.integer)):
        return float(v) if abs(int(v)) < 2 ** 52 else str(int(v))
    if isinstance(v, (float, np.floating)):
        f = float(v)
        if math.isnan(f):
            return "nan"
        if math.isinf(f):
            return "inf" if f > 0 else "-inf"
        if f == 0:
            return 0.0
        return float("%.*e" % (sig - 1, f))
    if isinstance(v, (str, bytes)):
        return v if isinstance(v, str) else v.decode()
    if isinstance(v, np.ndarray):
        return canon(v.tolist(), sig)
    if isinstance(v, (list, tuple)):
        if len(v) == 0:
            return None      # C05 I2: an empty sequence among ragged entries comes back unset; [] and None are one observation
        return [canon(x, sig) for x in v]
    if isinstance(v, dict):
        return {str(k): canon(x, sig) for k, x in sorted(v.items(), key=lambda kv: str(kv[0]))}
    if isinstance(v, (set, frozenset)):
        return sorted(str(x) for x in v)
    return "<%s>%s" % (type(v).__name__, str(v))


def digest(obj):
    s = json.dumps(obj, sort_keys=True, separators=(",", ":"), default=str)
    return hashlib.sha1(s.encode()).hexdigest()[:12]


# ------------------------------------------------------------------------------------------------------------
# projection of a real reactor onto the abstract state of spec/db/Layout.tla
# ------------------------------------------------------------------------------------------------------------
COMPOSITION_PARAMS = ("numberDensities", "nuclides", "detailedNDens")
# serialNum is compared as the identity of the node; maxAssemNum is reset by Core.processLoading(dbLoad=True) to the
# largest assembly number present in the core (DESIGN C04 modelling note: legitimately re-derived)
NOT_COMPARED = ("serialNum", "maxAssemNum")


def walk(root):
    """in-memory depth-first order (children as listed by their parent)"""
    out = [root]
    for c in root:
        out += walk(c)
    return out


def _triple(ind):
    return [num(ind[0]), num(ind[1]), num(ind[2])]


def grid_key(g):
    """faithful encoding of (type name, reduce()) up to python's tuple equality (the writer's deduplication key)"""
    if g is None:
        return "", None
    red = g.reduce()

    def c(v):
        import numpy as np

        if v is None or isinstance(v, str):
            return v
        if isinstance(v, (list, tuple, np.ndarray)):
            return [c(x) for x in v]
        return repr(float(v))

    full = [type(g).__name__] + [c(x) for x in red]
    return "%s#%s" % (type(g).__name__, digest(full)), full


def flag_names(v):
    """a Flags value as the sorted list of its member names (str() lists them in the order the members were registered,
    which differs from process to process)"""
    txt = str(v)
    if "." in txt:
        txt = txt.split(".", 1)[1]
    return sorted(x for x in txt.split("|") if x)


def param_maps(o):
    """persistent (saveToDB) parameters of one object, split into dimensions / composition / the rest"""
    dims, comp, rest = {}, {}, {}
    dimnames = set(getattr(o, "DIMENSION_NAMES", ()))
    from armi.reactor import parameters

    for pd in o.p.paramDefs:
        if not pd.saveToDB:
            continue
        v = o.p.get(pd.name, pd.default)
        if v is parameters.NoDefault:
            v = None      # I2: None is the database's marker for "no value"; unset and None are the same observation
        if pd.name in dimnames:
            if isinstance(v, tuple) and len(v) == 2 and hasattr(v[0], "getDimension"):
                dims[pd.name] = {"link": "%s.%s" % (v[0].name, v[1]), "value": canon(v[0].getDimension(v[1]))}
            else:
                dims[pd.name] = canon(v)
        elif pd.name in COMPOSITION_PARAMS:
            comp[pd.name] = canon(v)
        elif pd.name in NOT_COMPARED:
            continue
        elif pd.serializer is not None:
            rest[pd.name] = flag_names(v)
        else:
            rest[pd.name] = canon(v)
    return dims, comp, rest


PROBES = ((0, 0, 0), (1, 0, 0), (0, 1, 0), (1, 1, 0), (0, 0, 1), (-1, 2, 0))


def observables(o):
    """public model queries the statement lists, in three groups: coordinates (oc), resolved dimensions (od), and
    material / temperatures / area / volume / mass / number densities (om).  A query that raises is recorded as such
    (the same query must then raise on the copy)."""
    from armi.reactor.components import Component

    oc, od, om = {}, {}, {}

    def q(out, name, fn):
        try:
            out[name] = canon(fn())
        except Exception as ex:  # noqa: BLE001
            out[name] = "raises:" + type(ex).__name__

    sl = o.spatialLocator
    if sl is not None:
        q(oc, "localCoords", lambda: sl.getLocalCoordinates())
        q(oc, "globalCoords", lambda: sl.getGlobalCoordinates())
    if isinstance(o, Component):
        for d in sorted(o.DIMENSION_NAMES):
            q(od, "dim:" + d, lambda d=d: o.getDimension(d))
            q(od, "cold:" + d, lambda d=d: o.getDimension(d, cold=True))
        q(om, "T", lambda: o.temperatureInC)
        q(om, "Tin", lambda: o.inputTemperatureInC)
        q(om, "material", lambda: type(o.material).__name__)
        # the material state Component.finalizeLoadingFromDB restores: material.adjustTD(p.theoreticalDensityFrac)
        q(om, "materialTD", lambda: o.material.getTD())
        q(om, "area", o.getArea)
        q(om, "volume", o.getVolume)
        q(om, "mass", o.getMass)
        q(om, "nd", lambda: dict(o.getNumberDensities()))
    elif o.parent is not None and not hasattr(o, "blueprints"):
        if hasattr(o, "getHeight"):
            q(om, "height", o.getHeight)
        if hasattr(o, "getMass") and len(o):
            q(om, "mass", o.getMass)
            q(om, "volume", o.getVolume)
            q(om, "nd", lambda: dict(o.getNumberDensities()))
        if hasattr(o, "getLocation"):
            q(oc, "location", o.getLocation)
        if hasattr(o, "getType"):
            q(om, "type", o.getType)
            q(om, "flags", lambda: flag_names(o.p.flags))
    if o.spatialGrid is not None:
        g = o.spatialGrid
        # "the coordinates of every index": a fixed probe set (an index outside a bounds-defined grid raises on both sides)
        for ijk in PROBES:
            q(oc, "cell%s" % (ijk,), lambda ijk=ijk: list(g.getCoordinates(ijk)))
        q(oc, "symmetry", lambda: str(g.symmetry))
        q(oc, "geomType", lambda: str(g.geomType))
    return oc, od, om


def _public(g, attr):
    """the public (normalising) property of a grid; an unset geometry type raises ValueError on both sides alike"""
    try:
        return str(getattr(g, attr))
    except Exception as ex:  # noqa: BLE001
        return "raises:" + type(ex).__name__


def project(root):
    """abstract state (spec/db/Layout.tla): nodes in in-memory depth-first order, 1-based ids, root = 1.
    Returns (nodes, details, notes): details = the un-digested values (diagnostics / naming of differences only)."""
    from armi.reactor import grids
    from armi.reactor.components import Component

    objs = walk(root)
    idx = {id(o): i + 1 for i, o in enumerate(objs)}
    notes = []
    # component sort keys enter TLC as dense ranks (TLC cannot order reals); the rule (lexicographic, stable) is TLC's
    keys = {}
    for o in objs:
        if isinstance(o, Component):
            try:
                keys[id(o)] = (float(o.getBoundingCircleOuterDiameter(cold=True)), float(o.getCircleInnerDiameter(cold=True)))
            except Exception:  # noqa: BLE001
                keys[id(o)] = None
    r1 = {v: i + 1 for i, v in enumerate(sorted({k[0] for k in keys.values() if k}))}
    r2 = {v: i + 1 for i, v in enumerate(sorted({k[1] for k in keys.values() if k}))}

    def ints(ind, where):
        out = []
        for x in ind:
            f = float(x)
            if not f.is_integer():
                notes.append("non-integral grid index %r at %s" % (f, where))
            out.append(int(f))
        return out

    nodes, details = [], []
    for o in objs:
        sl = o.spatialLocator
        if sl is None:
            lk, loc = "N", []
        elif type(sl) is grids.MultiIndexLocation:
            lk, loc = "M", [ints(s.indices, o.name) for s in sl]
        elif type(sl) is grids.CoordinateLocation:
            lk, loc = "C", [[repr(float(x)) for x in sl.indices]]
        elif type(sl) is grids.IndexLocation:
            lk, loc = "I", [ints(sl.indices, o.name)]
        else:
            lk, loc = "N", []
            notes.append("unknown locator class %s at %s" % (type(sl).__name__, o.name))
        g = getattr(sl, "grid", None) if sl is not None else None
        lg = 0 if g is None else idx.get(id(g.armiObject), -1)
        if o.spatialGrid is None:
            grid, gfull = {"raw": "", "obs": "", "ax": False}, None
        else:
            raw, gfull = grid_key(o.spatialGrid)
            obsfull = list(gfull[:-2]) + [_public(o.spatialGrid, "geomType"), _public(o.spatialGrid, "symmetry"),
                                          canon(list(o.spatialGrid.offset))]      # the public offset, not what reduce() says
            grid = {"raw": raw, "obs": "%s#%s" % (gfull[0], digest(obsfull)), "ax": bool(o.spatialGrid.isAxialOnly)}
        iscomp = isinstance(o, Component)
        k = keys.get(id(o))
        dims, comp, rest = param_maps(o)
        oc, od, om = observables(o)
        n = {
            "ty": type(o).__name__, "nm": str(o.name), "sn": int(o.p.serialNum), "kids": [idx[id(c)] for c in o],
            "lk": lk, "loc": loc, "lg": lg, "grid": grid,
            "cmp": iscomp, "ck": [r1[k[0]], r2[k[1]]] if k else [0, 0],
            "mat": type(o.material).__name__ if iscomp else "",
            "tmp": [repr(float(o.inputTemperatureInC)), repr(float(o.temperatureInC))] if iscomp else [],
            "pd": digest(dims), "pn": digest(comp), "pp": digest(rest), "oc": digest(oc), "od": digest(od), "om": digest(om),
        }
        nodes.append(n)
        details.append({"pd": dims, "pn": comp, "pp": rest, "oc": oc, "od": od, "om": om, "grid": gfull})
    return nodes, details, notes


def project_file(group):
    """layout/* of one time-node group exactly as h5py shows it (reals as repr strings; see Layout.tla FileObs)."""
    lay = group["layout"]

    def dec(a):
        return [x.decode() if isinstance(x, bytes) else str(x) for x in a]

    def c(v):
        import numpy as np

        if v is None or isinstance(v, str):
            return v
        if isinstance(v, (list, tuple, np.ndarray)):
            return [c(x) for x in v]
        return repr(float(v))

    gg = lay["grids"]
    gtypes = dec(gg["type"][:])
    graw = []
    for i, ty in enumerate(gtypes):
        sub = gg[str(i)]
        bounds = [sub["bounds_%d" % k][:].tolist() if "bounds_%d" % k in sub else None for k in range(3)]
        full = [ty, c(sub["unitSteps"][:].tolist()), c(bounds), c(sub["unitStepLimits"][:].tolist()),
                c(sub["offset"][:].tolist()) if sub.attrs["offset"] else None,
                sub["geomType"].asstr()[()], sub["symmetry"].asstr()[()]]
        graw.append("%s#%s" % (ty, digest(full)))
    ints = lambda a: [int(x) for x in a]  # noqa: E731
    return {
        "type": dec(lay["type"][:]), "name": dec(lay["name"][:]), "serialNum": ints(lay["serialNum"][:]),
        "indexInData": ints(lay["indexInData"][:]), "numChildren": ints(lay["numChildren"][:]),
        "locationType": dec(lay["locationType"][:]),
        "location": [[repr(float(x)) for x in row] for row in lay["location"][:].tolist()],
        "gridIndex": ["nan" if x != x else str(int(x)) for x in lay["gridIndex"][:].tolist()],
        "grids": graw,
        "material": dec(lay["material"][:]),
        "temperatures": [[repr(float(x)) for x in row] for row in lay["temperatures"][:].tolist()],
    }


# ------------------------------------------------------------------------------------------------------------
# real histories: reactors built by armi from generated blueprints, mutated through public calls, written, loaded
# ------------------------------------------------------------------------------------------------------------
# The numeric persistent parameters the driver never assigns directly, each with its reason (they are still COMPARED unless
# listed in NOT_COMPARED).  Every other numeric persistent parameter of every object is assigned a non-default value by
# History.sweep() in every second history, so nothing the load path writes on its own can hide behind a default.
NOT_ASSIGNED = {
    "serialNum": "identity of the object (nodes are matched by it)",
    "assemNum": "identity: the loader derives assembly and block names from it (Assembly.makeNameFromAssemNum)",
    "cycle": "selects the time-node group; set by the driver's advance()",
    "timeNode": "selects the time-node group; set by the driver's advance()",
    "height": "axial geometry: the assembly's grid and the block's z parameters are derived from it; changed only with the mesh",
    "z": "re-derived from the block heights by Assembly.calculateZCoords on load (DESIGN C04: legitimately re-derived)",
    "zbottom": "re-derived by Assembly.calculateZCoords on load",
    "ztop": "re-derived by Assembly.calculateZCoords on load",
    "jumpRing": "copied from the settings by Core.setOptionsFromCs on load (same settings => same value)",
    "maxAssemNum": "reset by Core.processLoading to the largest assembly number in the core (DESIGN C04); not compared",
    "theoreticalDensityFrac": "records material.getTD(): changed together with material.adjustTD by the SetTD mutation",
    "kgHM": "recomputed from the composition by Core.setBlockMassParams on load and by the driver's settle() (DESIGN C04)",
    "kgFis": "recomputed by Core.setBlockMassParams (DESIGN C04)",
    "puFrac": "recomputed by Core.setBlockMassParams (DESIGN C04)",
}
# parameters without a default that AssignParam may set on SOME objects of a class (fixed list: stable finding keys)
NODEFAULT_OK = ("zrFrac", "buRate")


def settle(r):
    """bring the live reactor to a self-consistent state before it is observed and written (DESIGN C04): lazy volumes
    computed, block mass parameters as processLoading would compute them"""
    from armi.reactor.components import Component

    # derived values cached on the live objects (Block.getArea keeps the symmetry factor of the place the block had when it
    # was first asked: a central Cartesian assembly moved to the pool still reports 1/4 of its area) are not reactor state
    r.clearCache()
    for o in walk(r):
        if isinstance(o, Component):
            o.getVolume()
    if r.core is not None and len(r.core):
        r.core.setBlockMassParams()


CUSTOM_FLAGS = ("VERIFA", "VERIFB")


def register_custom_flags(reverse=False):
    """two plugin-style flags (what App.registerPluginFlags does with a plugin's defineFlags()).  The checker's process
    registers them as VERIFA, VERIFB; the fresh process in the opposite order: same set of flags, other bit positions, so
    FlagSerializer has to convert the stored bit fields."""
    armi_ready()
    from armi.reactor.flags import Flags
    from armi.utils.flags import auto

    for name in (reversed(CUSTOM_FLAGS) if reverse else CUSTOM_FLAGS):
        if name not in Flags.fields():
            Flags.extend({name: auto()})


class _cwd:
    def __init__(self, d):
        self.d = d

    def __enter__(self):
        self.old = os.getcwd()
        os.chdir(self.d)

    def __exit__(self, *a):
        os.chdir(self.old)


class History:
    """one real history; events are appended to self.ev in the trace format of DbState_trace.tla"""

    def __init__(self, hid, family, variant, rng, workdir):
        from harness import gen_reactor

        self.id, self.family, self.variant, self.rng = hid, family, variant, rng
        self.wd = os.path.join(workdir, hid)
        os.makedirs(self.wd, exist_ok=True)
        register_custom_flags()
        self.w = gen_reactor.build(self.wd, family, variant, extra_settings={"trackAssems": True})
        self.r = self.w.r
        self.ev, self.how = [], []
        self.dbs = {}       # file tag -> Database (open for writing)
        self.paths = {}     # file tag -> path of the finished file
        self.labels = {}    # slot -> state point name (None = the regular snapshot of the time node)
        self.fresh_job = None
        self.slots = {}     # slot -> (file tag, cycle, node)
        self.loaded = {}    # handle -> reactor
        self.loaded_at = {}  # handle -> index of its Load event
        self.slot_src = {}  # slot -> tag of the projection that was written
        self.dead = False   # a call raised: the history ends there
        self.details = {}   # ("live", event index) / ("load", h) / ... -> (nodes, details) for naming differences
        self.notes = []

    # -- mutations (each returns a short description or None if not applicable) ---------------------------------
    def mutate(self, n):
        kinds = ["AssignParam"] * 3 + ["AssignShaped"] * 3 + ["SetComposition", "SetTemperature", "Swap", "Rotate", "Discharge",
                                                               "AssignNoDefault", "SetGridOffset", "SetTD", "AssignFlags",
                                                               "AddEmptyStructure"]
        if self.family == "hex_third":
            kinds.append("GrowToFull")
        for _ in range(n):
            k = self.rng.choice(kinds)
            try:
                d = getattr(self, "m_" + k)()
            except Exception as ex:  # noqa: BLE001  what a mutation does (or refuses) is not C04's subject: any state is a state
                d = "%s raised %s" % (k, type(ex).__name__)
            if d:
                self.how.append(d)

    def _objs(self):
        return walk(self.r)

    def m_AssignParam(self):
        import numpy as np
        from armi.reactor import parameters

        rng = self.rng
        o = rng.choice(self._objs())
        dims = set(getattr(o, "DIMENSION_NAMES", ()))
        cands = []
        for pd in o.p.paramDefs:
            if not pd.saveToDB or pd.name in NOT_ASSIGNED or pd.name in dims or pd.serializer is not None:
                continue
            v = o.p.get(pd.name, pd.default)
            if v is parameters.NoDefault:
                continue
            # (a parameter whose value is None may expect an array / dict / string: only numbers are replaced by numbers)
            if isinstance(v, (int, float, np.integer, np.floating)) and not isinstance(v, (bool, np.bool_)):
                cands.append((pd.name, v))
            elif isinstance(v, np.ndarray) and v.dtype.kind == "f" and v.ndim == 1 and len(v):
                cands.append((pd.name, v))
        if not cands:
            return None
        name, v = rng.choice(sorted(cands, key=lambda c: c[0]))
        if isinstance(v, np.ndarray):
            new = np.array([round(rng.uniform(0.0, 9.0), 6) for _ in v])
        elif isinstance(v, (int, np.integer)):
            new = int(v) + rng.randrange(1, 5)
        else:
            new = round(rng.uniform(0.001, 900.0), 6)
        try:
            o.p[name] = new
        except Exception as ex:  # noqa: BLE001  a parameter that refuses the value is simply not mutated
            return "AssignParam %s.%s refused (%s)" % (type(o).__name__, name, type(ex).__name__)
        return "AssignParam %s.%s" % (type(o).__name__, name)

    # parameters of every storage class the database has (database.py _writeParams / packSpecialData / JaggedArray):
    # rectangular n-d arrays on all objects, n-d arrays of DIFFERENT shapes, arrays on some objects and nothing on the others,
    # 1-d arrays of different lengths, lists, strings, dictionaries (on every object of the class: a column that mixes
    # dictionaries with other values is refused by design, C05 dict:mixed), None in a numeric column.  Only value shapes
    # whose round trip is exact in the C05 normal form are used (no scalars / nested ragged lists among ragged entries).
    def m_AssignShaped(self):
        import numpy as np
        from armi.reactor import assemblies, blocks
        from armi.reactor.components import Component

        rng = self.rng
        objs = self._objs()
        B = [o for o in objs if isinstance(o, blocks.Block)]
        A = [o for o in objs if isinstance(o, assemblies.Assembly)]
        C = [o for o in objs if isinstance(o, Component)]

        def some(xs, lo=2):
            if len(xs) <= lo:
                return list(xs)
            return rng.sample(xs, rng.randrange(lo, max(lo + 1, len(xs) // 2 + 1)))

        def one_class(xs):
            k = rng.choice(sorted({type(x).__name__ for x in xs}))
            return [x for x in xs if type(x).__name__ == k]

        base = round(rng.uniform(1.0, 50.0), 3)
        kind = rng.choice(("nd-ragged", "nd-rect", "1d-some", "1d-ragged", "str-assembly", "str-component", "dict-all", "none-in-numbers",
                           "1d-component", "lists-core", "nd-ragged-component", "list-ragged"))
        if kind == "nd-ragged":        # pin x group fluxes, blocks with different pin counts, the other blocks have none
            for i, b in enumerate(some(B)):
                b.p.pinMgFluxes = base * (i + 1) + np.arange((1 + i % 4) * 3, dtype=float).reshape((1 + i % 4, 3))
        elif kind == "nd-rect":
            for i, b in enumerate(B):
                b.p.pinMgFluxes = base * (i + 1) + np.arange(6, dtype=float).reshape((2, 3))
        elif kind == "1d-some":
            for i, b in enumerate(some(B)):
                b.p.mgFlux = np.array([base * i, 2.0, 3.25])
        elif kind == "1d-ragged":
            for i, b in enumerate(some(B)):
                b.p.linPowByPin = np.arange(2 + i % 3, dtype=float) + base * i
        elif kind == "str-assembly":
            for i, a in enumerate(some(A, 1)):
                a.p.notes = "note %d %s" % (i, base)
        elif kind == "str-component":
            for i, c in enumerate(some(C)):
                c.p.customIsotopicsName = "iso%d" % (i % 2)
        elif kind == "dict-all":
            for i, b in enumerate(one_class(B)):
                b.p.reactionRates = {"nG": base + i, "nF": 2.5, "n2n": 0.0}
        elif kind == "none-in-numbers":
            name = rng.choice(("flux", "power", "percentBu"))
            for b in some(B):
                if name in b.p.paramDefs.names:
                    b.p[name] = None
            kind += ":" + name
        elif kind == "1d-component":
            for i, c in enumerate(some(C)):
                c.p.detailedNDens = np.array([1e-3 * (i + 1) * base, 2e-3, 0.0])
        elif kind == "lists-core":
            if self.r.core is None:
                return None
            self.r.core.p.eigenvalues = [round(1.0 + base / 1000.0, 6), 0.99]
            self.r.core.p.betaComponents = [0.001, 0.002, base / 1e4]
        elif kind == "nd-ragged-component":
            for i, c in enumerate(some(C)):
                c.p.pinNDens = base * (i + 1) + np.arange((1 + i % 3) * 2, dtype=float).reshape((1 + i % 3, 2))
        elif kind == "list-ragged":
            for i, b in enumerate(some(B)):
                b.p.THcornTemp = [500.0 + i + base] * (1 + i % 3)
        return "AssignShaped %s" % kind

    def m_SetGridOffset(self):
        """the offset of a unit-step grid (pool, core, pin lattice) in any sign pattern; armi itself only builds none / positive"""
        import numpy as np
        from armi.reactor import grids

        owners = [o for o in self._objs() if type(o.spatialGrid) in (grids.HexGrid, grids.CartesianGrid)]
        if not owners:
            return None
        o = self.rng.choice(owners)
        off = self.rng.choice(((-25.0, -25.0, -120.0), (-1.5, 2.0, 0.0), (0.0, 0.0, -7.5), (0.0, 0.0, 0.0), (3.0, 0.0, 0.0), (-0.25, -0.5, 0.0)))
        o.spatialGrid.offset = np.array(off)
        return "SetGridOffset %s %s" % (type(o).__name__, off)

    def sweep(self, exclude=None):
        """every numeric persistent parameter of every object gets a value different from its default and from what it had
        (except the parameters listed in NOT_ASSIGNED): nothing the load path writes on its own can hide behind a default"""
        import numpy as np
        from armi.reactor import parameters

        exclude = NOT_ASSIGNED if exclude is None else exclude
        n = 0
        for o in self._objs():
            dims = set(getattr(o, "DIMENSION_NAMES", ()))
            for pd in o.p.paramDefs:
                if not pd.saveToDB or pd.name in exclude or pd.name in dims or pd.serializer is not None:
                    continue
                v = o.p.get(pd.name, pd.default)
                if v is parameters.NoDefault or isinstance(v, (bool, np.bool_)):
                    continue
                if isinstance(v, (int, np.integer)):
                    new = int(v) + self.rng.randrange(1, 4)
                elif isinstance(v, (float, np.floating)):
                    new = round(float(v) + self.rng.uniform(0.5, 9.5), 6)
                else:
                    continue
                try:
                    o.p[pd.name] = new
                    n += 1
                except Exception:  # noqa: BLE001  a parameter that refuses the value keeps the one it had
                    pass
        self.how.append("sweep of %d numeric parameters" % n)
        return n

    def m_AssignFlags(self):
        """plugin flags on blocks / components / assemblies (another process may hold them at other bit positions)"""
        from armi.reactor.flags import Flags

        objs = [o for o in self._objs() if "flags" in o.p.paramDefs.names]
        picked = self.rng.sample(objs, min(len(objs), self.rng.randrange(2, 6)))
        for i, o in enumerate(picked):
            extra = (Flags.VERIFA, Flags.VERIFB, Flags.VERIFA | Flags.VERIFB)[i % 3]
            o.p.flags = o.p.flags | extra
        return "AssignFlags on %d objects" % len(picked)

    def m_AddEmptyStructure(self):
        """an ex-core container whose grid makes its locations on demand and holds nothing yet (an empty grid is falsy)"""
        from armi.reactor import grids
        from armi.reactor.excoreStructure import ExcoreStructure

        if any(type(c) is ExcoreStructure for c in self.r):
            return None
        st = ExcoreStructure("Storage")
        st.spatialGrid = (grids.HexGrid.fromPitch(20.0, numRings=0) if self.rng.random() < 0.5
                          else grids.CartesianGrid.fromRectangle(30.0, 30.0, numRings=0))
        st.spatialGrid.armiObject = st
        self.r.add(st)
        return "AddEmptyStructure %s (%d locations)" % (type(st.spatialGrid).__name__, len(st.spatialGrid))

    def m_SetTD(self):
        """theoretical-density fraction of a material together with the component parameter that records it"""
        from armi.reactor.components import Component

        comps = [o for o in self._objs() if isinstance(o, Component) and type(o.material).__name__ in ("B4C", "UO2")]
        if not comps:
            return None
        c = self.rng.choice(comps)
        td = self.rng.choice((1.0, 0.9, 0.65))
        c.material.adjustTD(td)
        c.p.theoreticalDensityFrac = td
        return "adjustTD %s %s" % (c.name, td)

    def m_AssignNoDefault(self):
        from armi.reactor.components import Component

        comps = [o for o in self._objs() if isinstance(o, Component)]
        o = self.rng.choice(comps)
        name = self.rng.choice(NODEFAULT_OK)
        o.p[name] = round(self.rng.uniform(0.01, 0.9), 6)
        return "AssignParam %s.%s (no default)" % (type(o).__name__, name)

    def m_SetComposition(self):
        from armi.reactor.components import Component

        comps = [o for o in self._objs() if isinstance(o, Component) and len(o.getNumberDensities())]
        if not comps:
            return None
        c = self.rng.choice(comps)
        nd = c.getNumberDensities()
        nuc = self.rng.choice(sorted(nd))
        c.setNumberDensity(nuc, nd[nuc] * self.rng.choice((0.5, 0.9, 1.25)))
        return "setNumberDensity %s %s" % (c.name, nuc)

    def m_SetTemperature(self):
        from armi.reactor.components import Component

        comps = [o for o in self._objs() if isinstance(o, Component) and type(o.material).__name__ in ("HT9", "UZr")]
        if not comps:
            return None
        c = self.rng.choice(comps)
        c.setTemperature(round(self.rng.uniform(300.0, 650.0), 3))
        return "setTemperature %s" % c.name

    def m_Swap(self):
        from armi.physics.fuelCycle.fuelHandlers import FuelHandler
        from harness import gen_core

        a = list(self.r.core)
        if len(a) < 2:
            return None
        a1, a2 = self.rng.sample(a, 2)
        FuelHandler(gen_core.OperatorStub(self.r, self.w.cs)).swapAssemblies(a1, a2)
        return "swapAssemblies"

    def m_Rotate(self):
        import math

        a = [x for x in self.r.core if type(x).__name__ == "HexAssembly"]
        if not a:
            return None
        self.rng.choice(a).rotate(math.radians(60 * self.rng.randrange(1, 6)))
        return "rotate"

    def m_Discharge(self):
        a = list(self.r.core)
        if len(a) < 3:
            return None
        self.r.core.removeAssembly(self.rng.choice(a[1:]))
        return "removeAssembly(discharge)"

    def m_GrowToFull(self):
        from armi.reactor.converters import geometryConverters

        if "third" not in str(self.r.core.symmetry):
            return None
        geometryConverters.ThirdCoreHexToFullCoreChanger(self.w.cs).convert(self.r)
        return "growToFullCore"

    # -- observed calls ---------------------------------------------------------------------------------------
    def _proj(self, r, tag):
        nodes, det, notes = project(r)
        self.details[tag] = (nodes, det)
        for n in notes:
            self.notes.append("%s: %s" % (tag, n))
        return nodes

    def advance(self, cycle, node=0):
        """the time node the next snapshot is written at (a reactor parameter, so part of the observed state)"""
        self.r.p.cycle, self.r.p.timeNode = cycle, node
        self.how.append("time node (%d, %d)" % (cycle, node))

    def state(self):
        settle(self.r)
        nodes = self._proj(self.r, "live@%d" % (len(self.ev) + 1))
        self.ev.append({"a": {"n": "State", "how": self.how[-12:]}, "post": {"live": nodes}})
        self.how = []
        return nodes

    def _db(self, tag):
        from armi.bookkeeping.db.database import Database

        if tag not in self.dbs:
            # armi's convention: the database of a case is <caseTitle>.h5 (Database.loadCS derives the case title, and with
            # it the reactor's name, from the file name when the settings are read from the file)
            db = Database("%s.h5" % self.w.cs.caseTitle if tag == "a" else "%s-%s.h5" % (self.id, tag), "w")
            with _cwd(self.wd):
                db.open()
                if tag in ("a", "e"):
                    db.writeInputsToDB(self.w.cs)
            self.dbs[tag] = db
        return self.dbs[tag]

    def _write(self, r, slot, tag, call, extra, label=None):
        import h5py  # noqa: F401
        from armi.bookkeeping.db.database import getH5GroupName

        db = self._db(tag)
        cycle, node = int(r.p.cycle), int(r.p.timeNode)
        a = dict({"n": call, "s": slot}, **extra)
        if label:
            a["label"] = label
        try:
            db.writeToDB(r, statePointName=label)
        except (ValueError, NotImplementedError) as ex:
            self.ev.append({"a": dict(a, n="WriteRefused"), "post": {"exception": type(ex).__name__}})
            return False
        except Exception as ex:  # noqa: BLE001  an exception escaping a legal call is an observation TLC judges (clause Raised)
            self.ev.append({"a": a, "post": {"exception": type(ex).__name__, "text": str(ex)[:300]}})
            self.dead = True
            return False
        db.h5db.flush()
        self.slots[slot] = (tag, cycle, node)
        self.labels[slot] = label
        self.slot_src[slot] = ("load@%d" % self.loaded_at[extra["h"]]) if "h" in extra else "live@%d" % len(self.ev)
        self.ev.append({"a": a, "post": {"file": project_file(db.h5db[getH5GroupName(cycle, node, label)])}})
        return True

    def write(self, slot, label=None, tag="a"):
        """label: a named state point of the same time node (group cXXnYY<label>); tag "e": the database of an EARLIER run"""
        before = self.details.get("live@%d" % len(self.ev), (None,))[0]
        ok = self._write(self.r, slot, tag, "Write", {}, label=label)
        # frame condition "a write leaves the reactor as it was": equality of two projections of the same object
        after, _, _ = project(self.r)
        if before is not None and after != before:
            self.notes.append("write-changed-original")
        return ok

    def resave(self, h, slot):
        return self._write(self.loaded[h], slot, "b", "Resave", {"h": h})

    def load(self, slot, h, via="load"):
        """via: the public entry point used --
        load   Database.load(cycle, node, cs, newly parsed blueprints)
        neg    the same with the node counted from the end of its cycle (node < 0; the case has cycles of 3 and 5 nodes)
        ro     Database.loadReadOnly            state  DatabaseInterface.loadState(cycle, node, name, fileName)
        own    DatabaseInterface.loadState(cycle, node) of a follow-on case: its own open database AND the reload database
               (cs["reloadDBName"], file "e") hold the time node with different contents; the own database must win"""
        from armi.bookkeeping.db.database import Database
        from harness import gen_reactor

        tag, cycle, node = self.slots[slot]
        label = self.labels.get(slot)
        if tag in self.dbs:
            self.close_db(tag)
        a = {"n": "Load", "s": slot, "h": h}
        if via != "load":
            a["via"] = via
        db = None
        try:
            if via in ("state", "own"):
                from armi.bookkeeping.db.databaseInterface import DatabaseInterface

                class _Op:      # DatabaseInterface.loadState hands the loaded reactor to its operator
                    r = None

                    def reattach(self, r, cs=None):
                        self.r = r

                if via == "own":
                    if "e" in self.dbs:
                        self.close_db("e")
                    dbi = DatabaseInterface(self.r, self.w.cs.modified(newSettings={"reloadDBName": self.paths["e"]}))
                    dbi.o = _Op()
                    dbi._db = db = Database(self.paths[tag], "r")
                    db.open()
                    dbi.loadState(cycle, node, timeStepName=label or "")
                else:
                    dbi = DatabaseInterface(self.r, self.w.cs)
                    dbi.o = _Op()
                    dbi.loadState(cycle, node, timeStepName=label or "", fileName=self.paths[tag])
                r2 = dbi.o.r
            else:
                db = Database(self.paths[tag], "r")
                db.open()
                if via == "ro":
                    r2 = db.loadReadOnly(cycle, node, statePointName=label)
                elif via == "neg":
                    from harness.gen_reactor import LAST_NODE

                    r2 = db.load(cycle, node - LAST_NODE[cycle] - 1, cs=self.w.cs, bp=gen_reactor.fresh_blueprints(self.w),
                                 statePointName=label)
                else:
                    r2 = db.load(cycle, node, cs=self.w.cs, bp=gen_reactor.fresh_blueprints(self.w), statePointName=label)
            # (a query that raises on the loaded reactor is part of the same observation)
            nodes = self._proj(r2, "load@%d" % (len(self.ev) + 1))
        except Exception as ex:  # noqa: BLE001
            self.ev.append({"a": a, "post": {"exception": type(ex).__name__, "text": str(ex)[:300]}})
            self.dead = True
            return False
        finally:
            if db is not None:
                db.close()
        self.loaded[h] = r2
        self.loaded_at[h] = len(self.ev) + 1
        self.ev.append({"a": a, "post": {"state": nodes}})
        return True

    def close_db(self, tag):
        """finish a database file (armi moves it from its fast path to the given path on close)"""
        db = self.dbs.get(tag)
        if db is not None and db.isOpen():
            with _cwd(self.wd):
                db.close(True)
        if db is not None:
            self.paths[tag] = db._fullPath

    # -- the fresh process: a run that only loads a database and saves the reactor again (restart, post-processing) ----------
    def plan_fresh(self, slot, out_tag="c"):
        self.close_db(self.slots[slot][0])
        tag, cycle, node = self.slots[slot]
        self.fresh_job = {"id": self.id, "settings": self.w.path, "extra": {"trackAssems": True}, "src": self.paths[tag], "cycle": cycle,
                          "node": node, "wd": self.wd, "out": "%s-%s.h5" % (self.id, out_tag), "slot": slot}
        return self.fresh_job

    def finish_fresh(self, res, h_fresh=5, slot_new=4, h_check=6):
        """events of the fresh process (p = 2): Load(slot, h_fresh), Resave(h_fresh, slot_new); then Load(slot_new) here"""
        import h5py
        from armi.bookkeeping.db.database import getH5GroupName

        job = self.fresh_job
        a = {"n": "Load", "s": job["slot"], "h": h_fresh, "p": 2}
        if res.get("stage") == "load":
            self.ev.append({"a": a, "post": {"exception": res["exception"], "text": res.get("text", "")}})
            self.dead = True
            return
        self.loaded_at[h_fresh] = len(self.ev) + 1
        self.details["load@%d" % (len(self.ev) + 1)] = (res["nodes"], res["details"])
        for n in res["notes"]:
            self.notes.append("fresh: " + n)
        self.ev.append({"a": a, "post": {"state": res["nodes"]}})
        a = {"n": "Resave", "h": h_fresh, "s": slot_new, "p": 2}
        if res.get("stage") == "write":
            self.ev.append({"a": a, "post": {"exception": res["exception"], "text": res.get("text", "")}})
            self.dead = True
            return
        path = os.path.join(job["wd"], job["out"])
        with h5py.File(path, "r") as f:
            obs = project_file(f[getH5GroupName(job["cycle"], job["node"])])
        self.slots[slot_new] = ("c", job["cycle"], job["node"])
        self.paths["c"] = path
        self.slot_src[slot_new] = "load@%d" % self.loaded_at[h_fresh]
        self.ev.append({"a": a, "post": {"file": obs}})
        self.load(slot_new, h_check)

    def close(self):
        import shutil

        for tag in self.dbs:
            try:
                self.close_db(tag)
            except Exception:  # noqa: BLE001
                pass
        shutil.rmtree(self.wd, ignore_errors=True)

    def trace(self):
        return {"id": self.id, "ev": self.ev}


def play(hid, family, variant, seed, workdir, nmut=6, two_snapshots=True, fresh=False):
    """the standard history:  State Write(1) [mutate (sweep) State Write(2) [mutate State Write(5, label "EOL")]] |
    Load(1,1) Load(1,2 via load/loadReadOnly/loadState) [Load(2,3)] [Load(5,7 via loadReadOnly/loadState)] Resave(1,3) Load(3,4)
    and, with fresh=True, afterwards in a FRESH process Load(2 or 1, 5) Resave(5, 4), then here Load(4, 6) (run_histories)"""
    rng = random.Random(seed)
    h = History(hid, family, variant, rng, workdir)
    k = int(hid[1:]) if hid[1:].isdigit() else seed
    from harness.gen_reactor import LAST_NODE

    sweep_it, label_it, own_it = k % 2 == 0, k % 2 == 1 or k % 4 == 0, k % 3 == 2 or k == 0
    via2 = ("load", "ro", "state")[k % 3]
    try:
        h.mutate(rng.randrange(0, nmut + 1))
        if fresh or k % 2:
            h.how.append(h.m_AssignFlags())      # plugin flags on some objects of every history another process will read
        h.advance(0, LAST_NODE[0])
        h.state()
        ok1 = h.write(1)
        ok2 = ok5 = ok6 = False
        if two_snapshots:
            if own_it and ok1:
                # the database of an earlier run holds the time node the follow-on case is about to re-compute
                h.advance(1, LAST_NODE[1])
                h.state()
                ok6 = h.write(6, tag="e")
            h.mutate(rng.randrange(1, nmut + 1))
            if sweep_it:
                h.sweep()
            for a in list(h.r.core)[:1]:
                a.p.daysSinceLastMove = float(a.p.daysSinceLastMove) + 2.5
            h.how.append("daysSinceLastMove += 2.5")
            h.advance(1, LAST_NODE[1])
            h.state()
            ok2 = h.write(2)
            if ok2 and label_it:
                # a named state point of the SAME time node holding a later state (visibly different: a core assembly has aged)
                h.mutate(rng.randrange(0, 3))
                for a in list(h.r.core)[:1]:
                    a.p.daysSinceLastMove = float(a.p.daysSinceLastMove) + 1.25
                h.how.append("daysSinceLastMove += 1.25")
                h.state()
                ok5 = h.write(5, label="EOL")
        if ok1 and not h.dead:
            _ = h.load(1, 1, ("neg", "load")[k % 2]) and h.load(1, 2, via2)
        if ok2 and not h.dead:
            h.load(2, 3, "own" if ok6 else "ro" if ok5 else ("load", "neg")[k % 2])
        if ok5 and not h.dead:
            h.load(5, 7, ("ro", "state")[k % 2] if k % 4 else "ro")
        if ok1 and not h.dead and h.resave(1, 3):
            h.load(3, 4)
        if fresh and ok1 and not h.dead:
            h.plan_fresh(2 if ok2 else 1)
    except BaseException:
        h.close()
        raise
    if h.fresh_job is None:
        h.close()
    return h


def fresh_main(jobfile, outfile):
    """entry point of the fresh process:  python -m props.c04 --fresh <jobs.json> <out.pickle>"""
    import pickle

    _quiet()
    register_custom_flags(reverse=True)
    if os.environ.get("C04_FRESH_MUTANT"):
        _fresh_mutant(os.environ["C04_FRESH_MUTANT"])
    from armi import settings
    from armi.bookkeeping.db.database import Database
    from armi.reactor import blueprints

    with open(jobfile) as f:
        jobs = json.load(f)
    out = {}
    for job in jobs:
        res = {"stage": "load"}
        try:
            cs = settings.Settings(fName=job["settings"]).modified(newSettings=job["extra"])
            bp = blueprints.loadFromCs(cs)
            db = Database(job["src"], "r")
            db.open()
            try:
                r = db.load(job["cycle"], job["node"], cs=cs, bp=bp)
            finally:
                db.close()
            res["nodes"], res["details"], res["notes"] = project(r)
            res["stage"] = "write"
            with _cwd(job["wd"]):
                db2 = Database(job["out"], "w")
                db2.open()
                db2.writeToDB(r)
                db2.close(True)
            res["stage"] = "done"
        except Exception as ex:  # noqa: BLE001  the parent logs it as the observation of that call
            res["exception"], res["text"] = type(ex).__name__, str(ex)[:300]
        out[job["id"]] = res
    with open(outfile, "wb") as f:
        pickle.dump(out, f)
    return 0


def _fresh_mutant(name):
    """selftest only: the fresh process cannot inherit an in-process patch, it applies the named mutant itself"""
    _MUTANTS[name]()


def _src_mutant(func, old, new):
    """the function `func` with one piece of its source text replaced (compiled in its own module's namespace)"""
    import inspect
    import textwrap

    src = textwrap.dedent(inspect.getsource(func))
    if src.count(old) != 1:
        raise tlc.MachineryError("selftest mutant: %r occurs %d times in %s" % (old, src.count(old), func.__qualname__))
    ns = {}
    exec(compile(src.replace(old, new), inspect.getsourcefile(func), "exec"), func.__globals__, ns)  # noqa: S102
    return ns[func.__name__]


def _mut_readparams_setattr():
    """seed 5: _readParams stores values straight into the collections' fields: loading flags no definition as assigned"""
    from armi.bookkeeping.db import database as D

    f = _src_mutant(D.Database._readParams, "c.p[paramName] = val", "setattr(c.p, pDef.fieldName, val)")
    old = D.Database.__dict__["_readParams"]
    D.Database._readParams = f if isinstance(f, staticmethod) else staticmethod(f)
    return lambda: setattr(D.Database, "_readParams", old)


def _mut_flags_set_equal():
    """round 3 seed 1: stored flag bit fields are read directly whenever the SET of flag names is the same"""
    from armi.reactor import composites as CO

    f = _src_mutant(CO.FlagSerializer._unpackImpl.__func__, "if all(i == j for i, j in zip(flagOrderPassed, flagOrderNow)):",
                    "if set(flagOrderPassed) == set(flagOrderNow) or all(i == j for i, j in zip(flagOrderPassed, flagOrderNow)):")
    old = CO.FlagSerializer.__dict__["_unpackImpl"]
    CO.FlagSerializer._unpackImpl = f if isinstance(f, classmethod) else classmethod(f)
    return lambda: setattr(CO.FlagSerializer, "_unpackImpl", old)


_MUTANTS = {"readparams_setattr": _mut_readparams_setattr, "flags_set_equal": _mut_flags_set_equal}


def run_fresh(hs, workdir):
    """one fresh python process serves the jobs of all histories of this run (it never builds a reactor from inputs)"""
    import pickle
    import subprocess
    import sys

    jobs = [h.fresh_job for h in hs.values() if h.fresh_job is not None]
    if not jobs:
        return 0
    jf, of = os.path.join(workdir, "fresh-jobs.json"), os.path.join(workdir, "fresh-out.pickle")
    with open(jf, "w") as f:
        json.dump(jobs, f)
    env = dict(os.environ)
    import armi

    repo = os.path.dirname(os.path.dirname(os.path.abspath(armi.__file__)))
    env["PYTHONPATH"] = os.pathsep.join([common.ROOT, repo] + [p for p in env.get("PYTHONPATH", "").split(os.pathsep) if p])
    p = subprocess.run([sys.executable, "-m", "props.c04", "--fresh", jf, of], cwd=common.ROOT, env=env, stdout=subprocess.PIPE,
                       stderr=subprocess.STDOUT, timeout=3000)
    if p.returncode != 0 or not os.path.exists(of):
        raise tlc.MachineryError("fresh process failed rc=%s\n%s" % (p.returncode, p.stdout.decode("utf-8", "replace")[-2000:]))
    with open(of, "rb") as f:
        out = pickle.load(f)
    for h in hs.values():
        if h.fresh_job is not None:
            try:
                h.finish_fresh(out[h.id])
            finally:
                h.close()
    return len(jobs)


# ------------------------------------------------------------------------------------------------------------
# naming of TLC's verdicts (diagnostics only: THAT a clause fails on a node is TLC's verdict; WHICH parameter / query
# inside an opaque digest differs is looked up in the un-digested projections so that violation keys are stable)
# ------------------------------------------------------------------------------------------------------------
CLAUSE_DETAIL = {"Dimensions": "pd", "Composition": "pn", "Parameters": "pp", "Coordinates": "oc", "ResolvedDimensions": "od",
                 "Quantities": "om"}


def name_verdict(h, v):
    """-> list of (key suffix, text) for one verdict line of DbState_trace"""
    call, clause = v["call"], v["clause"]
    if clause.startswith("Raised:"):
        return [(clause, "%s raised %s: %s" % (call, clause[7:], h.ev[v["at"] - 1]["post"].get("text", "")))]
    if clause.startswith("File:") or clause in ("Shape", "RefusalExpected", "LoadTwice") or clause.startswith("UnexpectedRefusal"):
        return [(clause, "%s: %s differs from the specification at %s position(s), first %s" % (call, clause, v["n"], v["first"]))]
    ev = h.ev[v["at"] - 1]
    exp, got = v.get("exp", {}), v.get("got", {})
    if clause in CLAUSE_DETAIL:
        fld = CLAUSE_DETAIL[clause]
        src = h.details.get(h.slot_src.get(ev["a"]["s"]))
        dst = h.details.get("load@%d" % v["at"])
        names = {}
        if src and dst:
            by_sn_src = {n["sn"]: d for n, d in zip(*src)}
            by_sn_dst = {n["sn"]: d for n, d in zip(*dst)}
            ty_src = {n["sn"]: n["ty"] for n in src[0]}
            for sn in v.get("sns", []):
                a, b = by_sn_src.get(sn), by_sn_dst.get(sn)
                if a is None or b is None:
                    continue
                cty = coarse(ty_src.get(sn, ""))
                for k in sorted(set(a[fld]) | set(b[fld])):
                    if a[fld].get(k, "<absent>") != b[fld].get(k, "<absent>"):
                        names.setdefault((k, cty), (a[fld].get(k, "<absent>"), b[fld].get(k, "<absent>"), sn))
        if not names:
            return [(clause, "%s: %s differs on %d node(s), first %s %s" % (call, clause, v["n"], v.get("ty"), v.get("nm")))]
        tyof = {n["sn"]: (n["ty"], n["nm"]) for n in src[0]}
        return [("%s:%s:%s" % (clause, k, cty), "%s: %s `%s` of %s %s (serial %s): written %s, loaded %s (%d node(s) fail the clause)" % (
            call, clause, k, tyof[sn][0], tyof[sn][1], sn, json.dumps(a)[:120], json.dumps(b)[:120], v["n"]))
            for (k, cty), (a, b, sn) in sorted(names.items())]
    # clauses over plain fields: one key per kind of object (and, for locators, per kind of change)
    src = h.details.get(h.slot_src.get(ev["a"]["s"]))
    dst = h.details.get("load@%d" % v["at"])
    fld = _FIELD.get(clause, "")
    out = {}
    if src and dst and fld:
        ns, nd = {n["sn"]: n for n in src[0]}, {n["sn"]: n for n in dst[0]}
        for sn in v.get("sns", []):
            a, b = ns.get(sn), nd.get(sn)
            if a is None or b is None:
                continue
            if clause == "LocKind":
                det = "%s->%s:" % (a["lk"], b["lk"])
            elif clause == "GridOwner":
                det = "%s->%s:" % ("none" if a["lg"] == 0 else "grid", "none" if b["lg"] == 0 else "grid")
            else:
                det = ""
            out.setdefault("%s:%s%s" % (clause, det, coarse(a["ty"])), (a, b))
    if not out:
        e, g = exp.get(fld, None), got.get(fld, None)
        return [("%s:%s" % (clause, coarse(v.get("ty", ""))), "%s: %s of %s %s: written %s, loaded %s (%d node(s))" % (
            call, clause, v.get("ty"), v.get("nm"), json.dumps(e)[:150], json.dumps(g)[:150], v["n"]))]
    return [(k, "%s: %s of %s %s (serial %s): written %s, loaded %s (%d node(s) fail the clause)" % (
        call, clause, a["ty"], a["nm"], a["sn"], json.dumps(_show(a, fld, src[0]))[:150], json.dumps(_show(b, fld, dst[0]))[:150], v["n"]))
        for k, (a, b) in sorted(out.items())]


def _show(n, fld, nodes):
    """children / grid owner by serial number (positions differ between the two projections)"""
    if fld == "kids":
        return [nodes[k - 1]["sn"] for k in n["kids"]]
    if fld == "lg":
        return nodes[n["lg"] - 1]["sn"] if n["lg"] > 0 else n["lg"]
    return n[fld]


def coarse(ty):
    """class name -> level of the model (keeps violation keys few and stable)"""
    if ty in ("Circle", "Hexagon", "Rectangle", "Square", "Helix", "DerivedShape", "RadialSegment", "Triangle", "UnshapedComponent"):
        return "Component"
    for k in ("Block", "Assembly", "Core", "Reactor"):
        if ty.endswith(k):
            return k
    return "Composite" if ty in ("Composite", "VerifBox") else ty


_FIELD = {"Types": "ty", "Names": "nm", "Serials": "sn", "ChildOrder": "kids", "LocKind": "lk", "LocValue": "loc", "GridOwner": "lg",
          "Grids": "grid", "Materials": "mat", "Temperatures": "tmp", "SortKeys": "ck"}


# ------------------------------------------------------------------------------------------------------------
# spec -> code: every small tree TLC enumerates (Layout_mc emission) is built from real objects, written with
# Database.writeToDB into an in-memory HDF5 file and loaded with Database.load
# ------------------------------------------------------------------------------------------------------------
TYPE_OF = {"R": "Reactor", "A": "Composite", "B": "VerifBox", "K": "Circle"}
_BOX = None


def _box_class():
    global _BOX
    if _BOX is None:
        from armi.reactor import composites

        class VerifBox(composites.Composite):
            """a second composite class (its own parameter group in the file)"""

        _BOX = VerifBox
    return _BOX


class GenericAdapter:
    def __init__(self):
        armi_ready()
        from armi import settings
        from armi.reactor import blueprints

        self.cs = settings.Settings()
        self.bp = blueprints.Blueprints()
        self.n = 0

    def grid(self, raw):
        from armi.reactor import grids

        if raw == "":
            return None
        if raw in ("Cart#1", "Cart#1b"):      # one grid, two spellings of its geometry type (what the blueprints do)
            g = grids.HexGrid.fromPitch(1.0, numRings=2, cornersUp=True)
            g._geomType = "hex_corners_up" if raw == "Cart#1b" else "hex"
            return g
        if raw == "Cart#2":
            g = grids.CartesianGrid.fromRectangle(2.0, 3.0, numRings=2)
            g._geomType = "cartesian"
            return g
        if raw == "Axial#1":
            return grids.AxialGrid.fromNCells(3)
        if raw == "Hex#0":       # locations on demand, none yet: len() == 0, so the grid object is falsy
            g = grids.HexGrid.fromPitch(3.0, numRings=0)
            g._geomType = "hex"
            return g
        raise AssertionError(raw)

    def build(self, t):
        from armi.reactor import composites, grids, reactors
        from armi.reactor.components import Circle

        objs = []
        for nd in t:
            if nd["ty"] == "R":
                o = reactors.Reactor(self.cs.caseTitle, self.bp)
                for c in list(o):
                    o.remove(c)
            elif nd["ty"] == "K":
                o = Circle(nd["nm"], nd["mat"], Tinput=25.0, Thot=400.5, od=float(nd["ck"][0]), id=0.0, mult=1)
            elif nd["ty"] == "B":
                o = _box_class()(nd["nm"])
            else:
                o = composites.Composite(nd["nm"])
            o.p.serialNum = nd["sn"]
            g = self.grid(nd["grid"]["raw"])
            if g is not None:
                g.armiObject = o
                o.spatialGrid = g
            objs.append(o)
        for nd, o in zip(t, objs):
            for k in nd["kids"]:
                o.add(objs[k - 1])
        for nd, o in zip(t, objs):
            par = objs[nd["lg"] - 1] if nd["lg"] else None
            if nd["lk"] == "N":
                o.spatialLocator = None
            elif nd["lk"] == "C":
                x, y, z = (float(v) for v in nd["loc"][0])
                o.spatialLocator = grids.CoordinateLocation(x, y, z, par.spatialGrid if par is not None else None)
            elif nd["lk"] == "I":
                o.spatialLocator = par.spatialGrid[tuple(nd["loc"][0])]
            else:
                m = grids.MultiIndexLocation(grid=par.spatialGrid)
                for ijk in nd["loc"]:
                    m.append(par.spatialGrid[tuple(ijk)])
                o.spatialLocator = m
        return objs

    def run_case(self, case):
        """-> list of (key, text) differences between the real code and the specification on one tree"""
        import h5py
        from armi.bookkeeping.db.database import Database
        from armi.bookkeeping.db.layout import Layout

        t = case["t"]
        objs = self.build(t)
        root = objs[0]
        self.n += 1
        db = Database("c04-generic-%d.h5" % self.n, "w")
        db.h5db = h5py.File("c04-generic-%d-%d" % (os.getpid(), self.n), "w", driver="core", backing_store=False)
        out = []
        try:
            try:
                db.writeToDB(root)
                refused = None
            except (ValueError, NotImplementedError) as ex:
                refused = type(ex).__name__
            if not case["sortable"]:
                if refused is None:
                    out.append(("write:RefusalExpected", "writeToDB stored a tree whose siblings cannot be ordered"))
                elif "c00n00/layout" in db.h5db:
                    out.append(("write:RefusalLeavesLayout", "writeToDB raised %s but left layout/* behind" % refused))
                return out
            if refused is not None:
                return [("write:UnexpectedRefusal:" + refused, "writeToDB raised %s on a tree the specification accepts" % refused)]
            # (i) the file
            got = project_file(db.h5db["c00n00"])
            rawkey = {}
            for nd, o in zip(t, objs):
                if nd["grid"]["raw"]:
                    rawkey[nd["grid"]["raw"]] = grid_key(o.spatialGrid)[0]
            exp = dict(case["file"])
            exp["type"] = [TYPE_OF[x] for x in exp["type"]]
            exp["name"] = [root.name if x == t[0]["nm"] else x for x in exp["name"]]
            exp["grids"] = [rawkey[x] for x in exp["grids"]]
            for k in sorted(exp):
                if exp[k] != got[k]:
                    out.append(("write:File:" + k, "layout/%s: specification %s, file %s" % (k, json.dumps(exp[k])[:200], json.dumps(got[k])[:200])))
            anc = Layout.computeAncestors(got["serialNum"], got["numChildren"])
            if [0 if a is None else int(a) for a in anc] != case["anc"]:
                out.append(("computeAncestors", "Layout.computeAncestors %s, specification %s" % (anc, case["anc"])))
            if out:
                return out
            # (ii) the loaded tree
            r2 = db.load(0, 0, cs=self.cs, bp=self.bp)
            nodes, _, notes = project(r2)
            expl = case["loaded"]
            if sorted(n["sn"] for n in nodes) != sorted(n["sn"] for n in expl):
                return [("load:Shape", "loaded tree has serial numbers %s, specification %s" % (
                    sorted(n["sn"] for n in nodes), sorted(n["sn"] for n in expl)))]

            def by_sn(ns):     # children and grid owner named by serial number (as Layout.tla BySn)
                return {n["sn"]: dict(n, kids=[ns[k - 1]["sn"] for k in n["kids"]], lg=ns[n["lg"] - 1]["sn"] if n["lg"] > 0 else n["lg"]) for n in ns}

            E, G = by_sn(expl), by_sn(nodes)
            for sn in sorted(E):
                e, g = dict(E[sn]), G[sn]
                e["ty"] = TYPE_OF[e["ty"]]
                if sn == t[0]["sn"]:
                    e["nm"] = root.name
                for clause, fld in (("Types", "ty"), ("Names", "nm"), ("ChildOrder", "kids"), ("LocKind", "lk"),
                                    ("GridOwner", "lg"), ("Materials", "mat"), ("Temperatures", "tmp")):
                    if e[fld] != g[fld]:
                        if clause == "LocKind":
                            suffix = "LocKind:%s->%s:%s" % (e[fld], g[fld], coarse(e["ty"]))
                        elif clause == "GridOwner":
                            suffix = "GridOwner:%s->%s:%s" % ("none" if e[fld] == 0 else "grid", "none" if g[fld] == 0 else "grid", coarse(e["ty"]))
                        else:
                            suffix = "%s:%s" % (clause, coarse(e["ty"]))
                        out.append(("load:" + suffix, "generic tree: %s of %s: specification %s, loaded %s" % (
                            clause, e["nm"], json.dumps(e[fld]), json.dumps(g[fld]))))
                if e["lk"] == g["lk"] and e["loc"] != g["loc"]:
                    out.append(("load:LocValue:" + coarse(e["ty"]), "generic tree: location of %s: specification %s, loaded %s" % (e["nm"], e["loc"], g["loc"])))
                if (e["grid"]["raw"] == "") != (g["grid"]["raw"] == "") or e["grid"]["ax"] != g["grid"]["ax"]:
                    out.append(("load:Grids:" + coarse(e["ty"]), "generic tree: grid of %s: specification %s, loaded %s" % (e["nm"], e["grid"], g["grid"])))
            # grids: the loaded grid of a node must be (observationally) the grid the node had
            gobs = {}
            for nd, o in zip(t, objs):
                if nd["grid"]["raw"]:
                    n1, _, _ = project(o)
                    gobs[nd["sn"]] = n1[0]["grid"]["obs"]
            for g in nodes:
                if g["sn"] in gobs and g["grid"]["obs"] != gobs[g["sn"]]:
                    out.append(("load:Grids:%s" % coarse(g["ty"]), "generic tree: grid of %s changed: %s -> %s" % (g["nm"], gobs[g["sn"]], g["grid"]["obs"])))
            return out
        finally:
            db.h5db.close()
            db.h5db = None


# ------------------------------------------------------------------------------------------------------------
# the check
# ------------------------------------------------------------------------------------------------------------
_SELFTEST = False
_EMIT = {}
DB_ACTIONS = ("AssignParam", "SetComposition", "SetTemperature", "Swap", "Rotate", "Detach", "Grow", "Write", "WriteRefused",
              "Load", "Resave")
CALL_PREFIX = {"Load": "load", "Write": "write", "Resave": "resave", "WriteRefused": "write"}


def _tlc_verdict(rep, label, res):
    rep.add_tlc(label, res)
    if res.violation:
        rep.violation("tlc:" + res.violation["name"], "TLC: %s violated in the specification (%s)" % (res.violation["name"], label),
                      {"direction": "tlc", "trace": res.violation["trace"][:20000]})


def generic_cases(cfg):
    if cfg not in _EMIT:
        _EMIT[cfg] = tlc.run("Layout_mc", cfg, MODDIR, workers=1, coverage=False, timeout=3000)
    res = _EMIT[cfg]
    return res, [p for p in res.prints if isinstance(p, dict) and "t" in p]


def history_plan(n, seed):
    from harness import gen_reactor

    fams = gen_reactor.FAMILIES
    return [("h%d" % i, fams[i % len(fams)], (i // len(fams) + seed) % 12, seed * 100003 + i) for i in range(n)]


def wants_fresh(i):
    """which histories of a plan get the fresh-process stage: one in six, rotating through the families"""
    return i % 6 == (i // 6) % 6


def run_histories(plan, workdir):
    hs = {}
    for i, (hid, fam, var, sd) in enumerate(plan):
        hs[hid] = play(hid, fam, var, sd, workdir, fresh=wants_fresh(int(hid[1:])) if hid[1:].isdigit() else False)
    run_fresh(hs, workdir)
    return hs, [h.trace() for h in hs.values()]


def judge_histories(rep, hs, traces, plan):
    bad, stats = tracecheck.validate("DbState_trace", "DbState_trace.cfg", MODDIR, traces, timeout=3000)
    rep.add_tlc("trace-validation", stats["tlc"])
    meta = {p[0]: p for p in plan}
    for b in bad:
        tid = b["trace"]["id"]
        why = (b.get("mismatch") or {}).get("reason", b.get("invariant", "event not enabled"))
        rep.violation("trace:rejected:" + str(why).replace(" ", "-"),
                      "recorded history %s is not a behaviour of DbState at event %d: %s" % (tid, b["matched"] + 1, why),
                      {"direction": "trace", "plan": meta.get(tid), "matched": b["matched"], "tlc": b.get("tlc")})
    nverd = 0
    for v in stats["tlc"].prints:
        if not (isinstance(v, dict) and "verdict" in v):
            continue
        nverd += 1
        h = hs[v["verdict"]]
        for suffix, text in name_verdict(h, v):
            rep.violation("%s:%s@%s" % (CALL_PREFIX.get(v["call"], v["call"].lower()), suffix, h.family),
                          "%s [%s reactor, history %s, event %d; mutations: %s]" % (
                              text, h.family, h.id, v["at"], ", ".join(_hows(h, v["at"]))[:300]),
                          {"direction": "trace", "plan": meta.get(h.id), "verdict": {k: v[k] for k in v if k not in ("exp", "got")},
                           "expected_node": v.get("exp"), "loaded_node": v.get("got")})
    for h in hs.values():
        for n in h.notes:
            if n == "write-changed-original":
                rep.violation("write:changes-original@%s" % h.family, "Database.writeToDB changed the reactor it wrote (%s, history %s)" % (h.family, h.id),
                              {"direction": "trace", "plan": meta.get(h.id)})
            else:
                rep.violation("load:non-integral-index@%s" % h.family, "%s (%s, history %s)" % (n, h.family, h.id), {"direction": "trace", "plan": meta.get(h.id)})
    return nverd


def _hows(h, at):
    out = []
    for e in h.ev[:at]:
        if e["a"]["n"] == "State":
            out += e["a"]["how"]
    return out


def _quiet():
    """armi's section headers are logged at level 100, above what armi_env silences; they would drown the verdict lines"""
    import logging

    armi_ready()
    if not os.environ.get("VERIF_ARMI_LOG"):
        logging.disable(200)


def run(rep, tier, seed):
    thorough = tier == "thorough"
    sfx = "_thorough" if thorough else ""
    _quiet()
    for m in ("Layout_mc", "DbState_mc", "DbState_trace"):
        tlc.sany(m, MODDIR)
    rep.exhaustive = True
    if not _SELFTEST:
        # 1. the design: layout algebra over all small trees; database histories over the 9-node reactor
        # (no -coverage here: TLC's per-expression counters make the recursive layout operators ~50x slower; the model has
        # one action, non-vacuity = number of distinct trees)
        res = tlc.run("Layout_mc", "Layout_mc%s.cfg" % sfx, MODDIR, want_prints=False, timeout=3000, coverage=False)
        _tlc_verdict(rep, "exhaustive:Layout_mc%s.cfg" % sfx, res)
        if res.distinct < 1000:
            raise tlc.MachineryError("vacuous: Layout_mc explored %d trees" % res.distinct)
        # invariants without coverage counters (3x faster); the actions' non-vacuity from a small separate run with -coverage
        res = tlc.run("DbState_mc", "DbState_mc%s.cfg" % sfx, MODDIR, want_prints=False, timeout=3000, coverage=False)
        _tlc_verdict(rep, "exhaustive:DbState_mc%s.cfg" % sfx, res)
        cov = tlc.run("DbState_mc", "DbState_cov.cfg", MODDIR, want_prints=False, timeout=3000)
        _tlc_verdict(rep, "coverage:DbState_cov.cfg", cov)
        never = [a for a in DB_ACTIONS if cov.coverage.get(a, (0, 0))[1] == 0]
        if never:
            raise tlc.MachineryError("vacuous: DbState actions never taken: %s" % never)

    # 2. spec -> code: TLC's trees, as real objects, through Database.writeToDB / Database.load
    eres, cases = generic_cases("Layout_emit%s.cfg" % sfx)
    rep.add_tlc("cases:Layout_emit%s.cfg" % sfx, eres)
    ncase = 1200 if thorough else (150 if _SELFTEST else 220)
    rng = random.Random(seed)
    sample = cases if len(cases) <= ncase else rng.sample(cases, ncase)
    if not sample or not any(not c["sortable"] for c in sample) or not any(c["sortable"] for c in sample):
        raise tlc.MachineryError("vacuous: %d emitted trees" % len(sample))
    ad = GenericAdapter()
    nontrivial = 0
    for c in sample:
        nontrivial += 1 if len(c["t"]) > 1 else 0
        try:
            diffs = ad.run_case(c)
        except Exception as ex:  # noqa: BLE001  an exception escaping a legal write/load is a verdict about the code
            import traceback

            diffs = [("generic:exception:" + type(ex).__name__, "real code raised on a legal tree: %s" % traceback.format_exc()[-600:])]
        for k, text in diffs:
            rep.violation(k + "@generic", text, {"direction": "generic", "case": c})
    rep.add_replay("generic-trees", len(sample), nontrivial,
                   "every tree TLC enumerates (Layout_emit) is built from real Reactor/Composite/Circle objects, written with "
                   "Database.writeToDB to an in-memory HDF5 file, layout/* compared with FileObs(Flatten(t)), loaded with Database.load and "
                   "compared with LoadFile; refusals must raise and store no layout; non-trivial = trees with children")
    rep.sample({"kind": "generic-tree", "tree": sample[len(sample) // 2]["t"], "expected_file": sample[len(sample) // 2]["file"]})

    # 3. code -> spec: real histories on reactors armi builds from generated blueprints
    nh = 90 if thorough else (6 if _SELFTEST else 8)
    plan = history_plan(nh, seed)
    wd = common.workdir("c04")
    hs, traces = run_histories(plan, wd)
    nload = sum(1 for t in traces for e in t["ev"] if e["a"]["n"] == "Load")
    if nload == 0:
        raise tlc.MachineryError("vacuous: no Load event recorded")
    judge_histories(rep, hs, traces, plan)
    rep.add_traces("real-histories", len(traces), sum(len(t["ev"]) for t in traces),
                   "histories State/Write/Load/Resave on reactors built from generated blueprints (hex third/full, hex with pin lattice, "
                   "cartesian full/quarter with pin lattice, theta-RZ; spent fuel pool) after random parameter assignments, composition and "
                   "temperature changes, swaps, rotations, discharges, growth to full core; TLC computes the required file layout and "
                   "loaded state for every call and judges every clause on every node")
    t0 = traces[0]
    rep.sample({"kind": "history", "id": t0["id"], "family": plan[0][1], "calls": [e["a"] for e in t0["ev"]],
                "nodes": len(t0["ev"][0]["post"]["live"]), "first_node": t0["ev"][0]["post"]["live"][1]})
    rep.extra["history_calls"] = {k: sum(1 for t in traces for e in t["ev"] if e["a"]["n"] == k) for k in ("State", "Write", "WriteRefused", "Load", "Resave")}
    muts = {}
    for t in traces:
        for e in t["ev"]:
            for hname in e["a"].get("how", []):
                k = hname.split(" ")[0]
                muts[k] = muts.get(k, 0) + 1
    rep.extra["mutations_applied"] = muts
    rep.extra["numeric_parameters_never_assigned_by_the_driver"] = NOT_ASSIGNED
    rep.extra["load_realisations"] = {v: sum(1 for t in traces for e in t["ev"] if e["a"]["n"] == "Load" and e["a"].get("via", "load") == v
                                             and "p" not in e["a"]) for v in ("load", "neg", "ro", "state", "own")}
    rep.extra["labelled_snapshots"] = sum(1 for t in traces for e in t["ev"] if e["a"].get("label"))
    rep.assume(
        "I1 child order is compared in the canonical sibling order writer and loader apply (ARMI's sortReactor behaviour)",
        "I2 persistent parameters are compared by VALUE in the C05 normal form (python/numpy scalar and list/array types not "
        "distinguished, reals to 12 significant digits); unset = default; `assigned` bits are not compared",
        "I3 a loaded material is a fresh instance: compared by class and through the component's queries; the material object's own "
        "state set by blueprint material modifications (e.g. UZr zrFrac -> material.density()) is not persisted and not compared",
        "I4 Assembly.add re-indexes blocks: local indices are compared (the file stores complete indices)",
        "I5 grids are compared by class, unit steps, bounds, limits, offset, public geomType and symmetry; the private spelling "
        "'hex_corners_up' (reduce()) comes back as 'hex' and is not counted as a difference; layout/grids must hold reduce() literally",
        "the driver settles the reactor before observing it (clearCache, Component.getVolume, Core.setBlockMassParams) as DESIGN C04 "
        "prescribes: lazily cached derived values of the live objects are not reactor state; "
        "maxAssemNum (reset by Core.processLoading) and serialNum (the node identity) are not compared as parameters",
        "AssignParam replaces numeric / 1-d real-array parameter values; AssignShaped assigns real persistent parameters of every "
        "storage class (rectangular and differently shaped n-d arrays, arrays on some objects only, 1-d arrays and lists of "
        "different lengths, strings, dictionaries on every object of a class, None in numeric columns) within the shapes whose "
        "round trip is exact in the C05 normal form ([] = unset); parameters without default: zrFrac, buRate only",
        "one history in six continues in a FRESH python process that only loads the snapshot and saves it again (events with p = 2); "
        "Flags values are compared as sets of member names (their printed order depends on the process)",
    )


def replay(payload):
    _quiet()
    if payload.get("direction") == "generic":
        d = GenericAdapter().run_case(payload["case"])
        for k, text in d:
            print(k, "--", text)
        print("no difference" if not d else "%d difference(s)" % len(d))
        return 1 if d else 0
    if payload.get("direction") == "trace" and payload.get("plan"):
        from harness.report import Report

        plan = [tuple(payload["plan"])]
        hs, traces = run_histories(plan, common.workdir("c04"))
        rep = Report("C04", "replay", 0)
        judge_histories(rep, hs, traces, plan)
        for v in rep.violations:
            print(v["key"], "--", v["what"][:400])
        hit = [v for v in rep.violations if v["key"] == payload.get("key")]
        print("history %s re-run: %d verdict key(s); the reported key %s" % (plan[0][0], len(rep.violations), "REPRODUCED" if hit else "not reproduced"))
        return 1 if hit else 0
    print("replay of direction=%s: see payload (TLC trace)" % payload.get("direction"))
    return 0


def selftest():
    """In-process mutants of the anchored code; each must change the set of violation keys of a reduced run (generic
    trees + 6 real histories).  Findings of the unmutated tree are the baseline and are not counted."""
    global _SELFTEST
    from harness.report import Report
    from harness.selftest import patched, run_mutants

    _quiet()
    import contextlib

    import numpy as np
    from armi.bookkeeping.db import database as D
    from armi.bookkeeping.db import layout as L
    from armi.reactor import assemblies as AS
    from armi.reactor import grids, parameters
    from armi.reactor.components import component as C
    from armi.reactor.grids import structuredGrid as SG

    _SELFTEST = True

    def detect():
        rep = Report("C04", "quick", 0)
        run(rep, "quick", 0)
        return [v["key"] for v in rep.violations]

    def create_layout(nosort=False, grid_by_type=False, shared_index=False, hot_twice=False):
        def _createLayout(self, comp):
            compList = self.groupedComps[type(comp)]
            compList.append(comp)
            self.type.append(comp.__class__.__name__)
            self.name.append(comp.name)
            self.serialNum.append(comp.p.serialNum)
            self.indexInData.append(len(self.type) - 1 if shared_index else len(compList) - 1)
            self.numChildren.append(len(comp))
            if comp.spatialGrid is not None:
                gridType = type(comp.spatialGrid).__name__
                gridParams = (gridType, comp.spatialGrid.reduce())
                key = gridType if grid_by_type else gridParams
                if key not in self._seenGridParams:
                    self._seenGridParams[key] = len(self.gridParams)
                    self.gridParams.append(gridParams)
                self.gridIndex.append(self._seenGridParams[key])
            else:
                self.gridIndex.append(None)
            self._spatialLocators.append(comp.spatialLocator)
            try:
                self.temperatures.append((comp.temperatureInC if hot_twice else comp.inputTemperatureInC, comp.temperatureInC))
                self.material.append(comp.material.__class__.__name__)
            except Exception:  # noqa: BLE001
                self.temperatures.append((-900, -900))
                self.material.append("")
            comps = list(comp) if nosort else sorted(list(comp))
            for c in comps:
                self._createLayout(c)

        return _createLayout

    def unpack_reversed_multi(locationTypes, locData):
        out = L_unpack(locationTypes, locData)
        return [list(reversed(x)) if isinstance(x, list) else x for x in out]

    L_unpack = L._unpackLocationsV2

    def pack_coord_as_index(locations):
        types, data = L_pack3(locations)
        return ["I" if t == "C" else t for t in types], data

    L_pack3 = L._packLocationsV3

    orig_toWrite = parameters.ParameterDefinitionCollection.toWriteToDB

    def to_write_skips_serialized(self, assignedMask=None):
        return [pd for pd in orig_toWrite(self, assignedMask) if pd.serializer is None]

    def to_write_skips_power_like(self, assignedMask=None):
        return [pd for pd in orig_toWrite(self, assignedMask) if not pd.name.lower().startswith(("p", "b"))]

    orig_read_layout = L.Layout._readLayout

    def read_layout_swaps_temperatures(self, h5group):
        orig_read_layout(self, h5group)
        self.temperatures = np.asarray(self.temperatures)[:, ::-1]

    orig_reduce = SG.StructuredGrid.reduce

    def reduce_drops_symmetry(self):
        r = orig_reduce(self)
        return grids.GridParameters(r.unitSteps, r.bounds, r.unitStepLimits, r.offset, r.geomType, "")

    def reduce_drops_offset(self):
        r = orig_reduce(self)
        return grids.GridParameters(r.unitSteps, r.bounds, r.unitStepLimits, None, r.geomType, r.symmetry)

    orig_compose = D.Database._compose

    def resolve_nothing(self, components):
        return None

    orig_load = D.Database.load

    def load_without_links(self, *a, **k):
        with patched(C.Component, "resolveLinkedDims", resolve_nothing):
            return orig_load(self, *a, **k)

    from armi.bookkeeping.db import jaggedArray as J

    @contextlib.contextmanager
    def fresh_process_mutant(name):
        """in this process and, through the environment, in the fresh process"""
        os.environ["C04_FRESH_MUTANT"] = name
        undo = _MUTANTS[name]()
        try:
            yield
        finally:
            undo()
            del os.environ["C04_FRESH_MUTANT"]

    # built eagerly: a source text that no longer matches must fail the selftest, not count as a caught mutant
    _sm0 = _src_mutant(J.JaggedArray.__init__, "offset += numpyArray.size", "offset += len(numpyArray)")
    _sm1 = _src_mutant(SG.StructuredGrid.reduce, "None if not self._offset.any() else tuple(self._offset)", "tuple(self._offset) if (self._offset > 0).any() else None")
    _sm2 = _src_mutant(L.Layout._createLayout, "comp.material.__class__.__name__", "comp.material.name")
    _sm3 = _src_mutant(C.Component.finalizeLoadingFromDB, "self.material.adjustTD(self.p.theoreticalDensityFrac)", "self.p.theoreticalDensityFrac != 1.0 and self.material.adjustTD(self.p.theoreticalDensityFrac)")
    _sm4 = _src_mutant(AS.Assembly.moveTo, "        self.p.daysSinceLastMove = 0.0\n", "    self.p.daysSinceLastMove = 0.0\n")
    _sm5 = _src_mutant(D.Database.loadReadOnly, "self.load(cycle, node, statePointName=statePointName, allowMissing=True)", "self.load(cycle, node, allowMissing=True)")
    from armi.bookkeeping.db import databaseInterface as DI

    _sm6 = _src_mutant(L.Layout._createLayout, "if comp.spatialGrid is not None:", "if comp.spatialGrid:")
    _sm7 = _src_mutant(DI.DatabaseInterface._getLoadDB, """        if self._db is not None:
            yield self._db
        if os.path.exists(self.cs["reloadDBName"]):
            yield Database(self.cs["reloadDBName"], "r")""", """        if os.path.exists(self.cs["reloadDBName"]):
            yield Database(self.cs["reloadDBName"], "r")
        if self._db is not None:
            yield self._db""")
    _sm8 = _src_mutant(D.Database.load, "numNodes = getNodesPerCycle(cs)[cycle]", "numNodes = getNodesPerCycle(cs)[cycle - 1]")
    P = patched
    mutants = [
        ("round 3 seed 1: FlagSerializer reads bit fields directly when the SET of flag names is equal", lambda: fresh_process_mutant("flags_set_equal")),
        ("round 3 seed 3: _createLayout tests the truth of the grid (an empty grid is falsy)", lambda: P(L.Layout, "_createLayout", _sm6)),
        ("round 3 seed 4: _getLoadDB offers the reload database before the case's own", lambda: P(DI.DatabaseInterface, "_getLoadDB", _sm7)),
        ("round 3 seed 5: Database.load counts a negative node with the previous cycle's length", lambda: P(D.Database, "load", _sm8)),
        ("seed 1: JaggedArray advances its offset by len(array) instead of array.size", lambda: P(
            J.JaggedArray, "__init__", _sm0)),
        ("seed 2: StructuredGrid.reduce keeps an offset only if a component is positive", lambda: P(
            SG.StructuredGrid, "reduce", _sm1)),
        ("seed 4: the layout stores material.name instead of the material's class name", lambda: P(
            L.Layout, "_createLayout", _sm2)),
        ("seed 5: _readParams bypasses the parameter properties (no assigned flags after a load)", lambda: fresh_process_mutant("readparams_setattr")),
        ("round 2 seed 3: finalizeLoadingFromDB skips adjustTD for a stored fraction of 1.0", lambda: P(
            C.Component, "finalizeLoadingFromDB", _sm3)),
        ("round 2 seed 4: Assembly.moveTo resets daysSinceLastMove also on a database load", lambda: P(
            AS.Assembly, "moveTo", _sm4)),
        ("round 2 seed 5: loadReadOnly does not forward the state point name", lambda: P(
            D.Database, "loadReadOnly", _sm5)),
        ("_packLocationsV3 stores local instead of complete indices", lambda: P(L, "_packLocationsV3", L._packLocationsV2)),
        ("_packLocationsV3 labels free coordinates as grid indices", lambda: P(L, "_packLocationsV3", pack_coord_as_index)),
        ("_unpackLocationsV2 returns multi-index sub-locations reversed", lambda: P(L, "_unpackLocationsV2", unpack_reversed_multi)),
        ("_createLayout does not sort the children", lambda: P(L.Layout, "_createLayout", create_layout(nosort=True))),
        ("_createLayout deduplicates grids by class only", lambda: P(L.Layout, "_createLayout", create_layout(grid_by_type=True))),
        ("_createLayout counts indexInData over all types", lambda: P(L.Layout, "_createLayout", create_layout(shared_index=True))),
        ("_createLayout writes (Thot, Thot) as temperatures", lambda: P(L.Layout, "_createLayout", create_layout(hot_twice=True))),
        ("_readLayout swaps Tinput and Thot", lambda: P(L.Layout, "_readLayout", read_layout_swaps_temperatures)),
        ("_writeParams skips parameters that have a serializer (flags)", lambda: P(parameters.ParameterDefinitionCollection, "toWriteToDB", to_write_skips_serialized)),
        ("_writeParams skips parameters named p*/b*", lambda: P(parameters.ParameterDefinitionCollection, "toWriteToDB", to_write_skips_power_like)),
        ("linked dimensions are not re-resolved on load", lambda: P(D.Database, "load", load_without_links)),
        ("StructuredGrid.reduce drops the symmetry", lambda: P(SG.StructuredGrid, "reduce", reduce_drops_symmetry)),
        ("StructuredGrid.reduce drops the offset", lambda: P(SG.StructuredGrid, "reduce", reduce_drops_offset)),
    ]
    try:
        return run_mutants(mutants, detect)
    finally:
        _SELFTEST = False


if __name__ == "__main__":
    import sys

    if len(sys.argv) == 4 and sys.argv[1] == "--fresh":
        sys.exit(fresh_main(sys.argv[2], sys.argv[3]))
