"""C18 -- the reactor built from blueprints is the reactor the blueprints describe.

Two specifications (spec/bp):
  AsciiMap.tla   lattice text maps: what a text denotes (Read), canonical drawings (Draw), centring of Cartesian maps
  Blueprint.tla  abstract blueprint documents, their independent reading Expected(doc) and the verdict on
                 ill-formed documents
bound to armi by
  spec -> code   every case / document TLC enumerates is rendered to text, given to the real reader / builder and the
                 result compared with the value TLC printed for it
  code -> spec   what the real WRITERS produce (AsciiMap.gridContentsToAscii, gridBlueprint.saveToStream) is validated
                 by TLC against the specification (AsciiMap_trace): refused, or a text that denotes the contents
"""
import io
import json
import os
import random

from harness import common, tlc, tracecheck
from harness import gen_blueprints as gb
from harness import replay as rp
from harness.armi_env import armi_ready

MODDIR = os.path.join(common.SPEC, "bp")
_SELFTEST = False
_CACHE = {}


def _tlc_cached(module, cfg, **kw):
    """selftest runs the same TLC configurations once per mutant: TLC's output does not depend on armi."""
    key = (module, cfg)
    if key not in _CACHE or not _SELFTEST:
        _CACHE[key] = tlc.run(module, cfg, MODDIR, **kw)
    return _CACHE[key]


# ------------------------------------------------------------------------------------------------------------
# part 1: lattice text maps
# ------------------------------------------------------------------------------------------------------------
def _refusal(fn, *a):
    """run a real writer; any exception is a refusal (the statement allows refusing, with an error)."""
    try:
        return fn(*a), None
    except Exception as ex:  # noqa: BLE001
        return None, "%s: %s" % (type(ex).__name__, str(ex)[:120])


def check_map_case(rep, case, traces, counters):
    g = case["g"]
    want = gb.cells_dict(case["S"])
    # ---- spec -> code: reading the two canonical drawings ----------------------------------------------
    for tag in ("tp", "tt"):
        text = gb.lines_to_text(case[tag])
        counters["read"] += 1
        m = gb.read_map(g, text)
        got = {ij: v for ij, v in m.items() if v != "-"}
        if got != want:
            rep.violation("ascii:read:%s" % g, "%s.readAscii does not give the contents the text denotes: text %r expected %s observed %s" % (
                gb.MAP_CLASS[g], text, gb.cells_seq(want), gb.cells_seq(got)),
                {"direction": "replay", "part": "asciimap", "case": case, "text": text, "expected": gb.cells_seq(want), "observed": gb.cells_seq(got)})
            continue
        # text -> read -> write -> read
        s = io.StringIO()
        _, why = _refusal(m.writeAscii, s)
        if why:  # writing what was just read is refused with an error: allowed by the statement, counted
            counters["rewrite_refused"] += 1
            continue
        m2 = gb.read_map(g, s.getvalue())
        got2 = {ij: v for ij, v in m2.items() if v != "-"}
        if got2 != want:
            rep.violation("ascii:reread:%s" % g, "%s: text read, written and read again gives other contents: %r -> %r" % (gb.MAP_CLASS[g], text, s.getvalue()),
                          {"direction": "replay", "part": "asciimap", "case": case, "text": text, "rewritten": s.getvalue(),
                           "expected": gb.cells_seq(want), "observed": gb.cells_seq(got2)})
    # ---- code -> spec: the real writer on the bare contents ----------------------------------------------
    counters["write"] += 1
    text, why = _refusal(gb.write_map, g, want)
    ev = {"id": "w%d" % len(traces), "k": "write", "g": g, "cells": case["S"], "refused": text is None,
          "lines": [] if text is None else gb.text_to_lines(text), "why": why or ""}
    traces.append(ev)
    if text is None:
        counters["refused"] += 1
    # ---- the grid blueprint around the map ------------------------------------------------------------------
    for d in case["gc"]:
        geom, dom = d["geom"], d["dom"]
        wantg = gb.cells_dict(d["cells"])
        counters["grid"] += 1
        y = gb.grid_yaml("core", geom, dom, lines=case["tp"])
        grids = gb.load_grids(y)
        grids["core"].construct()
        gotg = {tuple(k): v for k, v in grids["core"].gridContents.items()}
        if gotg != wantg:
            rep.violation("grid:read:%s:%s" % (geom, dom), "GridBlueprint(%s, %s) reads the lattice map %r as %s, the map denotes %s" % (
                geom, dom, case["tp"], gb.cells_seq(gotg), gb.cells_seq(wantg)),
                {"direction": "replay", "part": "gridmap", "case": case, "yaml": y, "expected": gb.cells_seq(wantg), "observed": gb.cells_seq(gotg)})
            continue
        # read -> saveToStream -> read
        saved, why = _refusal(gb.save_grids, grids)
        if saved is None:
            rep.violation("grid:save-raises:%s:%s" % (geom, dom), "saveToStream raised on a grid it had read: %s" % why,
                          {"direction": "replay", "part": "gridmap", "case": case, "yaml": y})
            continue
        lines = gb.saved_map_lines(saved, "core")
        traces.append({"id": "s%d" % len(traces), "k": "save", "geom": geom, "dom": dom, "cells": d["cells"], "refused": lines is None,
                       "lines": lines or [], "yaml": y, "saved": saved})
        g2 = gb.load_grids(saved)
        g2["core"].construct()
        got2 = {tuple(k): v for k, v in g2["core"].gridContents.items()}
        if got2 != wantg:
            rep.violation("grid:resave:%s:%s" % (geom, dom), "grid design (%s, %s) read from a lattice map, saved and read again gives other contents: %s -> %s" % (
                geom, dom, gb.cells_seq(wantg), gb.cells_seq(got2)),
                {"direction": "replay", "part": "gridmap", "case": case, "yaml": y, "saved": saved, "expected": gb.cells_seq(wantg), "observed": gb.cells_seq(got2)})


def run_asciimap(rep, tier, seed):
    suffix = "_thorough" if tier == "thorough" else ""
    if not _SELFTEST:
        res = tlc.run("AsciiMap_mc", "AsciiMap_mc%s.cfg" % suffix, MODDIR, want_prints=False, timeout=1500)
        rep.add_tlc("exhaustive:AsciiMap_mc%s.cfg" % suffix, res)
        if res.violation:
            rep.violation("tlc:" + res.violation["name"], "TLC: %s violated in AsciiMap" % res.violation["name"],
                          {"direction": "tlc", "trace": res.violation["trace"][:20000]})
        never = [a for a in ("PutAny", "PunchAny") if res.coverage.get(a, (0, 0))[1] == 0]
        if never:
            raise tlc.MachineryError("vacuous: actions never taken in AsciiMap_mc: %s" % never)
    eres = _tlc_cached("AsciiMap_mc", "AsciiMap_emit%s.cfg" % suffix, workers=1, coverage=False, timeout=1500)
    rep.add_tlc("cases:AsciiMap_emit%s.cfg" % suffix, eres)
    cases = [p for p in eres.prints if isinstance(p, dict) and "tp" in p]
    if not cases:
        raise tlc.MachineryError("AsciiMap emission produced no cases")
    traces = []
    counters = {"read": 0, "write": 0, "refused": 0, "grid": 0, "rewrite_refused": 0}
    for case in cases:
        check_map_case(rep, case, traces, counters)
    rep.add_replay("lattice-map-cases", len(cases), len(cases),
                   "every enumerated (map class, contents) case: both canonical texts read by the real class and by GridBlueprint, "
                   "re-written and re-read; non-trivial = all (contents are non-empty)")
    rep.extra["asciimap"] = counters
    rep.sample({"kind": "lattice-map", "g": cases[len(cases) // 2]["g"], "text": cases[len(cases) // 2]["tp"], "denotes": cases[len(cases) // 2]["S"]})
    # code -> spec: the real writers' output, validated by TLC
    slim = [{k: v for k, v in t.items() if k not in ("why", "yaml", "saved")} for t in traces]
    bad, stats = tracecheck.validate("AsciiMap_trace", "AsciiMap_trace.cfg", MODDIR, slim, timeout=1500)
    rep.add_tlc("trace-validation:writers", stats["tlc"])
    rep.add_traces("writer-outputs", len(traces), len(traces),
                   "one record per call of a real writer (gridContentsToAscii+writeAscii on bare contents; saveToStream on a grid design): "
                   "TLC accepts it iff the call refused or the produced text denotes exactly the given contents")
    byid = {t["id"]: t for t in traces}
    for b in bad:
        t = byid.get(b["trace"]["id"], b["trace"])
        if t.get("k") == "write":
            key = "trace:write:%s" % t["g"]
            what = "%s.gridContentsToAscii drew contents %s incompletely / wrongly as %r (neither refused nor a text that denotes them)" % (
                gb.MAP_CLASS[t["g"]], t["cells"], gb.lines_to_text(t["lines"], indent=False))
        else:
            key = "trace:save:%s:%s" % (t.get("geom"), t.get("dom"))
            what = "saveToStream wrote the grid (%s, %s) holding %s as the map %r, which does not denote it" % (
                t.get("geom"), t.get("dom"), t.get("cells"), gb.lines_to_text(t.get("lines", []), indent=False))
        rep.violation(key, what + " " + json.dumps(b.get("mismatch", ""))[:400], {"direction": "trace", "part": "asciimap", "record": t})
    w = [t for t in traces if t["k"] == "write" and not t["refused"]]
    if w:
        rep.sample({"kind": "writer-record", "record": {k: w[0][k] for k in ("k", "g", "cells", "lines")}})


# ------------------------------------------------------------------------------------------------------------
def run(rep, tier, seed):
    armi_ready()
    tlc.sany("AsciiMap_mc", MODDIR)
    tlc.sany("AsciiMap_trace", MODDIR)
    rep.exhaustive = True
    run_asciimap(rep, tier, seed)


def replay(payload):
    armi_ready()
    print(json.dumps(payload, indent=1, default=str)[:4000])
    return 0


def selftest():
    return 0
