"""C18 -- the reactor built from blueprints is the reactor the blueprints describe.

Two specifications (spec/bp):
  AsciiMap.tla   lattice text maps: what a text denotes (Read), canonical drawings (Draw), centring of Cartesian maps
  Blueprint.tla  abstract blueprint documents, their independent reading Expected(doc) and the verdict on
                 ill-formed documents
bound to armi by
  spec -> code   every case / document TLC enumerates is rendered to text, given to the real reader / builder and the
                 result compared with the value TLC printed for it
  code -> spec   what the real WRITERS produce (AsciiMap.gridContentsToAscii, gridBlueprint.saveToStream) is validated
                 by TLC against the specification (AsciiMap_trace): refused, or a text that denotes the contents
"""
import io
import json
import os
import random

from harness import common, tlc, tracecheck
from harness import gen_blueprints as gb
from harness import replay as rp
from harness.armi_env import armi_ready

MODDIR = os.path.join(common.SPEC, "bp")
_SELFTEST = False
_CACHE = {}


def _family_cfg(wd, cfg, fam):
    """the emission configuration restricted to one family of documents (same file, Families = {fam}), written into the work dir"""
    import re

    text = open(os.path.join(MODDIR, cfg)).read()
    text, n = re.subn(r"CONSTANT Families = \{[^}]*\}", 'CONSTANT Families = {"%s"}' % fam, text)
    if n != 1:
        raise tlc.MachineryError("cannot restrict %s to family %s" % (cfg, fam))
    name = cfg.replace(".cfg", "_%s.cfg" % fam)
    with open(os.path.join(wd, name), "w") as f:
        f.write(text)
    return name


def _prefetch(tier):
    """The emission runs are independent single-worker TLC processes (one per specification / family of documents):
    start them together.  Results land in the cache the two parts read from."""
    from concurrent.futures import ThreadPoolExecutor

    suffix = "_thorough" if tier == "thorough" else ""
    jobs = []
    if ("AsciiMap_mc", "AsciiMap_emit%s.cfg" % suffix) not in _CACHE or not _SELFTEST:
        jobs.append((("AsciiMap_mc", "AsciiMap_emit%s.cfg" % suffix), dict(workers=1, coverage=True, timeout=1500), None))
    for fam in FAMILIES:
        key = ("Blueprint_mc", "Blueprint_emit%s.cfg" % suffix, fam)
        if key not in _CACHE or not _SELFTEST:
            jobs.append((key, dict(workers=1, coverage=False, timeout=3000), fam))

    def one(job):
        key, kw, fam = job
        if key[0] == "sany":
            return key, tlc.sany(key[1], MODDIR)
        if fam is None:
            return key, tlc.run(key[0], key[1], MODDIR, **kw)
        wd = common.workdir("tlc")
        return key, tlc.run(key[0], _family_cfg(wd, key[1], fam), MODDIR, wd=wd, **kw)

    if not _SELFTEST:
        jobs += [(("sany", m), None, None) for m in ("AsciiMap_mc", "AsciiMap_trace", "Blueprint_mc")]
    if jobs:
        ex = ThreadPoolExecutor(max_workers=len(jobs))
        for job in jobs:
            _PENDING[job[0]] = ex.submit(one, job)
        ex.shutdown(wait=False)


_PENDING = {}


def _result(key):
    """the TLC result for `key`: waits for that run only, so checking the lattice maps overlaps with the remaining TLC runs"""
    if key in _PENDING:
        _CACHE[key] = _PENDING.pop(key).result()[1]
    return _CACHE[key]


def _join_prefetch():
    for key in list(_PENDING):
        _result(key)


def _tlc_cached(module, cfg, **kw):
    """selftest runs the same TLC configurations once per mutant: TLC's output does not depend on armi."""
    key = (module, cfg)
    if key not in _CACHE or not _SELFTEST:
        _CACHE[key] = tlc.run(module, cfg, MODDIR, **kw)
    return _CACHE[key]


# ------------------------------------------------------------------------------------------------------------
# part 1: lattice text maps
# ------------------------------------------------------------------------------------------------------------
def _refusal(fn, *a):
    """run a real writer; any exception is a refusal (the statement allows refusing, with an error)."""
    try:
        return fn(*a), None
    except Exception as ex:  # noqa: BLE001
        return None, "%s: %s" % (type(ex).__name__, str(ex)[:120])


def check_map_case(rep, case, traces, counters):
    g = case["g"]
    want = gb.cells_dict(case["S"])
    # ---- spec -> code: reading the two canonical drawings ----------------------------------------------
    for tag in ("tp", "tt"):
        text = gb.lines_to_text(case[tag])
        counters["read"] += 1
        m = gb.read_map(g, text)
        got = {ij: v for ij, v in m.items() if v != "-"}
        if got != want:
            rep.violation("ascii:read:%s" % g, "%s.readAscii does not give the contents the text denotes: text %r expected %s observed %s" % (
                gb.MAP_CLASS[g], text, gb.cells_seq(want), gb.cells_seq(got)),
                {"direction": "replay", "part": "asciimap", "case": case, "text": text, "expected": gb.cells_seq(want), "observed": gb.cells_seq(got)})
            continue
        # text -> read -> write -> read
        s = io.StringIO()
        _, why = _refusal(m.writeAscii, s)
        if why:  # writing what was just read is refused with an error: allowed by the statement, counted ...
            counters["rewrite_refused"] += 1
            if case["complete"]:  # ... but not for the complete map of a geometry: then nothing would be "supported"
                rep.violation("ascii:refuses-complete-map:%s" % g, "%s refuses to write the complete map it has just read: %s" % (gb.MAP_CLASS[g], why),
                              {"direction": "replay", "part": "asciimap", "case": case, "text": text})
            continue
        m2 = gb.read_map(g, s.getvalue())
        got2 = {ij: v for ij, v in m2.items() if v != "-"}
        if got2 != want:
            rep.violation("ascii:reread:%s" % g, "%s: text read, written and read again gives other contents: %r -> %r" % (gb.MAP_CLASS[g], text, s.getvalue()),
                          {"direction": "replay", "part": "asciimap", "case": case, "text": text, "rewritten": s.getvalue(),
                           "expected": gb.cells_seq(want), "observed": gb.cells_seq(got2)})
    # ---- code -> spec: the real writer on the bare contents ----------------------------------------------
    counters["write"] += 1
    text, why = _refusal(gb.write_map, g, want)
    cls = "complete" if case["complete"] else "holes" if case["dense"] else "sparse"
    ev = {"id": "w%d" % len(traces), "k": "write", "g": g, "cls": cls, "cells": case["S"], "refused": text is None,
          "lines": [] if text is None else gb.text_to_lines(text), "why": why or ""}
    traces.append(ev)
    if text is None:
        counters["refused"] += 1
        if case["complete"]:
            rep.violation("ascii:refuses-complete-map:%s" % g, "%s.gridContentsToAscii refuses the complete map: %s" % (gb.MAP_CLASS[g], why),
                          {"direction": "replay", "part": "asciimap", "case": case})
    # ---- the grid blueprint around the map ------------------------------------------------------------------
    for d in case["gc"]:
        geom, dom = d["geom"], d["dom"]
        wantg = gb.cells_dict(d["cells"])
        counters["grid"] += 1
        y = gb.grid_yaml("core", geom, dom, lines=case["tp"])
        grids = gb.load_grids(y)
        grids["core"].construct()
        gotg = {tuple(k): v for k, v in grids["core"].gridContents.items()}
        if gotg != wantg:
            rep.violation("grid:read:%s:%s" % (geom, dom), "GridBlueprint(%s, %s) reads the lattice map %r as %s, the map denotes %s" % (
                geom, dom, case["tp"], gb.cells_seq(gotg), gb.cells_seq(wantg)),
                {"direction": "replay", "part": "gridmap", "case": case, "yaml": y, "expected": gb.cells_seq(wantg), "observed": gb.cells_seq(gotg)})
            continue
        # read -> saveToStream -> read
        saved, why = _refusal(gb.save_grids, grids)
        if saved is None:  # a refusal with an error (allowed, counted) -- except for the complete map of the geometry
            counters["save_refused"] += 1
            if case["complete"]:
                rep.violation("grid:refuses-complete-map:%s:%s" % (geom, dom), "saveToStream raised on the complete map it had read: %s" % why,
                              {"direction": "replay", "part": "gridmap", "case": case, "yaml": y})
            continue
        lines = gb.saved_map_lines(saved, "core")
        traces.append({"id": "s%d" % len(traces), "k": "save", "geom": geom, "dom": dom, "cls": cls, "cells": d["cells"], "refused": lines is None,
                       "lines": lines or [], "yaml": y, "saved": saved})
        g2 = gb.load_grids(saved)
        g2["core"].construct()
        got2 = {tuple(k): v for k, v in g2["core"].gridContents.items()}
        if got2 != wantg:
            rep.violation("save:%s:%s:%s" % (geom, dom, cls), "grid design (%s, %s) read from a lattice map, saved and read again gives other contents: %s -> %s" % (
                geom, dom, gb.cells_seq(wantg), gb.cells_seq(got2)),
                {"direction": "replay", "part": "gridmap", "case": case, "yaml": y, "saved": saved, "expected": gb.cells_seq(wantg), "observed": gb.cells_seq(got2)})


def _verdict_of_tlc(rep, res, spec, actions):
    if res.violation:
        rep.violation("tlc:" + res.violation["name"], "TLC: %s violated in %s" % (res.violation["name"], spec),
                      {"direction": "tlc", "trace": res.violation["trace"][:20000]})
    never = [a for a in actions if res.coverage.get(a, (0, 0))[1] == 0]
    if never:
        raise tlc.MachineryError("vacuous: actions never taken in %s: %s" % (spec, never))


def run_asciimap(rep, tier, seed):
    suffix = "_thorough" if tier == "thorough" else ""
    # quick: the emission configuration carries every invariant and is the exhaustive run; thorough adds a larger one
    if not _SELFTEST and tier == "thorough":
        res = tlc.run("AsciiMap_mc", "AsciiMap_mc%s.cfg" % suffix, MODDIR, want_prints=False, timeout=1500)
        rep.add_tlc("exhaustive:AsciiMap_mc%s.cfg" % suffix, res)
        if res.violation:
            rep.violation("tlc:" + res.violation["name"], "TLC: %s violated in AsciiMap" % res.violation["name"],
                          {"direction": "tlc", "trace": res.violation["trace"][:20000]})
        never = [a for a in ("PutAny", "PunchAny") if res.coverage.get(a, (0, 0))[1] == 0]
        if never:
            raise tlc.MachineryError("vacuous: actions never taken in AsciiMap_mc: %s" % never)
    for m in ("AsciiMap_mc", "AsciiMap_trace", "Blueprint_mc"):
        if ("sany", m) in _PENDING:
            _result(("sany", m))
    eres = _result(("AsciiMap_mc", "AsciiMap_emit%s.cfg" % suffix))
    rep.add_tlc("cases:AsciiMap_emit%s.cfg" % suffix, eres)
    _verdict_of_tlc(rep, eres, "AsciiMap", ("PutAny", "PunchAny"))
    cases = [p for p in eres.prints if isinstance(p, dict) and "tp" in p]
    if not cases:
        raise tlc.MachineryError("AsciiMap emission produced no cases")
    traces = []
    counters = {"read": 0, "write": 0, "refused": 0, "grid": 0, "rewrite_refused": 0, "save_refused": 0}
    for case in cases:
        check_map_case(rep, case, traces, counters)
    rep.add_replay("lattice-map-cases", len(cases), len(cases),
                   "every enumerated (map class, contents) case: both canonical texts read by the real class and by GridBlueprint, "
                   "re-written and re-read; non-trivial = all (contents are non-empty)")
    rep.extra["asciimap"] = counters
    rep.sample({"kind": "lattice-map", "g": cases[len(cases) // 2]["g"], "text": cases[len(cases) // 2]["tp"], "denotes": cases[len(cases) // 2]["S"]})
    # code -> spec: the real writers' output, validated by TLC
    stats = _validate_writer_records(rep, traces)
    rep.add_tlc("trace-validation:writers", stats["tlc"])
    rep.add_traces("writer-outputs", len(traces), len(traces),
                   "one record per call of a real writer (gridContentsToAscii+writeAscii on bare contents; saveToStream on a grid design): "
                   "TLC accepts it iff the call refused or the produced text denotes exactly the given contents")
    w = [t for t in traces if t["k"] == "write" and not t["refused"]]
    if w:
        rep.sample({"kind": "writer-record", "record": {k: w[0][k] for k in ("k", "g", "cells", "lines")}})


# ------------------------------------------------------------------------------------------------------------
# part 2: blueprint documents
# ------------------------------------------------------------------------------------------------------------
RTOL = 1e-9  # compositions and dimensions are a handful of double operations away from the input numbers
FAMILIES = ("links", "comp", "stack", "pins", "core", "duct", "group")
# every edit of Blueprint.tla must occur in the emitted documents (non-vacuity; TLC's -coverage is not usable on this
# module: its cost model inlines the nested operators and does not finish)
EDITS = ("SetLink", "SetNum", "AddBond", "DropComp", "SwapComps", "RenameComp", "SetShape", "SetTemps", "SetIsotopics", "SetMod", "ShortMod",
         "DupIsotopics", "SetBlend", "MemberMult", "GroupMult", "GroupName", "SetModPair", "LongMod", "SetXs", "DuctEdit", "PinCount", "SwapDucts", "DropDuct", "SwapBlocks", "SwapList", "Shorten", "Lengthen", "Respecify", "RenameAsm", "RenameBlock", "SetHeight",
         "PlaceStack", "PlacePin", "PinMode", "PinMult", "PinIds", "PinGridName", "Place", "Unplace", "DupGrid", "ListTwice")


def _ratmap(pairs):
    """a nuclide listed with a zero fraction / density is a nuclide that is absent"""
    return {n: gb.fl(v) for n, v in pairs if v[0] != 0}


def normalise_expected_comp(c):
    """JSON shape only: TLC prints empty functions as [], rationals as [n, d], sets in its own order."""
    c = dict(c)
    if c["shape"] == "Group":
        c["nmembers"] = len(c["members"])
        c["members"] = {m["name"]: normalise_expected_comp(dict(m, links=[], comp={})) for m in c["members"]}
        return c
    c["dims"] = {k: float(v) for k, v in gb._obj(c["dims"]).items()}
    c["links"] = sorted([d, t[0], t[1]] for d, t in gb._obj(c["links"]).items())
    c["ti"], c["th"] = float(c["ti"]), float(c["th"])
    if "mult" in c:
        c["mult"] = float(c["mult"])
    comp = {}
    for k, v in c["comp"].items():
        if k in ("nd", "md", "nf", "mf"):
            comp[k] = _ratmap(v)
            comp["nuclides"] = sorted(comp[k])
        elif k == "hmf":
            comp[k] = _ratmap(v)
            comp["hmnuclides"] = sorted(comp[k])
        elif k in ("rho", "enr", "zr"):
            comp[k] = gb.fl(v)
    c["comp"] = comp
    return c


def normalise_expected_asm(a):
    a = dict(a)
    a["flags"] = sorted(a["flags"])
    blocks = []
    for k, b in enumerate(a["blocks"]):
        b = dict(b)
        b["flags"] = sorted(b["flags"])
        for f in ("height", "zbot", "ztop"):
            b[f] = float(b[f])
        b["k"] = k
        b["ncomps"] = len(b["comps"])
        b["comps"] = {c["name"]: normalise_expected_comp(c) for c in b["comps"]}
        blocks.append(b)
    a["blocks"] = blocks
    return a


def compare_reactor(exp, proj):
    """first difference between Expected(doc) and the projection of the real reactor, as (where, text); None if none."""
    want_cells = {"%d,%d" % (i, j): s for i, j, s in exp["core"]}
    if set(want_cells) != set(proj["asm"]):
        return "core.cells", "cells named by the core map %s, cells holding an assembly %s" % (sorted(want_cells), sorted(proj["asm"]))
    for cell, s in sorted(want_cells.items()):
        here = proj["asm"][cell]
        if len(here) != 1:
            return "core.cells", "%d assemblies at cell %s" % (len(here), cell)
        d = rp.diff(normalise_expected_asm(exp["asm"][s]), here[0], rtol=RTOL)
        if d:
            return "asm" + d.split(":")[0], "at cell %s (specifier %s) %s" % (cell, s, d)
    d = rp.diff([float(z) for z in exp["mesh"]], proj["mesh"])
    if d:
        return "core.mesh", d
    n = exp["nasm"]
    book = proj["book"]
    want = {"children": n, "byName": n, "byLocator": n, "blocksByName": book["nblocks"], "parents": True, "namesUnique": True}
    d = rp.diff(want, book)
    if d:
        return "core.book" + d.split(":")[0], d
    return None


def _strip_where(w):
    import re

    return re.sub(r"\[\d+\]", "", w)


def check_document(rep, p, counters, twice):
    doc, verdict, fam = p["doc"], p["verdict"], p["fam"]
    text = gb.render(doc)
    payload = {"direction": "replay", "part": "blueprint", "p": p, "yaml": text}
    try:
        r = gb.build_reactor(text)
        err = None
    except Exception as ex:  # noqa: BLE001  a refusal; whether it is the right outcome is decided below
        r, err = None, "%s: %s" % (type(ex).__name__, str(ex)[:200].replace("\n", " "))
    if verdict != "ok":
        counters["refusals"] += 1
        if r is not None:
            why = p.get("why") or p["act"]["n"]
            rep.violation("refuse:%s:%s" % (verdict, why),
                          "an inconsistent blueprint (%s: %s; last edit %s) was not refused: a reactor with %d assemblies was built" % (
                              verdict, why, json.dumps(p["act"]), len(r.core)), dict(payload, expected="refused with an error", observed="built"))
        return
    counters["built"] += 1
    if r is None:
        rep.violation("build:%s:raises:%s" % (fam, err.split(":")[0]), "a well-formed blueprint (%s family, last edit %s) was refused: %s" % (
            fam, json.dumps(p["act"]), err), dict(payload, expected=p["exp"], observed=err))
        return
    proj = gb.project_reactor(r)
    d = compare_reactor(p["exp"], proj)
    if d:
        rep.violation("build:%s:%s" % (fam, _strip_where(d[0])), "the reactor built from a %s-family blueprint (last edit %s) is not the one described: %s" % (
            fam, json.dumps(p["act"]), d[1]), dict(payload, expected=p["exp"], observed=proj, first_difference=d[1]))
        return
    if twice:
        counters["twice"] += 1
        try:
            proj2 = gb.project_reactor(gb.build_reactor(text))
        except Exception as ex:  # noqa: BLE001
            proj2 = {"exception": "%s: %s" % (type(ex).__name__, str(ex)[:200])}
        if json.dumps(proj, sort_keys=True) != json.dumps(proj2, sort_keys=True):
            rep.violation("determinism:%s" % fam, "building the same blueprint text twice gives different reactors: %s" % rp.diff(proj, proj2, rtol=0, atol=0),
                          dict(payload, first=proj, second=proj2))


CAP = {"quick": 250, "thorough": 2500}  # documents built per family (all of them when fewer are emitted)


def _signature(p):
    """which cooperating choices a document combines (fuel material x override, modifications: scope, key, zero / blank entries,
    list length): the composition family is sampled so that every combination that occurs is built"""
    doc = p["doc"]
    fuels = sorted({(c["mat"], c["iso"]) for b in doc["blocks"] for c in b["comps"] if c["name"] == "fuel"})
    mods = sorted((m["scope"], m["key"], any(v and v[0] == 0 for v in m["vals"]), any(not v for v in m["vals"]), len(m["vals"]),
                   sorted({str(v[0]) for v in m["vals"] if len(v) == 1}))
                  for a in doc["asms"] for m in a["mods"])
    return json.dumps([fuels, mods])


def sample_documents(docs, cap, rng):
    """at most `cap` documents per family, spread over (last edit, verdict, kind of inconsistency) classes; seeded, order-independent of TLC."""
    out = []
    for fam in FAMILIES:
        mine = [p for p in docs if p["fam"] == fam]
        if len(mine) <= cap:
            out += mine
            continue
        classes = {}
        for p in sorted(mine, key=lambda p: rp.skey(p["doc"])):
            classes.setdefault((p["act"]["n"], p["verdict"], p.get("why", ""), _signature(p) if fam == "comp" else ""), []).append(p)
        for v in classes.values():
            rng.shuffle(v)
        keys = sorted(classes)
        n = max(cap, len(keys)) if fam == "comp" else cap  # comp: at least one document of every combination
        picked = []
        while len(picked) < n:
            for k in keys:
                if classes[k] and len(picked) < n:
                    picked.append(classes[k].pop())
        out += picked
    return out


def run_blueprints(rep, tier, seed):
    thorough = tier == "thorough"
    suffix = "_thorough" if thorough else ""
    if not _SELFTEST and thorough:
        res = tlc.run("Blueprint_mc", "Blueprint_mc%s.cfg" % suffix, MODDIR, want_prints=False, coverage=False, timeout=3000)
        rep.add_tlc("exhaustive:Blueprint_mc%s.cfg" % suffix, res)
        if res.violation:
            rep.violation("tlc:" + res.violation["name"], "TLC: %s violated in Blueprint" % res.violation["name"],
                          {"direction": "tlc", "trace": res.violation["trace"][:20000]})
    docs = []
    for fam in FAMILIES:
        eres = _result(("Blueprint_mc", "Blueprint_emit%s.cfg" % suffix, fam))
        rep.add_tlc("documents:Blueprint_emit%s.cfg:%s" % (suffix, fam), eres)
        _verdict_of_tlc(rep, eres, "Blueprint", ())
        docs += [p for p in eres.prints if isinstance(p, dict) and "doc" in p]
    acts = {p["act"]["n"] for p in docs}
    never = [e for e in EDITS if e not in acts]
    if never:
        raise tlc.MachineryError("vacuous: edits never taken in Blueprint emission: %s" % never)
    verdicts = {}
    for p in docs:
        verdicts[p["verdict"]] = verdicts.get(p["verdict"], 0) + 1
    for v in ("ok", "DuplicateName", "UnequalLists", "UnknownSpecifier", "Overlap"):
        if not verdicts.get(v):
            raise tlc.MachineryError("vacuous: no emitted document has verdict %s" % v)
    counters = {"built": 0, "refusals": 0, "twice": 0}
    every = 3 if thorough else 8
    chosen = sample_documents(docs, 120 if _SELFTEST else CAP[tier], random.Random(seed))
    for k, p in enumerate(chosen):
        check_document(rep, p, counters, twice=(k % every == 0))
    counters["emitted"] = len(docs)
    docs = chosen
    rep.add_replay("blueprint-documents", len(docs), len(docs),
                   "every enumerated abstract document is rendered to YAML, loaded with Blueprints.load and built with reactors.factory; "
                   "well-formed ones are compared with Expected(doc) cell by cell, block by block, component by component, "
                   "inconsistent ones must raise; non-trivial = all")
    rep.extra["blueprints"] = dict(counters, verdicts=verdicts, families={f: sum(1 for p in docs if p["fam"] == f) for f in FAMILIES})
    oks = [p for p in docs if p["verdict"] == "ok" and p["fam"] == "links" and p["act"]["n"] == "SetLink"]
    if oks:
        rep.sample({"kind": "document", "fam": "links", "last_edit": oks[0]["act"], "yaml": gb.render(oks[0]["doc"])[:1500],
                    "expected_clad": [c for c in oks[0]["exp"]["asm"]["A"]["blocks"][0]["comps"] if c["name"] == oks[0]["act"]["c"]]})


# ------------------------------------------------------------------------------------------------------------
def run(rep, tier, seed):
    armi_ready()
    gb.quiet()
    rep.exhaustive = True
    _prefetch(tier)
    try:
        run_asciimap(rep, tier, seed)
        run_blueprints(rep, tier, seed)
    finally:
        _join_prefetch()
    rep.assume(
        "a text map is a picture of the lattice in armi's own grid coordinates (rows = equal Y, top first; tokens = increasing X); the drawing "
        "regions (quadrant, first third without the 120-degree edge, left-padded hexagons) are transcribed from the asciimaps docstrings",
        "a writer may refuse (raise) any contents except the complete map of a geometry; any exception counts as a refusal",
        "default case settings (inputHeightsConsideredHot, uniform axial mesh: block tops must lie on the mesh of the first longest assembly)",
        "documents avoid: cyclic links, cells on the 120-degree edge of a third core, elemental custom isotopics, component groups; "
        "pin areas are compared with the block's room by integer bounds and only clear cases are generated",
        "flags of a name = its words that are flag names; lengths in 0.01 cm; compositions in weight-free units "
        "(number densities, mass density per nuclide = N*A/0.6022, fractions), rtol 1e-9",
        "quick builds at most %d documents per family (seeded, stratified by last edit and verdict), thorough %d" % (CAP["quick"], CAP["thorough"]),
    )


def _validate_writer_records(rep, traces):
    slim = [{k: v for k, v in t.items() if k not in ("why", "yaml", "saved", "cls")} for t in traces]
    bad, stats = tracecheck.validate("AsciiMap_trace", "AsciiMap_trace.cfg", MODDIR, slim, timeout=1500)
    byid = {t["id"]: t for t in traces}
    for b in bad:
        t = byid.get(b["trace"]["id"], b["trace"])
        if t.get("k") == "write":
            key = "trace:write:%s:%s" % (t["g"], t.get("cls", ""))
            what = "%s.gridContentsToAscii drew contents %s incompletely / wrongly as %r (neither refused nor a text that denotes them)" % (
                gb.MAP_CLASS[t["g"]], t["cells"], gb.lines_to_text(t["lines"], indent=False))
        else:
            key = "save:%s:%s:%s" % (t.get("geom"), t.get("dom"), t.get("cls", ""))
            what = "saveToStream wrote the grid (%s, %s) holding %s as the map %r, which does not denote it" % (
                t.get("geom"), t.get("dom"), t.get("cells"), gb.lines_to_text(t.get("lines", []), indent=False))
        rep.violation(key, what + " " + json.dumps(b.get("mismatch", ""))[:400], {"direction": "trace", "part": "asciimap", "record": t})
    return stats


def replay(payload):
    """re-execute one reported violation against the real code (and TLC, for writer records)."""
    from harness.report import Report

    armi_ready()
    rep = Report("C18", "replay", 0)
    part = payload.get("part")
    if part == "blueprint":
        print(payload["yaml"])
        check_document(rep, payload["p"], {"built": 0, "refusals": 0, "twice": 0}, twice=True)
    elif part in ("asciimap", "gridmap") and "case" in payload:
        traces = []
        check_map_case(rep, payload["case"], traces, {"read": 0, "write": 0, "refused": 0, "grid": 0, "rewrite_refused": 0, "save_refused": 0})
        _validate_writer_records(rep, traces)
    elif "record" in payload:
        t = payload["record"]
        if t["k"] == "write":
            text, why = _refusal(gb.write_map, t["g"], gb.cells_dict(t["cells"]))
            rec = dict(t, id="w0", refused=text is None, lines=[] if text is None else gb.text_to_lines(text))
            print("contents %s\nwritten as:\n%s" % (t["cells"], text if text is not None else "refused: " + why))
        else:
            grids = gb.load_grids(t["yaml"])
            grids["core"].construct()
            saved = gb.save_grids(grids)
            lines = gb.saved_map_lines(saved, "core")
            rec = dict(t, id="s0", refused=lines is None, lines=lines or [], saved=saved)
            print("grid read from:\n%s\nsaved as:\n%s" % (t["yaml"], saved))
        _validate_writer_records(rep, [rec])
    else:
        print(json.dumps(payload, indent=1, default=str)[:4000])
        return 0
    for v in rep.violations:
        print("still diverges: %s\n  %s" % (v["key"], v["what"][:1500]))
    if not rep.violations:
        print("no divergence: the case conforms")
    return 1 if rep.violations else 0


def selftest():
    """In-process mutants of the anchored code; each must be detected by a check that is clean on the unmutated tree
    (violations the unmutated tree already shows are subtracted)."""
    global _SELFTEST
    import time

    from harness.report import Report
    from harness.selftest import patched as P

    armi_ready()
    gb.quiet()
    from armi.reactor import components
    from armi.reactor.blueprints import assemblyBlueprint, blockBlueprint, componentBlueprint, gridBlueprint, isotopicOptions, reactorBlueprint
    from armi.reactor.components.component import COMPONENT_LINK_REGEX, Component, _DimensionLink
    from armi.utils import asciimaps

    _SELFTEST = True

    def detect():
        rep = Report("C18", "quick", 0)
        run(rep, "quick", 0)
        return [v["key"] for v in rep.violations]

    # -- component construction, link resolution -----------------------------------------------------------
    def links_first_component(self, comps):
        for dimName in self.DIMENSION_NAMES:
            value = self.p[dimName]
            if isinstance(value, str):
                m = COMPONENT_LINK_REGEX.search(value)
                if m:
                    first = [c for c in comps.values() if c is not self][0]      # not the named one
                    self.p[dimName] = _DimensionLink((first if m.group(1) not in comps else comps[m.group(1)] if dimName != "id" else first, m.group(2)))

    orig_conform = componentBlueprint.ComponentBlueprint._conformKwargs

    def conform_swaps_temperatures(self, blueprint, matMods):
        kw = orig_conform(self, blueprint, matMods)
        if "Tinput" in kw and "Thot" in kw and kw.get("mult") and kw["mult"] != 1:
            kw["Tinput"], kw["Thot"] = kw["Thot"], kw["Tinput"]
        return kw

    def conform_ignores_mult_link(self, blueprint, matMods):
        kw = orig_conform(self, blueprint, matMods)
        if isinstance(kw.get("mult"), str):
            kw["mult"] = 1
        return kw

    def no_negative_area_check(self, *a):
        return None

    import contextlib

    @contextlib.contextmanager
    def overlap_checks_off():
        with P(Component, "_checkNegativeArea", no_negative_area_check), P(Component, "_checkNegativeVolume", no_negative_area_check):
            yield

    @contextlib.contextmanager
    def writer_drops_and_no_readback():
        with P(asciimaps.AsciiMap, "_removeTrailingPlaceholders", staticmethod(trailing_placeholders_kept_off_by_one)), \
                P(asciimaps.AsciiMap, "_checkAsciiReadsBackToData", lambda self: None):
            yield

    def tips_write_shifted(self, columnNum, lineNum):
        iBase, jBase = self._getIJBaseByAsciiLine(lineNum)
        return self._getIJFromColAndBase(columnNum + (1 if lineNum == 1 else 0), iBase, jBase)

    def trailing_placeholders_kept_off_by_one(line):
        out = list(line)
        while len(out) > 1 and out[-1] == asciimaps.PLACEHOLDER:
            out.pop()
        return out[:-1] if len(out) > 2 and out[-2] == asciimaps.PLACEHOLDER else out

    # -- assembly stacking ----------------------------------------------------------------------------------------
    orig_create = assemblyBlueprint.AssemblyBlueprint._createBlock

    def create_block_heights_reversed(self, cs, blueprint, bDesign, axialIndex):
        b = orig_create(self, cs, blueprint, bDesign, axialIndex)
        h = self.height[len(self.blocks) - 1 - axialIndex]
        b.p.height = h
        b.p.heightBOL = h
        return b

    def create_block_xs_shifted(self, cs, blueprint, bDesign, axialIndex):
        b = orig_create(self, cs, blueprint, bDesign, axialIndex)
        b.p.xsType = self.xsTypes[(axialIndex + 1) % len(self.xsTypes)]
        return b

    def param_consistency_off(self):
        return None

    def mesh_points_plus_one(meshPoints, factor):
        return int(meshPoints) * factor + 1

    def filter_block_wins(materialInput, componentDesign):
        out, keys = {}, set()
        for component, mod in materialInput.items():
            if component == componentDesign.name:
                for k, v in mod.items():
                    keys.add(k)
                    out[k] = v
        for k, v in materialInput.get("byBlock", {}).items():      # by-block applied last: it wins
            out[k] = v
        return out, keys

    # -- lattice maps ---------------------------------------------------------------------------------------------
    orig_third_base = asciimaps.AsciiMapHexThirdFlatsUp._getIJBaseByAsciiLine

    def third_base_wrong_ray(self, n):
        i, j = orig_third_base(self, n)
        return (i + 2, j - 1) if (n - 1) % 3 == 2 else (i, j)

    def tips_base_shifted(self, n):
        shift = self._ijMax
        return -shift * 2 + n + 1, shift - n

    def cart_rows_top_down(self):
        self.asciiLabelByIndices = {}
        for li, line in enumerate(self.asciiLines):
            for ci, label in enumerate(line):
                self.asciiLabelByIndices[ci, li] = label

    orig_read_lattice = gridBlueprint.GridBlueprint._readGridContentsLattice

    def lattice_no_centring(self):
        orig_read_lattice(self)
        if self.geom == "cartesian" and "full" in self.symmetry:
            xs = [k[1] for k in self.gridContents]
            self.gridContents = {(i, j - min(xs)): v for (i, j), v in self.gridContents.items()}

    def locators_first_id_only(self, spatialGrid, latticeIDs):
        if latticeIDs is None or self.gridContents is None:
            return []
        ids = [str(i) for i in latticeIDs][:1]
        return [spatialGrid[i, j, 0] for (i, j), spec in self.gridContents.items() if spec in ids]

    # -- core population ----------------------------------------------------------------------------------------
    def load_composites_transposed(self, cs, container, gridContents, bp):
        for (i, j), spec in gridContents.items():
            container.add(bp.constructAssem(cs, specifier=spec), container.spatialGrid[j, i, 0])

    def load_composites_skips_unknown(self, cs, container, gridContents, bp):
        for (i, j), spec in gridContents.items():
            try:
                a = bp.constructAssem(cs, specifier=spec)
            except KeyError:
                continue
            container.add(a, container.spatialGrid[i, j, 0])

    # -- custom isotopics -----------------------------------------------------------------------------------------
    orig_init_mf = isotopicOptions.CustomIsotopic._initializeMassFracs

    def number_fractions_as_mass_fractions(self):
        if self.inputFormat == "number fractions":
            self.massFracs = dict(self)
            return
        orig_init_mf(self)

    orig_apply = isotopicOptions.CustomIsotopic.apply

    def apply_ignores_density(self, material):
        material.massFrac = dict(self.massFracs)

    counter = [0]
    orig_construct = componentBlueprint.ComponentBlueprint.construct

    def construct_depends_on_history(self, blueprint, matMods, hot):
        c = orig_construct(self, blueprint, matMods, hot)
        counter[0] += 1
        if counter[0] % 7 == 0 and isinstance(c, Component) and c.p.mult == 1:
            c.temperatureInC = c.temperatureInC + 1.0
        return c

    # -- the two seeded changes the first version of this check missed ------------------------------------------------
    def negative_area_only_for_solids(self, area, cold):
        import numpy as np

        if not np.isnan(area) and area < 0.0 and self.containsSolidMaterial() and not self.containsVoidMaterial():
            raise ArithmeticError("negative area")

    def swapped_zero_balance_branch():
        import inspect
        import textwrap

        from armi.materials import material

        src = textwrap.dedent(inspect.getsource(material.Material.adjustMassFrac))
        a = "massDensities[allIndicesUpdated] = (\n                1 - massFraction\n            )  # there is only one other.\n"
        b = "            massDensities[enrichedIndex] = massFraction\n"
        assert a in src and b in src, "adjustMassFrac changed: update the mutant"
        src = src.replace(a + b, b.lstrip() + "            " + a)
        ns = dict(vars(material))
        exec(src, ns)  # noqa: S102
        return P(material.Material, "adjustMassFrac", ns["adjustMassFrac"])

    # -- second seeding round: one-line changes of the real source text ------------------------------------------------
    def source_mutant(owner, name, old, new):
        """the method `owner.name` re-compiled from its own source with `old` replaced by `new` (asserts the text is there)"""
        import inspect
        import sys
        import textwrap

        fn = owner.__dict__[name]
        fn = getattr(fn, "__func__", fn)
        src = textwrap.dedent(inspect.getsource(fn))
        assert src.count(old) == 1, "%s.%s changed: update the mutant" % (owner.__name__, name)
        if isinstance(owner.__dict__[name], staticmethod):
            raise AssertionError("static methods are not supported")
        ns = dict(vars(owner if inspect.ismodule(owner) else sys.modules[owner.__module__]))
        exec(src.replace(old, new), ns)  # noqa: S102
        return P(owner, name, ns[name])

    from armi.reactor import blocks as blocksModule
    from armi.utils import densityTools as densityToolsModule

    CB, AB, BB = componentBlueprint.ComponentBlueprint, assemblyBlueprint.AssemblyBlueprint, blockBlueprint.BlockBlueprint
    mutants = [
        ("dimension links: `id` links resolve to another component", lambda: P(Component, "resolveLinkedDims", links_first_component)),
        ("Tinput / Thot swapped for pins", lambda: P(CB, "_conformKwargs", conform_swaps_temperatures)),
        ("a linked mult is ignored (mult 1)", lambda: P(CB, "_conformKwargs", conform_ignores_mult_link)),
        ("negative area / volume (overlap) checks disabled", overlap_checks_off),
        ("corners-up map WRITER: second row shifted one column", lambda: P(asciimaps.AsciiMapHexFullTipsUp, "_getIJFromColRow", tips_write_shifted)),
        ("map writer drops the last entry after an inner placeholder, read-back check off", writer_drops_and_no_readback),
        ("seed 2: negative cold area refused for solids only (fluid bond between overlapping solids)", lambda: P(Component, "_checkNegativeArea", negative_area_only_for_solids)),
        ("seed 5: adjustMassFrac zero-balance branch, assignments swapped", swapped_zero_balance_branch),
        ("round 2, seed 2: block-level modification lists that are all zero or blank are dropped", lambda: source_mutant(
            AB, "_createBlock", '"byBlock": {**self.materialModifications},',
            '"byBlock": {k: v for k, v in self.materialModifications.items() if any(v)},')),
        ("round 2, seed 3: getPinToDuctGap takes the first duct written, not the innermost", lambda: source_mutant(
            blocksModule.HexBlock, "getPinToDuctGap", "ducts = sorted(self.getChildrenWithFlags(Flags.DUCT))",
            "ducts = self.getChildrenWithFlags(Flags.DUCT)")),
        ("round 2, seed 4: xs type upper-cased", lambda: source_mutant(
            AB, "_createBlock", "xsType = self.xsTypes[axialIndex]", "xsType = str(self.xsTypes[axialIndex]).strip().upper()")),
        ("round 2, seed 5: by-component lists filed under the component's name in the length check", lambda: source_mutant(
            AB, "_checkParamConsistency", 'paramName = f"material modifications for {modName}"',
            'paramName = f"material modifications for {id(comp)}"')),      # one entry per component: the last list wins
        ("round 3, seed 1: class1/class2 blend loops over the nuclides of the two feeds only", lambda: source_mutant(
            densityToolsModule, "applyIsotopicsMix",
            """    for nucName in (
        set(enrichedMassFracs.keys())
        .union(set(fertileMassFracs.keys()))
        .union(set(material.massFrac.keys()))
    ):""", "    for nucName in set(enrichedMassFracs.keys()).union(set(fertileMassFracs.keys())):")),
        ("round 3, seed 2: a group's mult only applied to members whose own mult is unset or 1", lambda: source_mutant(
            CB, "construct", 'component.setDimension("mult", groupedComponent.mult)',
            'component.setDimension("mult", groupedComponent.mult if component.getDimension("mult") in (None, 1.0) else component.getDimension("mult"))')),
        ("block heights applied in reversed order", lambda: P(AB, "_createBlock", create_block_heights_reversed)),
        ("xs type list shifted by one block", lambda: P(AB, "_createBlock", create_block_xs_shifted)),
        ("list-length consistency check disabled", lambda: P(AB, "_checkParamConsistency", param_consistency_off)),
        ("axial mesh points off by one", lambda: P(blockBlueprint, "_setBlueprintNumberOfAxialMeshes", mesh_points_plus_one)),
        ("by-block modification overrides by-component", lambda: P(BB, "_filterMaterialInput", staticmethod(filter_block_wins))),
        ("third-core map: wrong row base on one ray", lambda: P(asciimaps.AsciiMapHexThirdFlatsUp, "_getIJBaseByAsciiLine", third_base_wrong_ray)),
        ("corners-up map: row base shifted one column", lambda: P(asciimaps.AsciiMapHexFullTipsUp, "_getIJBaseByAsciiLine", tips_base_shifted)),
        ("Cartesian map read top-down", lambda: P(asciimaps.AsciiMapCartesian, "_asciiLinesToIndices", cart_rows_top_down)),
        ("full Cartesian map not centred in j", lambda: P(gridBlueprint.GridBlueprint, "_readGridContentsLattice", lattice_no_centring)),
        ("pin lattice: only the first latticeID is used", lambda: P(gridBlueprint.GridBlueprint, "getLocators", locators_first_id_only)),
        ("core map loaded transposed (j, i)", lambda: P(reactorBlueprint.SystemBlueprint, "_loadComposites", load_composites_transposed)),
        ("unknown specifiers in the core map skipped silently", lambda: P(reactorBlueprint.SystemBlueprint, "_loadComposites", load_composites_skips_unknown)),
        ("number fractions taken as mass fractions", lambda: P(isotopicOptions.CustomIsotopic, "_initializeMassFracs", number_fractions_as_mass_fractions)),
        ("custom isotopics density ignored", lambda: P(isotopicOptions.CustomIsotopic, "apply", apply_ignores_density)),
        ("construction depends on how many components were built before", lambda: P(CB, "construct", construct_depends_on_history)),
    ]
    try:
        t0 = time.time()
        base = detect()
        print("baseline (unmutated): %s" % ("clean" if not base else "%d findings %s" % (len(base), base)))
        missed = 0
        for label, cm in mutants:
            counter[0] = 0
            try:
                with cm():
                    found = [k for k in detect() if k not in base]
            except Exception as ex:  # noqa: BLE001
                found = ["harness-exception:%s:%s" % (type(ex).__name__, str(ex)[:80])]
            if found:
                print("caught  %-66s %s" % (label, found[:3]))
            else:
                missed += 1
                print("MISSED  %-66s" % label)
        print("selftest: %d mutants, %d missed, %.1fs" % (len(mutants), missed, time.time() - t0))
        return 0 if not missed else 1
    finally:
        _SELFTEST = False
