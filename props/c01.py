"""C01 -- composite tree: TLC exhaustive run, replay of every explored edge on real objects, trace validation."""
import copy
import json
import os
import pickle
import random

from harness import common, tlc, tracecheck
from harness import replay as rp
from harness.armi_env import armi_ready

MODDIR = os.path.join(common.SPEC, "tree")


# ------------------------------------------------------------------------------------------------------------
# adapter: generic armi.reactor.composites.Composite objects, one grid per object
# ------------------------------------------------------------------------------------------------------------
class GenericAdapter:
    name = "generic"
    typed = False
    blkgrid = False
    NBLK = 0

    def __init__(self):
        armi_ready()
        from armi.reactor import composites, grids
        from armi.reactor.flags import Flags

        self.composites, self.grids, self.Flags = composites, grids, Flags
        self.Node = _node_class()
        self.A, self.B = Flags.FUEL, Flags.CLAD

    # -- static attributes as the spec defines them ----------------------------------------------------
    def flags_of(self, o):
        f = self.Flags(0)
        if o % 2 == 1:
            f |= self.A
        if (o // 2) % 2 == 1:
            f |= self.B
        return f

    def owns_grid(self, o):
        return True

    def make(self, o):
        c = self.Node("n%d" % o)
        c.setType(("t1x", "t1", "t2")[o % 3], self.flags_of(o))
        g = self.grids.CartesianGrid.fromRectangle(1.0, 1.0)
        g.armiObject = c
        c.spatialGrid = g
        return c

    def build(self, root):
        w = {"obj": {}, "orig": {}, "err": ""}
        live = root["live"]
        for n in live:
            w["obj"][n] = self.make(n)
            w["orig"][n] = n
        return w

    def apply(self, w, a):
        O = w["obj"]
        n = a["n"]
        w["err"] = ""
        try:
            if n == "Add":
                O[a["p"]].add(O[a["c"]])
                if not self.typed:
                    O[a["c"]].moveTo(O[a["p"]].spatialGrid[a["i"], 0, 0])
            elif n in ("AddPresent", "AddWrongType"):
                O[a["p"]].add(O[a["c"]])
            elif n == "Insert":
                O[a["p"]].insert(a["k"], O[a["c"]])
                if not self.typed:
                    O[a["c"]].moveTo(O[a["p"]].spatialGrid[a["i"], 0, 0])
            elif n == "InsertPresent":
                O[a["p"]].insert(0, O[a["c"]])
            elif n in ("Remove", "RemoveAbsent"):
                O[a["p"]].remove(O[a["c"]])
            elif n == "RemoveAll":
                O[a["p"]].removeAll()
            elif n == "SetChildren":
                O[a["p"]].setChildren([O[x] for x in a["s"]])
            elif n == "MoveTo":
                c = O[a["c"]]
                g = c.parent.spatialGrid
                if self.typed and a["i"] == 1:
                    # index 1 stands for a multi-cell locator (components with multiplicity > 1)
                    ml = self.grids.MultiIndexLocation(g)
                    ml.append(g[1, 0, 0])
                    ml.append(g[2, 0, 0])
                    c.moveTo(ml)
                else:
                    c.moveTo(g[a["i"], 0, 0])
            elif n == "Sort":
                O[a["p"]].sort()
            elif n == "Reestablish":
                O[a["p"]].reestablishBlockOrder()
            elif n == "Replace":
                b, t = O[a["b"]], O[a["t"]]
                srcs = list(t)
                b.replaceBlockWithBlock(t)
                w["orig"][a["b"]] = w["orig"][a["t"]]
                news = list(b)
                if len(news) != len(a["ids"]):
                    w["copyShape"] = "replacement has %d children, template %d" % (len(news), len(a["ids"]))
                inv = {id(v): k for k, v in O.items()}
                for nid, o_old, o_new in zip(a["ids"], srcs, news):
                    O[nid] = o_new
                    w["orig"][nid] = w["orig"][inv[id(o_old)]]
            elif n in ("DeepCopy", "Pickle"):
                src = O[a["x"]]
                new = copy.deepcopy(src) if n == "DeepCopy" else pickle.loads(pickle.dumps(src))
                olds = walk(src)
                news = walk(new)
                if len(olds) != len(news) or len(news) != len(a["ids"]):
                    w["copyShape"] = "copy has %d nodes, source %d" % (len(news), len(olds))
                inv = {id(v): k for k, v in O.items()}
                for nid, o_old, o_new in zip(a["ids"], olds, news):
                    O[nid] = o_new
                    w["orig"][nid] = w["orig"][inv[id(o_old)]]
            else:
                raise AssertionError("unknown action " + n)
        except (RuntimeError, ValueError, TypeError) as ex:
            w["err"] = type(ex).__name__
        return w["err"]

    def project(self, w):
        O = w["obj"]
        live = sorted(O)
        ident = {id(v): k for k, v in O.items()}

        def nid(o):
            if o is None:
                return 0
            return ident.get(id(o), -99)

        mats = {}
        for k, v in O.items():
            m = getattr(v, "material", None)
            if m is not None:
                mats[id(m)] = -k

        def nid(o):  # noqa: F811  (materials appear in includeMaterials queries as -<component id>)
            if o is None:
                return 0
            return ident.get(id(o), mats.get(id(o), -99))

        def ids(seq):
            return [nid(o) for o in seq]

        A, B = self.A, self.B
        odd = lambda o: w["orig"].get(nid(o), 0) % 2 == 1  # noqa: E731
        par, loc, att, q = [], [], [], []
        for n in live:
            o = O[n]
            par.append(nid(o.parent))
            sl = o.spatialLocator
            att.append(bool(sl is not None and sl.grid is not None))
            if isinstance(sl, self.grids.MultiIndexLocation):
                li = sl[0].i if len(sl) else None
            elif self.typed and w["orig"][n] <= 1 + self.NBLK:
                li = getattr(sl, "k", None)  # blocks: axial index in the assembly grid
            else:
                li = getattr(sl, "i", None)
            loc.append(int(li) if li is not None and float(li) == int(li) else repr(li))
            chain = []
            x = o.parent
            while x is not None and len(chain) < 50:
                chain.append(nid(x))
                x = x.parent
            ad = o.getAncestorAndDistance(odd)
            children = ids(o.getChildren())
            alt = [ids(o), ids(o.iterChildren()), ids(o[i] for i in range(len(o)))]
            if any(v != children for v in alt) or [o.index(c) for c in o] != list(range(len(o))):
                children = {"inconsistent": [children] + alt}
            deep = ids(o.getChildren(deep=True))
            if ids(o.iterChildren(deep=True)) != deep:
                deep = {"inconsistent": deep}
            q.append({
                "children": children,
                "deep": deep,
                "gen2": ids(o.getChildren(generationNum=2)),
                "gen3": ids(o.iterChildren(generationNum=3)),
                "leaves": ids(o.getChildren(deep=True, predicate=lambda c: len(c) == 0)),
                "flagA": ids(o.getChildrenWithFlags(A)),
                "flagAx": ids(o.iterChildrenWithFlags(A, exactMatch=True)),
                "flagAB": ids(o.getChildrenWithFlags(A | B)),
                "flagAorB": ids(o.getChildrenWithFlags([A, B], exactMatch=True)),
                "deepB": ids(o.iterChildren(deep=True, predicate=lambda c: c.hasFlags(B))),
                "type1": ids(o.getChildrenOfType("t1")),
                "anc": chain,
                "ancB": nid(o.getAncestorWithFlags(B)),
                "ancBx": nid(o.getAncestorWithFlags(B, exactMatch=True)),
                "ancAx": nid(o.getAncestorWithFlags(A, exactMatch=True)),
                "deepMat": ids(o.getChildren(deep=True, includeMaterials=True)),
                "flagAMat": ids(o.getChildren(includeMaterials=True, predicate=lambda c: c.hasFlags(A))),
                "gen2Mat": ids(o.getChildren(generationNum=2, includeMaterials=True)),
                "ancOdd": nid(o.parent.getAncestor(odd)) if o.parent is not None else 0,
                "ancOddS": 0 if ad is None else nid(ad[0]),
                "ancOddDist": -1 if ad is None else ad[1],
                "root": nid(o.getAncestor(lambda c: c.parent is None)),
                "gridOwner": 0 if sl is None or sl.grid is None else nid(sl.grid.armiObject),
                "contains": sorted(m for m in live if O[m] in o),
            })
            # grids at their owner (re-linked after copy / unpickle)
            owns = self.owns_grid(w["orig"][n])
            if (o.spatialGrid is None) == owns or (owns and o.spatialGrid.armiObject is not o):
                q[-1]["gridOwner"] = -97
            q[-1]["comps"] = ids(o.iterComponents())
            q[-1]["compsA"] = ids(o.getComponents(A))
        out = {"parent": par, "loc": loc, "att": att, "orig": [w["orig"][n] for n in live], "err": w["err"], "q": q}
        if "copyShape" in w:
            out["err"] = w["copyShape"]
        return out

    @staticmethod
    def _first_odd(w, o, nid):
        x = o
        while x is not None:
            if w["orig"].get(nid(x), 0) % 2 == 1:
                return nid(x)
            x = x.parent
        return 0


class TypedAdapter(GenericAdapter):
    """HexAssembly (orig 1) / HexBlock (2..1+NBLK) / Circle components (the rest)."""
    name = "typed"
    typed = True
    NBLK = 2

    def owns_grid(self, o):
        return o == 1

    def make(self, o):
        from armi.reactor import assemblies, blocks
        from armi.reactor.components import Circle

        if o == 1:
            x = assemblies.HexAssembly("asm", assemNum=1)
            x.spatialGrid = self.grids.AxialGrid.fromNCells(1)
            x.spatialGrid.armiObject = x
        elif o <= 1 + self.NBLK:
            x = blocks.HexBlock("blk", height=10.0)
        else:
            x = Circle("c%d" % o, "HT9", Tinput=25.0, Thot=25.0, od=float(o), id=0.0, mult=1)
        x.setType(("t1x", "t1", "t2")[o % 3], self.flags_of(o))
        return x


class PinsAdapter(TypedAdapter):
    """Typed family whose blocks carry a pin lattice (HexGrid); components sit on index or multi-index locators."""
    name = "pins"
    blkgrid = True

    def owns_grid(self, o):
        return o <= 1 + self.NBLK

    def make(self, o):
        x = TypedAdapter.make(self, o)
        if 1 < o <= 1 + self.NBLK:
            x.spatialGrid = self.grids.HexGrid.fromPitch(1.0)
            x.spatialGrid.armiObject = x
        return x


_NODE = None


def _node_class():
    """Composite itself has no ``type`` parameter (Block/Assembly/Component define it); a subclass that only
    *adds* that parameter lets getType/getChildrenOfType run unmodified on plain composites."""
    global _NODE
    if _NODE is None:
        from armi.reactor import composites, parameters
        from armi.utils import units

        pd = parameters.ParameterDefinitionCollection()
        with pd.createBuilder() as pb:
            pb.defParam("type", units=units.UNITLESS, description="type name", default="", saveToDB=False,
                        setter=parameters.NoDefault, location=parameters.ParamLocation.AVERAGE)

        class VerifNode(composites.Composite):
            pDefs = pd

        VerifNode.__qualname__ = "VerifNode"
        _NODE = VerifNode
        globals()["VerifNode"] = VerifNode  # picklable by reference
    return _NODE


def walk(o):
    """the order the spec allocates copy ids in:  <<n>> \\o Deep(n)  (children first, then each child's expansion)"""
    out = [o]

    def deep(x):
        ks = list(x)
        r = list(ks)
        for k in ks:
            r += deep(k)
        return r

    return out + deep(o)


# ------------------------------------------------------------------------------------------------------------
def key_of(div, fam="generic"):
    import re
    return "replay:%s%s:%s" % ("" if fam == "generic" else fam + ":", div["action"]["n"], re.sub(r"\[\d+\]", "", div["first_difference"].split(":")[0]))


_SELFTEST = False
_EMIT_CACHE = {}

FAMILIES = {
    # name: (adapter class, exhaustive cfg, emission cfg, trace cfg, trace constants (NOrig, N, NLoc))
    "generic": ("CompositeTree_mc%s.cfg", "CompositeTree_emit%s.cfg", "CompositeTree_trace.cfg", (5, 8, 3)),
    "typed": ("CompositeTree_typed_mc%s.cfg", "CompositeTree_typed_emit%s.cfg", "CompositeTree_typed_trace.cfg", (5, 8, 1)),
    "pins": ("CompositeTree_pins_mc%s.cfg", "CompositeTree_pins_emit%s.cfg", "CompositeTree_pins_trace.cfg", (5, 8, 2)),
}
ACTIONS = {
    "generic": ("Add", "AddPresent", "Insert", "InsertPresent", "RemoveChild", "RemoveAbsentWhereItMatters", "SetChildrenAny", "RemoveAll", "MoveTo", "Sort", "Copy"),
    "typed": ("Add", "AddPresent", "AddWrongType", "Insert", "InsertPresent", "RemoveChild", "RemoveAbsentWhereItMatters", "SetChildrenAny", "RemoveAll", "Sort",
              "Reestablish", "Copy", "Replace"),
    "pins": ("Add", "AddPresent", "AddWrongType", "Insert", "InsertPresent", "RemoveChild", "RemoveAbsentWhereItMatters", "SetChildrenAny",
             "RemoveAll", "Sort", "Reestablish", "Copy", "MoveTo"),
}


def adapter(fam):
    return {"typed": TypedAdapter, "pins": PinsAdapter}.get(fam, GenericAdapter)()


def run(rep, tier, seed):
    thorough = tier == "thorough"
    suffix = "_thorough" if thorough else ""
    tlc.sany("CompositeTree_mc", MODDIR)
    tlc.sany("CompositeTree_trace", MODDIR)
    rep.exhaustive = True
    for fam, (mcfg, ecfg, tcfg, tconst) in FAMILIES.items():
        mcfg, ecfg = mcfg % suffix, ecfg % suffix
        # 1. exhaustive model checking of the design (all invariants / action properties, coverage)
        if not _SELFTEST:
            res = tlc.run("CompositeTree_mc", mcfg, MODDIR, want_prints=False, timeout=3000)
            rep.add_tlc("exhaustive:" + mcfg, res)
            if res.violation:
                rep.violation("tlc:" + res.violation["name"], "TLC: %s violated in the specification" % res.violation["name"],
                              {"direction": "tlc", "trace": res.violation["trace"][:20000]})
            never = [a for a in ACTIONS[fam] if res.coverage.get(a, (0, 0))[1] == 0]
            if never:
                raise tlc.MachineryError("vacuous: actions never taken in %s: %s" % (mcfg, never))

        # 2. spec -> code: every explored edge of the emission config, executed on real objects
        if ecfg not in _EMIT_CACHE:
            _EMIT_CACHE[ecfg] = tlc.run("CompositeTree_mc", ecfg, MODDIR, workers=1, coverage=False, timeout=3000)
        eres = _EMIT_CACHE[ecfg]
        rep.add_tlc("edges:" + ecfg, eres)
        obs = {rp.skey(p["st"]): p["obs"] for p in eres.prints if isinstance(p, dict) and "st" in p}
        edges = [p for p in eres.prints if isinstance(p, dict) and "act" in p]
        for e in edges:
            o = obs.get(rp.skey(e["to"]))
            if o is None:
                continue
            o = dict(o)
            o["err"] = e["err"]
            e["obs"] = o
        edges = [e for e in edges if "obs" in e]
        g = rp.Graph(edges)
        ad = adapter(fam)
        n, nt, divs = rp.replay_graph(g, ad, max_edges=None, rng=random.Random(seed))
        if n == 0:
            raise tlc.MachineryError("no edges replayed for " + fam)
        rep.add_replay(fam + "-edges", n, nt,
                       "every edge (s,a,t) of TLC's state graph is executed as path(s);a on fresh armi objects (%s family); "
                       "non-trivial = the edge changes the abstract state" % fam)
        for d in divs:
            rep.violation(key_of(d, fam), "real %s objects diverge from CompositeTree after %s: %s" % (
                fam, json.dumps(d["action"]), d["first_difference"]), dict(d, direction="replay", adapter=fam))
        if g.edges:
            e = g.edges[len(g.edges) // 2]
            rep.sample({"kind": "edge", "family": fam, "path": [s["act"] for s in g.path[e["_fk"]]], "act": e["act"],
                        "expected_obs": e["obs"]})

        # 3. code -> spec: random long edit histories on bigger trees, validated by TLC against CompositeTree_trace
        ntr = 400 if thorough else 80
        traces = tracecheck_driver(ad, ntr, 40 if thorough else 25, seed, tconst)
        bad, stats = tracecheck.validate("CompositeTree_trace", tcfg, MODDIR, traces, timeout=3000)
        rep.add_tlc("trace-validation:" + fam, stats["tlc"])
        rep.add_traces(fam + "-random-edit-histories", len(traces), sum(len(t["ev"]) for t in traces),
                       "seeded random edit histories on 8-node forests run on real objects; every event (op, args, full "
                       "projected post-state incl. all query results) must be a step of CompositeTree")
        rep.sample({"kind": "trace", "family": fam, "id": traces[0]["id"], "events": traces[0]["ev"][:2]})
        for b in bad:
            ev = b["trace"]["ev"]
            k = b["matched"]
            nxt = ev[k] if k < len(ev) else {}
            rep.violation("trace:%s:%s" % (fam, nxt.get("a", {}).get("n", b.get("invariant", "?"))),
                          "recorded history is not a behaviour of CompositeTree at event %d (%s) %s" % (
                              k + 1, json.dumps(nxt.get("a")), json.dumps(b.get("mismatch", ""))[:600]),
                          {"direction": "trace", "family": fam, "trace": b["trace"], "matched": k, "tlc": b.get("tlc")})
    rep.assume(
        "legal edits only: add/insert/setChildren receive detached roots that are not ancestors of the new parent",
        "deep order = children of the node first, then each child's expansion (documented getChildren(deep=True) order)",
        "generic family: each object owns a CartesianGrid; Add = add ; moveTo(parent.spatialGrid[i,0,0])",
        "typed family: HexAssembly > HexBlock > Circle; Assembly.add places and re-indexes blocks, Assembly.insert places at the index",
    )


def tracecheck_driver(ad, ntraces, nev, seed, tconst):
    """Random legal+illegal edits on real objects; log op + projected post-state."""
    rng = random.Random(seed * 7919 + 1)
    traces = []
    NO, N, NL = tconst
    for t in range(ntraces):
        w = ad.build({"live": list(range(1, NO + 1))})
        ev = []
        for _ in range(nev):
            a = random_action(ad, w, rng, N, NL)
            if a is None:
                continue
            try:
                ad.apply(w, a)
                ev.append({"a": a, "post": ad.project(w)})
            except Exception as ex:  # noqa: BLE001  an escaping exception ends the history; TLC will reject the event
                ev.append({"a": a, "post": {"exception": "%s: %s" % (type(ex).__name__, str(ex)[:200])}})
                break
        traces.append({"id": "%s%d" % (ad.name[0], t), "ev": ev})
    return traces


def random_action(ad, w, rng, N, NL):
    O = w["obj"]
    live = sorted(O)
    typed = ad.typed
    kinds = ["Add", "Add", "Insert", "Insert", "Remove", "RemoveAll", "SetChildren", "Sort",
             "DeepCopy", "Pickle", "AddPresent", "InsertPresent", "RemoveAbsent"]
    pins = getattr(ad, "blkgrid", False)
    kinds += (["Reestablish", "Reestablish", "AddWrongType", "Add", "Insert", "Insert"] + (["MoveTo", "MoveTo"] if pins else ["Replace"])) if typed else ["MoveTo"]
    kind = rng.choice(kinds)

    def kind_of(n):
        o = w["orig"][n]
        return "gen" if not typed else "asm" if o == 1 else "blk" if o <= 1 + ad.NBLK else "cmp"

    def fits(p, c):
        return not typed or (kind_of(p), kind_of(c)) in (("asm", "blk"), ("blk", "cmp"))

    # the driver's own bookkeeping comes from the child lists only (never from .parent, which is under test)
    owner = {}
    for m in live:
        for k in O[m]:
            owner[id(k)] = O[m]

    def anc_self(n):
        out = []
        x = O[n]
        while x is not None and len(out) < 64:
            out.append(id(x))
            x = owner.get(id(x))
        return out

    def can_take(p, c):
        return id(O[c]) not in owner and id(O[c]) not in anc_self(p) and fits(p, c)

    p = rng.choice(live)
    kids = [k for k in live if owner.get(id(O[k])) is O[p]]
    if kind in ("Add", "Insert"):
        cs = [c for c in live if can_take(p, c)]
        if not cs:
            return None
        c = rng.choice(cs)
        if kind == "Add":
            return {"n": "Add", "p": p, "c": c, "i": rng.randrange(NL)}
        return {"n": "Insert", "p": p, "k": rng.randrange(len(kids) + 1), "c": c, "i": rng.randrange(NL)}
    if kind == "AddWrongType":
        cs = [c for c in live if kind_of(p) == "asm" and kind_of(c) == "cmp" and id(O[c]) not in owner]
        return {"n": kind, "p": p, "c": rng.choice(cs)} if cs else None
    if kind in ("Remove", "AddPresent", "InsertPresent"):
        if not kids:
            return None
        return {"n": kind, "p": p, "c": rng.choice(kids)}
    if kind == "RemoveAbsent":
        cs = [c for c in live if c != p and c not in kids]
        return {"n": kind, "p": p, "c": rng.choice(cs)} if cs else None
    if kind == "RemoveAll":
        return {"n": kind, "p": p} if kids else None
    if kind == "Replace":
        bs = [b for b in live if kind_of(b) == "blk"]
        if len(bs) < 2:
            return None
        b, t = rng.sample(bs, 2)
        free = [i for i in range(1, N + 1) if i not in O]
        k = len(O[t])
        return {"n": kind, "b": b, "t": t, "ids": free[:k]} if k <= len(free) else None
    if kind == "Reestablish":
        return {"n": kind, "p": p} if kids and kind_of(p) == "asm" else None
    if kind == "SetChildren":
        cand = [c for c in live if c in kids or can_take(p, c)]
        rng.shuffle(cand)
        return {"n": kind, "p": p, "s": cand[: rng.randrange(0, 4)]}
    if kind == "MoveTo":
        cs = [c for c in live if id(O[c]) in owner and O[c].parent is owner[id(O[c])] and (not typed or kind_of(c) == "cmp")]
        if not cs:
            return None
        c = rng.choice(cs)
        sl0 = O[c].spatialLocator
        cur = -1 if sl0.grid is None else (sl0[0].i if isinstance(sl0, ad.grids.MultiIndexLocation) and len(sl0) else sl0.i)
        i = rng.choice([i for i in range(NL) if i != cur])  # spec: enabled iff loc # i or not attached
        return {"n": kind, "c": c, "i": i}
    if kind == "Sort":
        for x in walk(O[p]):
            if len(x) >= 2 and any(k.spatialLocator.grid is None and len(k) + 1 and not _is_component(k) for k in x):
                return None
        return {"n": kind, "p": p} if kids else None
    if kind in ("DeepCopy", "Pickle"):
        size = len(walk(O[p]))
        free = [i for i in range(1, N + 1) if i not in O]
        if size > len(free):
            return None
        return {"n": kind, "x": p, "ids": free[:size]}
    return None


def _is_component(o):
    from armi.reactor.components import Component

    return isinstance(o, Component)


def replay(payload):
    ad = adapter(payload.get("adapter", "generic"))
    if payload.get("direction") == "replay":
        steps = [{"act": a, "obs": {}} for a in payload["behaviour"]]
        steps[-1]["obs"] = payload["expected"]
        d = replay_mod_run(ad, payload["root"], steps)
        print(json.dumps(d, indent=1, default=str) if d else "no divergence: behaviour conforms")
        return 1 if d else 0
    print("replay of direction=%s: see payload (TLC trace / recorded trace)" % payload.get("direction"))
    return 0


def replay_mod_run(ad, root, steps):
    return rp.run_behaviour(ad, root, steps, check_from=len(steps) - 1)


def selftest():
    """In-process mutants of the anchored code; each must be detected by replay or trace validation."""
    global _SELFTEST
    from harness.armi_env import armi_ready
    from harness.report import Report
    from harness.selftest import patched, run_mutants

    armi_ready()
    from armi.reactor import assemblies, blocks, composites

    _SELFTEST = True
    C = composites.Composite

    def detect():
        rep = Report("C01", "quick", 0)
        run(rep, "quick", 0)
        return [v["key"] for v in rep.violations]

    def insert_no_parent(self, index, obj):
        if obj in self._children:
            raise RuntimeError("present")
        self._children.insert(index, obj)

    def remove_keep_locator(self, obj):
        self._children.remove(obj)
        obj.parent = None

    def iter_off_by_one(self, deep, generationNum, checker):
        if deep or generationNum == 1:
            yield from filter(checker, self)
        if deep or generationNum > 1:
            for c in self:
                yield from c._iterChildren(deep, generationNum - 2 if generationNum > 2 else generationNum - 1, checker)

    def iter_prunes(self, deep, generationNum, checker):
        if deep or generationNum == 1:
            yield from filter(checker, self)
        if deep or generationNum > 1:
            for c in filter(checker, self):
                yield from c._iterChildren(deep, generationNum - 1, checker)

    def contains_eq(self, item):
        return any(item.name == c.name for c in self._children)

    def setstate_no_reattach(self, state):
        self.__dict__.update(state)
        if self.spatialGrid is not None:
            self.spatialGrid.armiObject = self
            for c in self:
                c.spatialLocator.associate(self.spatialGrid)

    def setstate_no_grid(self, state):
        self.__dict__.update(state)
        for c in self:
            c.parent = self

    def sort_shallow(self):
        self._children.sort()

    def setchildren_keep(self, items):
        for c in items:
            if c not in self:
                self.add(c)

    def reestablish_skip_last(self):
        from armi.reactor import grids
        self.spatialGrid = grids.AxialGrid.fromNCells(len(self))
        self.spatialGrid.armiObject = self
        for zi, b in enumerate(self[:-1] if len(self) > 1 else self):
            b.spatialLocator = self.spatialGrid[0, 0, zi]

    def asm_insert_noloc(self, index, obj):
        self._checkPotentialChild(obj, "insert")
        composites.Composite.insert(self, index, obj)

    def anc_flags_skip_self(self, typeSpec, exactMatch=False):
        if self.parent is None:
            return None
        if self.parent.hasFlags(typeSpec, exact=exactMatch):
            return self.parent
        return self.parent.getAncestorWithFlags(typeSpec, exactMatch=exactMatch)

    orig_deepcopy = blocks.Block.__deepcopy__

    def block_deepcopy_shares_child(self, memo):
        b = orig_deepcopy(self, memo)
        if len(self) > 1:
            b._children[-1] = self._children[-1]
        return b

    from armi.reactor.grids import locations

    def insert_fastpath(self, index, obj):
        if obj in self._children:
            raise RuntimeError("present")
        if index >= len(self._children):
            self.append(obj)
            return
        obj.parent = self
        self._children.insert(index, obj)

    def block_deepcopy_shares_grid(self, memo):
        if self.spatialGrid is not None:
            memo[id(self.spatialGrid)] = self.spatialGrid
        return orig_deepcopy(self, memo)

    def flags_merged(self, typeSpec, exactMatch=False):
        from armi.reactor.flags import Flags
        if isinstance(typeSpec, (list, tuple)):
            merged = Flags(0)
            for f in typeSpec:
                merged |= f
            typeSpec = merged
        return self.iterChildren(predicate=lambda o: o.hasFlags(typeSpec, exactMatch))

    def anc_dist_from_parent(self, fn, _distance=0):
        if self.parent is None:
            return None
        if fn(self.parent):
            return self.parent, _distance + 1
        return self.parent.getAncestorAndDistance(fn, _distance + 1)

    def multi_associate_cells_only(self, grid):
        for loc in self._locations:
            loc.associate(grid)

    def of_type_substring(self, typeName):
        return self.iterChildren(predicate=lambda o: typeName in o.getType())

    P = patched
    mutants = [
        ("Composite.insert at/after the end appends without setting the parent", lambda: P(C, "insert", insert_fastpath)),
        ("Block.__deepcopy__ shares the pin lattice with the original", lambda: P(blocks.Block, "__deepcopy__", block_deepcopy_shares_grid)),
        ("iterChildrenWithFlags ORs a list of candidate flags into one", lambda: P(composites.ArmiObject, "iterChildrenWithFlags", flags_merged)),
        ("getAncestorAndDistance starts at the parent", lambda: P(composites.ArmiObject, "getAncestorAndDistance", anc_dist_from_parent)),
        ("MultiIndexLocation.associate forgets its own grid", lambda: P(locations.MultiIndexLocation, "associate", multi_associate_cells_only)),
        ("iterChildrenOfType matches type names by substring", lambda: P(composites.ArmiObject, "iterChildrenOfType", of_type_substring)),
        ("Composite.insert forgets obj.parent = self", lambda: P(C, "insert", insert_no_parent)),
        ("Composite.remove keeps the locator attached", lambda: P(C, "remove", remove_keep_locator)),
        ("_iterChildren generation counter off by one (gen 3)", lambda: P(C, "_iterChildren", iter_off_by_one)),
        ("_iterChildren prunes below nodes failing the predicate", lambda: P(C, "_iterChildren", iter_prunes)),
        ("__contains__ by name equality", lambda: P(C, "__contains__", contains_eq)),
        ("__setstate__ does not re-attach children", lambda: P(composites.ArmiObject, "__setstate__", setstate_no_reattach)),
        ("__setstate__ does not re-own the grid", lambda: P(composites.ArmiObject, "__setstate__", setstate_no_grid)),
        ("sort not recursive", lambda: P(C, "sort", sort_shallow)),
        ("setChildren keeps old children", lambda: P(C, "setChildren", setchildren_keep)),
        ("reestablishBlockOrder skips the last block", lambda: P(assemblies.Assembly, "reestablishBlockOrder", reestablish_skip_last)),
        ("Assembly.insert does not place the block", lambda: P(assemblies.Assembly, "insert", asm_insert_noloc)),
        ("getAncestorWithFlags skips self", lambda: P(composites.ArmiObject, "getAncestorWithFlags", anc_flags_skip_self)),
        ("Block.__deepcopy__ shares its last component", lambda: P(blocks.Block, "__deepcopy__", block_deepcopy_shares_child)),
    ]
    try:
        return run_mutants(mutants, detect)
    finally:
        _SELFTEST = False
