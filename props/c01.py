"""C01 -- composite tree: TLC exhaustive run, replay of every explored edge on real objects, trace validation.

Four families share spec/tree/CompositeTree.tla (constants in spec/tree/*.cfg, written by harness/gen_c01_cfgs.py):
  generic  plain Composite objects, one grid each
  typed    HexAssembly > HexBlock > Circle
  pins     the same with pin lattices on the blocks and a component GROUP (a plain Composite of components) below a block
  reactor  Reactor > {Core, SpentFuelPool} > HexAssembly > HexBlock with the reactor-level edits (Core.add / removeAssembly,
           two assemblies trading places, sortAssemsByRing, copies of the reactor / the core) and the reactor's own references
           (r.core, r.excore) and the Core's block / assembly traversals as extra observables

Aliasing law (Obs.stable in the spec): project() asks every query, EMPTIES every list a query handed out, and asks every
query again; the second set of answers is what is compared with the specification, and "stable" says whether the two sets agree.

Already-owned objects (B2): AddAttached / InsertAttached have three outcomes in the emission graph -- "moved" and "refused" are
the ones the specification allows, "stale" is the known deviation of armi written down for classification only (module header of
CompositeTree.tla).  One (state, call) group is executed once per outcome it is compared with: conforming to an allowed outcome
is no finding; matching "stale" exactly is reported under ONE key per action and family (replay:<fam>:<Action>:stale); anything
else is reported under the field that differs (so another failure of the same call is not hidden by the known one).  A stale
state is terminal in the spec; the random drivers put such a call only at the END of a history for the same reason.
"""
import copy
import json
import os
import pickle
import random
import re
from concurrent.futures import ThreadPoolExecutor

from harness import common, tlc, tracecheck
from harness import replay as rp
from harness.armi_env import armi_ready

MODDIR = os.path.join(common.SPEC, "tree")
ATTACHED = ("AddAttached", "InsertAttached")


def cfg_constants(cfg):
    """the CONSTANTS line of a configuration file (the adapters are built for the universe TLC explores)"""
    with open(os.path.join(MODDIR, cfg)) as f:
        text = f.read()
    out = {}
    for k, v in re.findall(r"(\w+) = (\w+)", text[text.index("CONSTANTS"):].split("\n")[0]):
        out[k] = {"TRUE": True, "FALSE": False}.get(v, int(v) if v.isdigit() else v)
    return out


# ------------------------------------------------------------------------------------------------------------
# adapter: generic armi.reactor.composites.Composite objects, one grid per object
# ------------------------------------------------------------------------------------------------------------
class GenericAdapter:
    name = "generic"
    typed = False
    blkgrid = False
    rx = False

    def __init__(self, consts=None):
        armi_ready()
        from armi.reactor import composites, grids
        from armi.reactor.flags import Flags

        self.composites, self.grids, self.Flags = composites, grids, Flags
        self.Node = _node_class()
        self.A, self.B = Flags.FUEL, Flags.CLAD
        c = consts or {}
        self.consts = dict(c)
        self.NBLK = c.get("NBlk", 2 if self.typed else 0)
        self.NGRP = c.get("NGrp", 0)
        self.NASM = c.get("NAsm", 0)
        self.N = c.get("N", 8)

    # -- static attributes as the spec defines them ----------------------------------------------------
    def flags_of(self, o):
        f = self.Flags(0)
        if o % 2 == 1:
            f |= self.A
        if (o // 2) % 2 == 1:
            f |= self.B
        return f

    def kind(self, o):
        """Kind(n) of the specification, by original id"""
        if self.rx:
            return "rx" if o == 1 else "core" if o == 2 else "sfp" if o == 3 else "asm" if o <= 3 + self.NASM else "blk"
        if not self.typed:
            return "gen"
        return "asm" if o == 1 else "blk" if o <= 1 + self.NBLK else "grp" if o <= 1 + self.NBLK + self.NGRP else "cmp"

    def owns_grid(self, o):
        return True

    def make(self, o):
        c = self.Node("n%d" % o)
        c.setType(("t1x", "t1", "t2")[o % 3], self.flags_of(o))
        g = self.grids.CartesianGrid.fromRectangle(1.0, 1.0)
        g.armiObject = c
        c.spatialGrid = g
        return c

    def build(self, root):
        w = {"obj": {}, "orig": {}, "err": ""}
        live = root["live"]
        for n in live:
            w["obj"][n] = self.make(n)
            w["orig"][n] = n
        return w

    def apply(self, w, a):
        O = w["obj"]
        n = a["n"]
        w["err"] = ""
        try:
            if n == "Add":
                O[a["p"]].add(O[a["c"]])
                if not self.typed:
                    O[a["c"]].moveTo(O[a["p"]].spatialGrid[a["i"], 0, 0])
            elif n in ("AddPresent", "AddWrongType"):
                O[a["p"]].add(O[a["c"]])
            elif n == "Insert":
                O[a["p"]].insert(a["k"], O[a["c"]])
                if not self.typed:
                    O[a["c"]].moveTo(O[a["p"]].spatialGrid[a["i"], 0, 0])
            elif n == "InsertPresent":
                O[a["p"]].insert(0, O[a["c"]])
            elif n in ATTACHED:
                # the object is still listed by another parent.  Only an exception raised by add/insert itself counts as
                # a refusal; the placement that follows in the generic family is outside the try (a silent no-op is no refusal)
                try:
                    if n == "AddAttached":
                        O[a["p"]].add(O[a["c"]])
                    else:
                        O[a["p"]].insert(a["k"], O[a["c"]])
                    refused = False
                except (RuntimeError, ValueError, TypeError):
                    refused = True
                if refused:
                    w["err"] = "Refused"
                elif not self.typed:
                    O[a["c"]].moveTo(O[a["p"]].spatialGrid[a["i"], 0, 0])
            elif n in ("Remove", "RemoveAbsent"):
                O[a["p"]].remove(O[a["c"]])
            elif n == "RemoveAll":
                O[a["p"]].removeAll()
            elif n == "SetChildren":
                O[a["p"]].setChildren([O[x] for x in a["s"]])
            elif n == "SetChildrenSame":
                # the very list object the query handed out goes back in
                O[a["p"]].setChildren(O[a["p"]].getChildren())
            elif n == "MoveTo":
                c = O[a["c"]]
                g = c.parent.spatialGrid
                if self.typed and a["i"] == 1:
                    # index 1 stands for a multi-cell locator (components with multiplicity > 1)
                    ml = self.grids.MultiIndexLocation(g)
                    ml.append(g[1, 0, 0])
                    ml.append(g[2, 0, 0])
                    c.moveTo(ml)
                else:
                    c.moveTo(g[a["i"], 0, 0])
            elif n == "Sort":
                O[a["p"]].sort()
            elif n == "Reestablish":
                O[a["p"]].reestablishBlockOrder()
            elif n == "Replace":
                b, t = O[a["b"]], O[a["t"]]
                srcs = list(t)
                b.replaceBlockWithBlock(t)
                w["orig"][a["b"]] = w["orig"][a["t"]]
                news = list(b)
                if len(news) != len(a["ids"]):
                    w["copyShape"] = "replacement has %d children, template %d" % (len(news), len(a["ids"]))
                inv = {id(v): k for k, v in O.items()}
                for nid, o_old, o_new in zip(a["ids"], srcs, news):
                    O[nid] = o_new
                    w["orig"][nid] = w["orig"][inv[id(o_old)]]
            elif n in ("DeepCopy", "Pickle"):
                src = O[a["x"]]
                new = copy.deepcopy(src) if n == "DeepCopy" else pickle.loads(pickle.dumps(src))
                olds = walk(src)
                news = walk(new)
                if len(olds) != len(news) or len(news) != len(a["ids"]):
                    w["copyShape"] = "copy has %d nodes, source %d" % (len(news), len(olds))
                inv = {id(v): k for k, v in O.items()}
                for nid, o_old, o_new in zip(a["ids"], olds, news):
                    O[nid] = o_new
                    w["orig"][nid] = w["orig"][inv[id(o_old)]]
            elif not self.apply_more(w, a):
                raise AssertionError("unknown action " + n)
        except (RuntimeError, ValueError, TypeError) as ex:
            w["err"] = type(ex).__name__
        return w["err"]

    def apply_more(self, w, a):
        return False

    def loc_index(self, w, n, sl):
        """the index the locator carries, as the spec counts it"""
        if sl is None:
            return 0
        if isinstance(sl, self.grids.MultiIndexLocation):
            return sl[0].i if len(sl) else None
        if self.kind(w["orig"][n]) == "blk" or (self.typed and self.kind(w["orig"][n]) == "asm"):
            return getattr(sl, "k", None)  # blocks: axial index in the assembly grid
        return getattr(sl, "i", None)

    def project(self, w):
        """Aliasing law: ask every query, empty every list a query handed out, ask again.  The second set of answers is
        compared with the specification; ``stable`` tells whether the two sets agree."""
        handed = []
        first = self.observe(w, handed)
        for lst in handed:
            if isinstance(lst, list):
                del lst[:]
        second = self.observe(w, None)
        second["stable"] = first == second
        return second

    def observe(self, w, handed):
        O = w["obj"]
        live = sorted(O)
        ident = {id(v): k for k, v in O.items()}
        mats = {}
        for k, v in O.items():
            m = getattr(v, "material", None)
            if m is not None:
                mats[id(m)] = -k

        def nid(o):  # materials appear in includeMaterials queries as -<component id>
            if o is None:
                return 0
            return ident.get(id(o), mats.get(id(o), -99))

        def ids(seq):
            return [nid(o) for o in seq]

        def L(lst):  # a list handed out by a query
            if handed is not None:
                handed.append(lst)
            return lst

        A, B = self.A, self.B
        odd = lambda o: w["orig"].get(nid(o), 0) % 2 == 1  # noqa: E731
        par, loc, att, q = [], [], [], []
        for n in live:
            o = O[n]
            kind = self.kind(w["orig"][n])
            par.append(nid(o.parent))
            sl = o.spatialLocator
            att.append(bool(sl is not None and sl.grid is not None))
            li = self.loc_index(w, n, sl)
            loc.append(int(li) if li is not None and float(li) == int(li) else repr(li))
            chain = []
            x = o.parent
            while x is not None and len(chain) < 50:
                chain.append(nid(x))
                x = x.parent
            ad = o.getAncestorAndDistance(odd)
            children = ids(L(o.getChildren()))
            alt = [ids(o), ids(o.iterChildren()), ids(o[i] for i in range(len(o)))]
            if any(v != children for v in alt) or [o.index(c) for c in o] != list(range(len(o))):
                children = {"inconsistent": [children] + alt}
            deep = ids(L(o.getChildren(deep=True)))
            if ids(o.iterChildren(deep=True)) != deep:
                deep = {"inconsistent": deep}
            q.append({
                "children": children,
                "deep": deep,
                "gen2": ids(L(o.getChildren(generationNum=2))),
                "gen3": ids(o.iterChildren(generationNum=3)),
                "leaves": ids(L(o.getChildren(deep=True, predicate=lambda c: len(c) == 0))),
                "flagA": ids(L(o.getChildrenWithFlags(A))),
                "flagAx": ids(o.iterChildrenWithFlags(A, exactMatch=True)),
                "flagAB": ids(L(o.getChildrenWithFlags(A | B))),
                "flagAorB": ids(L(o.getChildrenWithFlags([A, B], exactMatch=True))),
                "deepB": ids(o.iterChildren(deep=True, predicate=lambda c: c.hasFlags(B))),
                # not asked of a reactor: Core and SpentFuelPool have no type-name parameter
                "type1": [] if kind == "rx" else ids(L(o.getChildrenOfType("t1"))),
                "anc": chain,
                "ancB": nid(o.getAncestorWithFlags(B)),
                "ancBx": nid(o.getAncestorWithFlags(B, exactMatch=True)),
                "ancAx": nid(o.getAncestorWithFlags(A, exactMatch=True)),
                "deepMat": ids(L(o.getChildren(deep=True, includeMaterials=True))),
                "flagAMat": ids(L(o.getChildren(includeMaterials=True, predicate=lambda c: c.hasFlags(A)))),
                "gen2Mat": ids(L(o.getChildren(generationNum=2, includeMaterials=True))),
                "ancOdd": nid(o.parent.getAncestor(odd)) if o.parent is not None else 0,
                "ancOddS": 0 if ad is None else nid(ad[0]),
                "ancOddDist": -1 if ad is None else ad[1],
                "root": nid(o.getAncestor(lambda c: c.parent is None)),
                "gridOwner": 0 if sl is None or sl.grid is None else nid(sl.grid.armiObject),
                "contains": sorted(m for m in live if O[m] in o),
            })
            # grids at their owner (re-linked after copy / unpickle)
            owns = self.owns_grid(w["orig"][n])
            if (o.spatialGrid is None) == owns or (owns and o.spatialGrid.armiObject is not o):
                q[-1]["gridOwner"] = -97
            q[-1]["comps"] = ids(o.iterComponents())
            q[-1]["compsA"] = ids(L(o.getComponents(A)))
            # reactor-level references and traversals (constants for every other kind of object)
            rxq = {"core": 0, "excore": [], "blocks": [], "blocksA": [], "blocksOdd": [], "firstBlk": 0, "firstAsm": 0,
                   "asmByLoc": [], "asmAll": []}
            if kind == "rx":
                rxq["core"] = nid(o.core)
                rxq["excore"] = [nid(v) for _k, v in sorted(o.excore.items())]
            elif kind == "core":
                rxq["blocks"] = ids(o.iterBlocks())
                rxq["blocksA"] = ids(o.iterBlocks(A))
                rxq["blocksOdd"] = ids(o.iterBlocks(predicate=odd))
                rxq["firstBlk"] = nid(o.getFirstBlock())
                rxq["firstAsm"] = nid(o.getFirstAssembly()) if len(o) else 0  # documented: assumes at least one assembly
                rxq["asmByLoc"] = ids(L(o.getAssemblies()))
                rxq["asmAll"] = ids(L(o.getAssemblies(includeSFP=True)))
            q[-1].update(rxq)
        out = {"parent": par, "loc": loc, "att": att, "orig": [w["orig"][n] for n in live], "err": w["err"], "q": q}
        if "copyShape" in w:
            out["err"] = w["copyShape"]
        return out


class TypedAdapter(GenericAdapter):
    """HexAssembly (orig 1) / HexBlock (2..1+NBlk) / component groups (next NGrp, plain composites) / Circle components (the rest)."""
    name = "typed"
    typed = True

    def owns_grid(self, o):
        return o == 1

    def make(self, o):
        from armi.reactor import assemblies, blocks
        from armi.reactor.components import Circle

        kind = self.kind(o)
        if kind == "asm":
            x = assemblies.HexAssembly("asm", assemNum=1)
            x.spatialGrid = self.grids.AxialGrid.fromNCells(1)
            x.spatialGrid.armiObject = x
        elif kind == "blk":
            x = blocks.HexBlock("blk", height=10.0)
        elif kind == "grp":
            # what the blueprints build for a "component group": a plain Composite that holds components
            # (the subclass only adds the type-name parameter, see _node_class)
            x = self.Node("grp%d" % o)
        else:
            x = Circle("c%d" % o, "HT9", Tinput=25.0, Thot=25.0, od=float(o), id=0.0, mult=1)
        x.setType(("t1x", "t1", "t2")[o % 3], self.flags_of(o))
        return x


class PinsAdapter(TypedAdapter):
    """Typed family whose blocks carry a pin lattice (HexGrid); components sit on index or multi-index locators."""
    name = "pins"
    blkgrid = True

    def owns_grid(self, o):
        return self.kind(o) in ("asm", "blk")

    def make(self, o):
        if self.kind(o) == "cmp":
            # members of a component group are 3-D shapes in armi (a 2-D component takes its height from parent.getHeight(),
            # which only a block has); the same spheres are also placed directly in blocks
            from armi.reactor.components import Sphere

            x = Sphere("c%d" % o, "HT9", Tinput=25.0, Thot=25.0, od=float(o), id=0.0, mult=1)
            x.setType(("t1x", "t1", "t2")[o % 3], self.flags_of(o))
            return x
        x = TypedAdapter.make(self, o)
        if self.kind(o) == "blk":
            x.spatialGrid = self.grids.HexGrid.fromPitch(1.0)
            x.spatialGrid.armiObject = x
        return x


class ReactorAdapter(GenericAdapter):
    """Reactor (orig 1) > Core (2), SpentFuelPool (3) > HexAssembly (4..3+NAsm) > HexBlock (the rest, empty).
    The initial world is built from the specification's initial state (root variables emitted by TLC): the reactor adds core
    and pool, every assembly adds its blocks in the listed order -- all through the real add methods."""
    name = "reactor"
    rx = True

    def owns_grid(self, o):
        return self.kind(o) in ("core", "sfp", "asm")

    def make(self, o):
        from armi.reactor import assemblies, blocks, blueprints, geometry, reactors
        from armi.reactor.spentFuelPool import SpentFuelPool

        kind = self.kind(o)
        grids = self.grids
        if kind == "rx":
            x = reactors.Reactor("gen", blueprints.Blueprints())
        elif kind == "core":
            x = reactors.Core("Core")
            g = grids.HexGrid.fromPitch(16.0, numRings=4)
            g.geomType = geometry.GeomType.HEX
            g.symmetry = str(geometry.SymmetryType(geometry.DomainType.FULL_CORE, geometry.BoundaryType.NO_SYMMETRY))
            g.armiObject = x
            x.spatialGrid = g
            x._trackAssems = True
        elif kind == "sfp":
            x = SpentFuelPool("Spent Fuel Pool")
            g = grids.CartesianGrid.fromRectangle(50.0, 50.0)
            g.armiObject = x
            for i in range(self.N + 1):
                g[i, 0, 0]  # one row, wide enough for every assembly that can exist: the cell index is the column
            x.spatialGrid = g
        elif kind == "asm":
            x = assemblies.HexAssembly("fuel", assemNum=o)
            x.spatialGrid = grids.AxialGrid.fromNCells(1)
            x.spatialGrid.armiObject = x
        else:
            x = blocks.HexBlock("blk", height=10.0)
        if kind in ("asm", "blk"):
            x.setType(("t1x", "t1", "t2")[o % 3], self.flags_of(o))
        else:
            x.p.flags = self.flags_of(o)  # Reactor, Core and SpentFuelPool have flags but no type name
        return x

    def build(self, root):
        w = GenericAdapter.build(self, root)
        O = w["obj"]
        kids = root["kids"]
        for n in sorted(O):
            for c in kids[n - 1]:
                O[n].add(O[c])
        return w

    def apply_more(self, w, a):
        O = w["obj"]
        n = a["n"]
        if n == "CoreAdd":
            O[a["k"]].add(O[a["a"]], O[a["k"]].spatialGrid[a["i"], 0, 0])
        elif n == "Purge":
            O[a["k"]].removeAssembly(O[a["a"]], discharge=False)
        elif n == "Discharge":
            O[a["k"]].removeAssembly(O[a["a"]], discharge=True)
        elif n == "Swap":
            x, y = O[a["a"]], O[a["b"]]
            lx, ly = x.spatialLocator, y.spatialLocator
            x.moveTo(ly)
            y.moveTo(lx)
        elif n == "SortRing":
            O[a["k"]].sortAssemsByRing()
        else:
            return False
        return True


_NODE = None


def _node_class():
    """Composite itself has no ``type`` parameter (Block/Assembly/Component define it); a subclass that only
    *adds* that parameter lets getType/getChildrenOfType run unmodified on plain composites."""
    global _NODE
    if _NODE is None:
        from armi.reactor import composites, parameters
        from armi.utils import units

        pd = parameters.ParameterDefinitionCollection()
        with pd.createBuilder() as pb:
            pb.defParam("type", units=units.UNITLESS, description="type name", default="", saveToDB=False,
                        setter=parameters.NoDefault, location=parameters.ParamLocation.AVERAGE)

        class VerifNode(composites.Composite):
            pDefs = pd

        VerifNode.__qualname__ = "VerifNode"
        _NODE = VerifNode
        globals()["VerifNode"] = VerifNode  # picklable by reference
    return _NODE


def walk(o):
    """the order the spec allocates copy ids in:  <<n>> \\o Deep(n)  (children first, then each child's expansion)"""
    out = [o]

    def deep(x):
        ks = list(x)
        r = list(ks)
        for k in ks:
            r += deep(k)
        return r

    return out + deep(o)


# ------------------------------------------------------------------------------------------------------------
def key_of(div, fam="generic"):
    field = re.sub(r"\[\d+\]", "", div["first_difference"].split(":")[0])
    return "replay:%s%s:%s%s" % ("" if fam == "generic" else fam + ":", div["action"]["n"], field,
                                 _shared(div["action"], div.get("expected"), div.get("observed"), div["first_difference"].split(":")[0]))


def _ints(x):
    if isinstance(x, bool):
        return set()
    if isinstance(x, int):
        return {x}
    if isinstance(x, (list, tuple)):
        return set().union(*[_ints(v) for v in x]) if x else set()
    if isinstance(x, dict):
        return _ints(list(x.values()))
    return set()


def _shared(act, exp, got, path):
    """key suffix for copies: the value that differs refers to a node that existed BEFORE the copy where the specification
    expects none of those (the copy shares a node with the original) -- told apart from a reference that is merely missing"""
    if act.get("n") not in ("DeepCopy", "Pickle") or not isinstance(exp, dict) or not isinstance(got, dict):
        return ""
    try:
        for part in re.findall(r"\.(\w+)|\[(\d+)\]", path):
            exp, got = (exp[part[0]], got[part[0]]) if part[0] else (exp[int(part[1])], got[int(part[1])])
    except (KeyError, IndexError, TypeError):
        return ""
    new = set(act.get("ids", ()))
    foreign = {v for v in _ints(got) - _ints(exp) if v > 0 and v not in new}
    return ":shared" if foreign and _ints(exp) <= new | {0} else ""


_SELFTEST = False
_EMIT_CACHE = {}

FAMILIES = {
    # name: (exhaustive cfg, emission cfg, trace cfg)
    "generic": ("CompositeTree_mc%s.cfg", "CompositeTree_emit%s.cfg", "CompositeTree_trace.cfg"),
    "typed": ("CompositeTree_typed_mc%s.cfg", "CompositeTree_typed_emit%s.cfg", "CompositeTree_typed_trace.cfg"),
    "pins": ("CompositeTree_pins_mc%s.cfg", "CompositeTree_pins_emit%s.cfg", "CompositeTree_pins_trace.cfg"),
    "reactor": ("CompositeTree_reactor_mc%s.cfg", "CompositeTree_reactor_emit%s.cfg", "CompositeTree_reactor_trace.cfg"),
}
# non-vacuity: coverage names of the exhaustive run / action names (with outcome) of the emitted edges that must occur
ACTIONS = {
    "generic": ("Add", "AddPresent", "Insert", "InsertPresent", "RemoveChild", "RemoveAbsentWhereItMatters", "SetChildrenAny", "SetChildrenSame",
                "RemoveAll", "MoveTo", "Sort", "Copy", "AddAttachedAny", "InsertAttachedAny"),
    "typed": ("Add", "AddPresent", "AddWrongType", "Insert", "InsertPresent", "RemoveChild", "RemoveAbsentWhereItMatters", "SetChildrenAny",
              "SetChildrenSame", "RemoveAll", "Sort", "Reestablish", "Copy", "Replace"),
    "pins": ("Add", "AddPresent", "AddWrongType", "Insert", "InsertPresent", "RemoveChild", "RemoveAbsentWhereItMatters", "SetChildrenAny",
             "SetChildrenSame", "RemoveAll", "Sort", "Reestablish", "Copy", "MoveTo", "AddAttachedAny", "InsertAttachedAny"),
    "reactor": ("CoreAdd", "Purge", "Discharge", "Swap", "SortRing", "Sort", "Copy"),
}
_OWNED = tuple("%s:%s" % (a, o) for a in ATTACHED for o in ("moved", "refused", "stale"))
EMITTED = {
    "generic": ("Add", "Insert", "Remove", "SetChildren", "SetChildrenSame", "MoveTo", "Sort", "DeepCopy", "Pickle") + _OWNED,
    "typed": ("Add", "Insert", "Remove", "SetChildren", "SetChildrenSame", "Sort", "Reestablish", "Replace", "DeepCopy", "Pickle"),
    "pins": ("Add", "Insert", "Remove", "SetChildren", "SetChildrenSame", "MoveTo", "Sort", "DeepCopy", "Pickle") + _OWNED,
    "reactor": ("CoreAdd", "Purge", "Discharge", "Swap", "SortRing", "Sort", "DeepCopy", "Pickle"),
}
_CLASSES = {"typed": TypedAdapter, "pins": PinsAdapter, "reactor": ReactorAdapter}


def adapter(fam, consts=None):
    return _CLASSES.get(fam, GenericAdapter)(consts)


def act_label(a):
    return a["n"] + (":" + a["out"] if a.get("out") else "")


def _distance(exp, got):
    """number of leaves of the expected observation the projection does not reproduce (which emitted outcome is closest)"""
    if isinstance(exp, dict):
        return sum(_distance(v, got.get(k) if isinstance(got, dict) else None) for k, v in exp.items())
    if isinstance(exp, list) and exp and isinstance(exp[0], dict):
        return sum(_distance(v, got[i] if isinstance(got, list) and i < len(got) else None) for i, v in enumerate(exp))
    return 0 if rp.diff(exp, got) is None else 1


def replay_owned(graph, owned, ad, fam):
    """(state, add/insert of an already-owned object): one group per call, judged against the outcomes the spec emitted.
    ``graph`` supplies the paths (it holds no such call, so no path runs through one); ``owned`` are the emitted edges of these calls.
    Returns (n_groups, n_conforming, findings) with findings = [(key, what, payload)]."""
    groups = {}
    for e in owned:
        call = {k: v for k, v in e["act"].items() if k != "out"}
        groups.setdefault((rp.skey(e["from"]), rp.skey(call)), {})[e["act"]["out"]] = e
    n = ok = 0
    findings = []
    for (fk, _call), alts in groups.items():
        pre = graph.path.get(fk)
        if pre is None or "moved" not in alts or "refused" not in alts:
            continue
        n += 1
        root = pre[0]["from"] if pre else alts["moved"]["from"]
        divs = {}
        for out in ("moved", "refused", "stale"):
            if out in alts:
                divs[out] = rp.run_behaviour(ad, root, pre + [alts[out]], check_from=len(pre))
                if divs[out] is None:
                    break
        if divs.get("moved") is None or divs.get("refused") is None:
            ok += 1  # one of the two outcomes the specification allows
            continue
        name = alts["moved"]["act"]["n"]
        pfx = "replay:%s%s" % ("" if fam == "generic" else fam + ":", name)
        if "stale" in divs and divs["stale"] is None:
            d = divs["moved"]
            findings.append((pfx + ":stale", "real %s objects: %s of an object that another parent still lists neither moves it nor refuses: "
                             "the former parent keeps listing it (vs. the 'moved' outcome: %s)" % (fam, name, d["first_difference"]),
                             dict(d, direction="replay", adapter=fam, consts=ad.consts)))
            continue
        # neither allowed nor the known deviation: name the field that differs from the closest outcome
        got = divs["moved"].get("observed", {})
        base = min(divs, key=lambda out: (_distance(alts[out]["obs"], got), out))
        d = divs[base]
        field = re.sub(r"\[\d+\]", "", d["first_difference"].split(":")[0])
        findings.append(("%s~%s:%s" % (pfx, base, field), "real %s objects diverge from every outcome of %s (closest: %s): %s" % (
            fam, json.dumps(d["action"]), base, d["first_difference"]), dict(d, direction="replay", adapter=fam, consts=ad.consts)))
    return n, ok, findings


def run(rep, tier, seed):
    thorough = tier == "thorough"
    suffix = "_thorough" if thorough else ""
    tlc.sany("CompositeTree_mc", MODDIR)
    tlc.sany("CompositeTree_trace", MODDIR)
    rep.exhaustive = True
    # every TLC run is a process of its own: the exhaustive runs and the emission runs of the four families are started together
    # (the exhaustive ones share the cores), each family's replay starts when its emission has finished, and each trace
    # validation runs while the next family is replayed.  Results are reported in a fixed order.
    pool = ThreadPoolExecutor(max_workers=8)
    mcw = max(2, common.NCPU // 4)
    mc_jobs, emit_jobs, trace_jobs = {}, {}, {}
    for fam, (mcfg, ecfg, tcfg) in FAMILIES.items():
        mcfg, ecfg = mcfg % suffix, ecfg % suffix
        if not _SELFTEST:
            mc_jobs[fam] = pool.submit(tlc.run, "CompositeTree_mc", mcfg, MODDIR, workers=mcw, want_prints=False, timeout=3000)
        if ecfg not in _EMIT_CACHE:
            emit_jobs[fam] = pool.submit(tlc.run, "CompositeTree_mc", ecfg, MODDIR, workers=1, coverage=False, timeout=3000)
    try:
        _run_families(rep, thorough, suffix, seed, pool, mc_jobs, emit_jobs, trace_jobs)
    finally:
        pool.shutdown(wait=True, cancel_futures=True)
    rep.assume(
        "legal edits only: add/insert/setChildren receive objects that are not ancestors of the new parent; add/insert of an object that "
        "another parent still lists has its own actions (AddAttached/InsertAttached: must move the object or refuse)",
        "deep order = children of the node first, then each child's expansion (documented getChildren(deep=True) order)",
        "generic family: each object owns a CartesianGrid; Add = add ; moveTo(parent.spatialGrid[i,0,0])",
        "typed family: HexAssembly > HexBlock > Circle; Assembly.add places and re-indexes blocks, Assembly.insert places at the index",
        "pins family: blocks carry a pin lattice and may hold a component group (plain Composite of components) next to components; the "
        "components are Spheres (group members are 3-D shapes in armi) and a group that sits in a block is never left empty (GroupsFilled: "
        "Block.remove divides by the total area of the remaining children)",
        "reactor family: Reactor > {Core, SpentFuelPool} > HexAssembly > empty HexBlock; assembly tracking on; iterBlocks/getFirstBlock/"
        "getFirstAssembly follow child order, getAssemblies() is compared with the LOCATION-sorted child list it documents",
        "a list handed out by a query is emptied by the harness and every query is asked again before the answers are compared",
    )


def _run_families(rep, thorough, suffix, seed, pool, mc_jobs, emit_jobs, trace_jobs):
    drivers = {}
    for fam, (mcfg, ecfg, tcfg) in FAMILIES.items():
        mcfg, ecfg = mcfg % suffix, ecfg % suffix
        # 2. spec -> code: every explored edge of the emission config, executed on real objects
        if ecfg not in _EMIT_CACHE:
            _EMIT_CACHE[ecfg] = emit_jobs[fam].result()
        eres = _EMIT_CACHE[ecfg]
        if eres.violation:
            rep.violation("tlc:" + eres.violation["name"], "TLC: %s violated in the specification (%s)" % (eres.violation["name"], ecfg),
                          {"direction": "tlc", "trace": eres.violation["trace"][:20000]})
        obs = {rp.skey(p["st"]): p["obs"] for p in eres.prints if isinstance(p, dict) and "st" in p}
        edges = [p for p in eres.prints if isinstance(p, dict) and "act" in p]
        for e in edges:
            o = obs.get(rp.skey(e["to"]))
            if o is None:
                continue
            o = dict(o)
            o["err"] = e["err"]
            e["obs"] = o
        edges = [e for e in edges if "obs" in e]
        seen = {act_label(e["act"]) for e in edges}
        missing = [a for a in EMITTED[fam] if a not in seen]
        if missing:
            raise tlc.MachineryError("vacuous: actions never emitted by %s: %s" % (ecfg, missing))
        # paths never run through an add/insert of an already-owned object (real objects are left broken by it today): the
        # graph that supplies the paths holds the other edges only; a state reachable only through such a call is not replayed
        owned = [e for e in edges if e["act"]["n"] in ATTACHED]
        g = rp.Graph([e for e in edges if e["act"]["n"] not in ATTACHED])
        ad = adapter(fam, cfg_constants(ecfg))
        # reactor family: the projection is compared after EVERY step of a path, so that a divergence is reported at the step
        # that causes it and not again under every action that follows it
        n, nt, divs = rp.replay_graph(g, ad, max_edges=None, rng=random.Random(seed), check_prefix=ad.rx)
        if n == 0:
            raise tlc.MachineryError("no edges replayed for " + fam)
        for d in divs:
            rep.violation(key_of(d, fam), "real %s objects diverge from CompositeTree after %s: %s" % (
                fam, json.dumps(d["action"]), d["first_difference"]), dict(d, direction="replay", adapter=fam, consts=ad.consts))
        no, oko, found = replay_owned(g, owned, ad, fam)
        for key, what, payload in found:
            rep.violation(key, what, payload)
        rep.add_replay(fam + "-edges", n + no, nt + no,
                       "every edge (s,a,t) of TLC's state graph is executed as path(s);a on fresh armi objects (%s family); "
                       "non-trivial = the edge changes the abstract state; add/insert of an already-owned object: one behaviour per "
                       "(state, call), compared with every outcome the specification emitted" % fam)
        if no:
            rep.extra.setdefault("owned", {})[fam] = {"calls": no, "conforming_to_an_allowed_outcome": oko}
        if g.edges:
            e = g.edges[len(g.edges) // 2]
            rep.sample({"kind": "edge", "family": fam, "path": [s["act"] for s in g.path[e["_fk"]]], "act": e["act"],
                        "expected_obs": e["obs"]})

        # 3. code -> spec: random long edit histories on bigger trees, validated by TLC against CompositeTree_trace
        tconsts = cfg_constants(tcfg)
        tad = adapter(fam, tconsts)
        ntr = 400 if thorough else 80
        root0 = next(iter(g.roots.values()))["from"] if g.roots else None
        traces = tracecheck_driver(tad, ntr, 40 if thorough else 25, seed, tconsts, root0)
        drivers[fam] = traces
        trace_jobs[fam] = pool.submit(tracecheck.validate, "CompositeTree_trace", tcfg, MODDIR, traces, timeout=3000)

    for fam, (mcfg, ecfg, tcfg) in FAMILIES.items():
        mcfg, ecfg = mcfg % suffix, ecfg % suffix
        # 1. exhaustive model checking of the design (all invariants / action properties, coverage)
        if fam in mc_jobs:
            res = mc_jobs[fam].result()
            rep.add_tlc("exhaustive:" + mcfg, res)
            if res.violation:
                rep.violation("tlc:" + res.violation["name"], "TLC: %s violated in the specification" % res.violation["name"],
                              {"direction": "tlc", "trace": res.violation["trace"][:20000]})
            never = [a for a in ACTIONS[fam] if res.coverage.get(a, (0, 0))[1] == 0]
            if never and not res.violation:
                raise tlc.MachineryError("vacuous: actions never taken in %s: %s" % (mcfg, never))
        rep.add_tlc("edges:" + ecfg, _EMIT_CACHE[ecfg])
        traces = drivers[fam]
        bad, stats = trace_jobs[fam].result()
        rep.add_tlc("trace-validation:" + fam, stats["tlc"])
        rep.add_traces(fam + "-random-edit-histories", len(traces), sum(len(t["ev"]) for t in traces),
                       "seeded random edit histories on small forests / reactors run on real objects; every event (op, args, full "
                       "projected post-state incl. all query results) must be a step of CompositeTree")
        rep.sample({"kind": "trace", "family": fam, "id": traces[0]["id"], "events": traces[0]["ev"][:2]})
        byid = {t["id"]: t for t in traces}
        for b in bad:
            ev = b["trace"]["ev"]
            k = b["matched"]
            nxt = ev[k] if k < len(ev) else {}
            suffix_ = ""
            exp_ = (b.get("mismatch") or {}).get("expected")
            if isinstance(exp_, dict) and isinstance(nxt.get("post"), dict):
                d_ = rp.diff(exp_, nxt["post"])
                suffix_ = _shared(nxt.get("a", {}), exp_, nxt["post"], d_.split(":")[0]) if d_ else ""
            rep.violation("trace:%s:%s%s" % (fam, nxt.get("a", {}).get("n", b.get("invariant", "?")), suffix_),
                          "recorded history is not a behaviour of CompositeTree at event %d (%s) %s" % (
                              k + 1, json.dumps(nxt.get("a")), json.dumps(b.get("mismatch", ""))[:600]),
                          {"direction": "trace", "family": fam, "trace": b["trace"], "matched": k, "tlc": b.get("tlc")})
        # events that TLC could only match with the known deviation ("stale" outcome of add/insert of an already-owned object)
        for p in stats["tlc"].prints:
            if isinstance(p, dict) and "deviant" in p:
                rep.violation("trace:%s:%s:stale" % (fam, p["n"]),
                              "recorded history %s, event %d: %s of an object that another parent still lists neither moved it nor "
                              "refused -- the former parent keeps listing it" % (p["deviant"], p["at"], p["n"]),
                              {"direction": "trace", "family": fam, "trace": byid.get(p["deviant"]), "matched": p["at"] - 1})


def tracecheck_driver(ad, ntraces, nev, seed, consts, root0=None):
    """Random legal+illegal edits on real objects; log op + projected post-state.  Every fourth history ENDS with an add / insert
    of an object that another parent still lists (terminal: see the module header)."""
    rng = random.Random(seed * 7919 + 1)
    traces = []
    NO, N, NL = consts["NOrig"], consts["N"], consts["NLoc"]
    owned_ok = bool(consts.get("WithOwned"))
    for t in range(ntraces):
        root = dict(root0) if ad.rx else {}
        root["live"] = list(range(1, NO + 1))
        w = ad.build(root)
        ev = []
        plan = [None] * nev + ([ATTACHED[(t // 4) % 2]] if owned_ok and t % 4 == 3 else [])
        for forced in plan:
            a = random_action(ad, w, rng, N, NL, forced)
            if a is None:
                continue
            try:
                ad.apply(w, a)
                ev.append({"a": a, "post": ad.project(w)})
            except Exception as ex:  # noqa: BLE001  an escaping exception ends the history; TLC will reject the event
                ev.append({"a": a, "post": {"exception": "%s: %s" % (type(ex).__name__, str(ex)[:200])}})
                break
        traces.append({"id": "%s%d" % (ad.name[0], t), "ev": ev})
    return traces


def random_action(ad, w, rng, N, NL, forced=None):
    O = w["obj"]
    live = sorted(O)
    typed = ad.typed

    def kind_of(n):
        return ad.kind(w["orig"][n])

    # the driver's own bookkeeping comes from the child lists only (never from .parent, which is under test)
    owner = {}
    for m in live:
        for k in O[m]:
            owner[id(k)] = O[m]
    if ad.rx:
        return random_rx_action(ad, w, rng, N, NL, owner, kind_of)
    kinds = ["Add", "Add", "Insert", "Insert", "Remove", "RemoveAll", "SetChildren", "SetChildrenSame", "Sort",
             "DeepCopy", "Pickle", "AddPresent", "InsertPresent", "RemoveAbsent"]
    pins = getattr(ad, "blkgrid", False)
    kinds += (["Reestablish", "Reestablish", "AddWrongType", "Add", "Insert", "Insert"] + (["MoveTo", "MoveTo"] if pins else ["Replace"])) if typed else ["MoveTo"]
    kind = forced or rng.choice(kinds)

    def fits(p, c):
        return not typed or (kind_of(p), kind_of(c)) in (("asm", "blk"), ("blk", "cmp"), ("blk", "grp"), ("grp", "cmp"))

    def anc_self(n):
        out = []
        x = O[n]
        while x is not None and len(out) < 64:
            out.append(id(x))
            x = owner.get(id(x))
        return out

    def can_take(p, c):
        return id(O[c]) not in owner and id(O[c]) not in anc_self(p) and fits(p, c)

    def last_of_group(c):
        """domain (GroupsFilled in the spec): a component group that sits in a block is never emptied"""
        g = owner.get(id(O[c]))
        return g is not None and not _is_component(g) and type(g) is ad.Node and typed and id(g) in owner and len(g) == 1

    def empty_group(c):
        return typed and kind_of(c) == "grp" and len(O[c]) == 0

    p = rng.choice(live)
    kids = [k for k in live if owner.get(id(O[k])) is O[p]]
    in_block = typed and kind_of(p) == "grp" and id(O[p]) in owner
    if kind in ATTACHED:
        pairs = [(q, c) for q in live for c in live if id(O[c]) in owner and owner[id(O[c])] is not O[q]
                 and id(O[c]) not in anc_self(q) and fits(q, c) and not last_of_group(c)]
        if not pairs:
            return None
        q, c = rng.choice(pairs)
        a = {"n": kind, "p": q, "c": c, "i": rng.randrange(NL) if not typed else 0}
        if kind == "InsertAttached":
            a["k"] = rng.randrange(len(O[q]) + 1)
        return a
    if kind in ("Add", "Insert"):
        cs = [c for c in live if can_take(p, c) and not empty_group(c)]
        if not cs:
            return None
        c = rng.choice(cs)
        if kind == "Add":
            return {"n": "Add", "p": p, "c": c, "i": rng.randrange(NL)}
        return {"n": "Insert", "p": p, "k": rng.randrange(len(kids) + 1), "c": c, "i": rng.randrange(NL)}
    if kind == "AddWrongType":
        cs = [c for c in live if kind_of(p) == "asm" and kind_of(c) in ("cmp", "grp") and id(O[c]) not in owner]
        return {"n": kind, "p": p, "c": rng.choice(cs)} if cs else None
    if kind in ("Remove", "AddPresent", "InsertPresent"):
        if not kids or (kind == "Remove" and in_block and len(kids) == 1):
            return None
        return {"n": kind, "p": p, "c": rng.choice(kids)}
    if kind == "RemoveAbsent":
        cs = [c for c in live if c != p and c not in kids]
        return {"n": kind, "p": p, "c": rng.choice(cs)} if cs else None
    if kind in ("RemoveAll", "SetChildrenSame"):
        return {"n": kind, "p": p} if kids and not (kind == "RemoveAll" and in_block) else None
    if kind == "Replace":
        bs = [b for b in live if kind_of(b) == "blk"]
        if len(bs) < 2:
            return None
        b, t = rng.sample(bs, 2)
        free = [i for i in range(1, N + 1) if i not in O]
        k = len(O[t])
        return {"n": kind, "b": b, "t": t, "ids": free[:k]} if k <= len(free) else None
    if kind == "Reestablish":
        return {"n": kind, "p": p} if kids and kind_of(p) == "asm" else None
    if kind == "SetChildren":
        cand = [c for c in live if (c in kids or can_take(p, c)) and not empty_group(c)]
        rng.shuffle(cand)
        s = cand[: rng.randrange(0, 4)]
        return {"n": kind, "p": p, "s": s} if s or not in_block else None
    if kind == "MoveTo":
        cs = [c for c in live if id(O[c]) in owner and O[c].parent is owner[id(O[c])] and (not typed or kind_of(c) == "cmp")
              and owner[id(O[c])].spatialGrid is not None]
        if not cs:
            return None
        c = rng.choice(cs)
        sl0 = O[c].spatialLocator
        cur = -1 if sl0.grid is None else (sl0[0].i if isinstance(sl0, ad.grids.MultiIndexLocation) and len(sl0) else sl0.i)
        i = rng.choice([i for i in range(NL) if i != cur])  # spec: enabled iff loc # i or not attached
        return {"n": kind, "c": c, "i": i}
    if kind == "Sort":
        inv = {id(v): n for n, v in O.items()}
        for x in walk(O[p]):
            if len(x) >= 2 and any(k.spatialLocator.grid is None and len(k) + 1 and not _is_component(k) for k in x):
                return None
            if len(x) >= 2 and ad.NGRP:
                # domain (Sortable in the spec): Spheres can only be ordered by outer diameter; no mixed component / group siblings
                comps = [w["orig"][inv[id(k)]] for k in x if _is_component(k)]
                if 0 < len(comps) < len(x) or len(set(comps)) < len(comps):
                    return None
        return {"n": kind, "p": p} if kids else None
    if kind in ("DeepCopy", "Pickle"):
        size = len(walk(O[p]))
        free = [i for i in range(1, N + 1) if i not in O]
        if size > len(free):
            return None
        return {"n": kind, "x": p, "ids": free[:size]}
    return None


def random_rx_action(ad, w, rng, N, NL, owner, kind_of):
    """reactor family: Core.add at any free cell, purge, discharge, two assemblies trading places, sorts, copies"""
    O = w["obj"]
    live = sorted(O)
    kind = rng.choice(["CoreAdd"] * 4 + ["Purge", "Discharge", "Discharge", "Swap", "Swap", "Swap", "SortRing", "Sort", "DeepCopy", "Pickle"])
    cores = [k for k in live if kind_of(k) == "core" and id(O[k]) in owner]
    if kind in ("DeepCopy", "Pickle"):
        xs = [x for x in live if kind_of(x) in ("rx", "core")]
        x = rng.choice(xs)
        size = len(walk(O[x]))
        free = [i for i in range(1, N + 1) if i not in O]
        return {"n": kind, "x": x, "ids": free[:size]} if size <= len(free) else None
    if not cores:
        return None
    k = rng.choice(cores)
    inv = {id(v): n for n, v in O.items()}
    kids = [inv[id(c)] for c in O[k]]
    if kind == "CoreAdd":
        pools = [x for x in owner[id(O[k])] if kind_of(inv[id(x)]) == "sfp"]
        names = {w["orig"][c] for c in kids} | {w["orig"][inv[id(c)]] for s in pools for c in s}
        cs = [a for a in live if kind_of(a) == "asm" and id(O[a]) not in owner and w["orig"][a] not in names]
        cells = [i for i in range(NL) if all(O[c].spatialLocator.i != i for c in kids)]
        return {"n": kind, "k": k, "a": rng.choice(cs), "i": rng.choice(cells)} if cs and cells else None
    if kind in ("Purge", "Discharge"):
        return {"n": kind, "k": k, "a": rng.choice(kids)} if kids else None
    if kind == "Swap":
        if len(kids) < 2:
            return None
        a, b = sorted(rng.sample(kids, 2))
        return {"n": kind, "k": k, "a": a, "b": b}
    if kind == "SortRing":
        return {"n": kind, "k": k} if len(kids) >= 2 else None
    if kind == "Sort":
        return {"n": kind, "p": k} if kids else None
    return None


def _is_component(o):
    from armi.reactor.components import Component

    return isinstance(o, Component)


def replay(payload):
    ad = adapter(payload.get("adapter", payload.get("family", "generic")), payload.get("consts"))
    if payload.get("direction") == "replay":
        steps = [{"act": a, "obs": {}} for a in payload["behaviour"]]
        steps[-1]["obs"] = payload["expected"]
        d = replay_mod_run(ad, payload["root"], steps)
        print(json.dumps(d, indent=1, default=str) if d else "no divergence: behaviour conforms")
        return 1 if d else 0
    print("replay of direction=%s: see payload (TLC trace / recorded trace)" % payload.get("direction"))
    return 0


def replay_mod_run(ad, root, steps):
    return rp.run_behaviour(ad, root, steps, check_from=len(steps) - 1)


def selftest():
    """In-process mutants of the anchored code; each must be detected by replay or trace validation."""
    global _SELFTEST
    from harness.armi_env import armi_ready
    from harness.report import Report
    from harness.selftest import patched, run_mutants

    armi_ready()
    from armi.reactor import assemblies, blocks, composites

    _SELFTEST = True
    C = composites.Composite

    def detect():
        rep = Report("C01", "quick", 0)
        run(rep, "quick", 0)
        return [v["key"] for v in rep.violations]

    def insert_no_parent(self, index, obj):
        if obj in self._children:
            raise RuntimeError("present")
        self._children.insert(index, obj)

    def remove_keep_locator(self, obj):
        self._children.remove(obj)
        obj.parent = None

    def iter_off_by_one(self, deep, generationNum, checker):
        if deep or generationNum == 1:
            yield from filter(checker, self)
        if deep or generationNum > 1:
            for c in self:
                yield from c._iterChildren(deep, generationNum - 2 if generationNum > 2 else generationNum - 1, checker)

    def iter_prunes(self, deep, generationNum, checker):
        if deep or generationNum == 1:
            yield from filter(checker, self)
        if deep or generationNum > 1:
            for c in filter(checker, self):
                yield from c._iterChildren(deep, generationNum - 1, checker)

    def contains_eq(self, item):
        return any(item.name == c.name for c in self._children)

    def setstate_no_reattach(self, state):
        self.__dict__.update(state)
        if self.spatialGrid is not None:
            self.spatialGrid.armiObject = self
            for c in self:
                c.spatialLocator.associate(self.spatialGrid)

    def setstate_no_grid(self, state):
        self.__dict__.update(state)
        for c in self:
            c.parent = self

    def sort_shallow(self):
        self._children.sort()

    def setchildren_keep(self, items):
        for c in items:
            if c not in self:
                self.add(c)

    def reestablish_skip_last(self):
        from armi.reactor import grids
        self.spatialGrid = grids.AxialGrid.fromNCells(len(self))
        self.spatialGrid.armiObject = self
        for zi, b in enumerate(self[:-1] if len(self) > 1 else self):
            b.spatialLocator = self.spatialGrid[0, 0, zi]

    def asm_insert_noloc(self, index, obj):
        self._checkPotentialChild(obj, "insert")
        composites.Composite.insert(self, index, obj)

    def anc_flags_skip_self(self, typeSpec, exactMatch=False):
        if self.parent is None:
            return None
        if self.parent.hasFlags(typeSpec, exact=exactMatch):
            return self.parent
        return self.parent.getAncestorWithFlags(typeSpec, exactMatch=exactMatch)

    orig_deepcopy = blocks.Block.__deepcopy__

    def block_deepcopy_shares_child(self, memo):
        b = orig_deepcopy(self, memo)
        if len(self) > 1:
            b._children[-1] = self._children[-1]
        return b

    from armi.reactor.grids import locations

    def insert_fastpath(self, index, obj):
        if obj in self._children:
            raise RuntimeError("present")
        if index >= len(self._children):
            self.append(obj)
            return
        obj.parent = self
        self._children.insert(index, obj)

    def block_deepcopy_shares_grid(self, memo):
        if self.spatialGrid is not None:
            memo[id(self.spatialGrid)] = self.spatialGrid
        return orig_deepcopy(self, memo)

    def flags_merged(self, typeSpec, exactMatch=False):
        from armi.reactor.flags import Flags
        if isinstance(typeSpec, (list, tuple)):
            merged = Flags(0)
            for f in typeSpec:
                merged |= f
            typeSpec = merged
        return self.iterChildren(predicate=lambda o: o.hasFlags(typeSpec, exactMatch))

    def anc_dist_from_parent(self, fn, _distance=0):
        if self.parent is None:
            return None
        if fn(self.parent):
            return self.parent, _distance + 1
        return self.parent.getAncestorAndDistance(fn, _distance + 1)

    def multi_associate_cells_only(self, grid):
        for loc in self._locations:
            loc.associate(grid)

    def of_type_substring(self, typeName):
        return self.iterChildren(predicate=lambda o: typeName in o.getType())

    from armi.reactor import cores, excoreStructure

    orig_getchildren = C.getChildren

    def getchildren_live(self, deep=False, generationNum=1, includeMaterials=False, predicate=None):
        if not (deep or includeMaterials) and generationNum == 1 and predicate is None:
            return self._children
        return orig_getchildren(self, deep=deep, generationNum=generationNum, includeMaterials=includeMaterials, predicate=predicate)

    def excore_deepcopy_shallow_items(self, memo):
        memo[id(self)] = newE = self.__class__.__new__(self.__class__)
        newE.__setstate__(copy.deepcopy(self.__getstate__(), memo))
        newE.update(self)
        return newE

    def iterblocks_by_location(self, typeSpec=None, exact=False, predicate=None):
        ok = lambda b: (typeSpec is None or b.hasFlags(typeSpec, exact=exact)) and (predicate is None or predicate(b))  # noqa: E731
        return (b for a in self.getAssemblies() for b in a if ok(b))

    def block_iter_stops_at_children(self, deep, generationNum, checker):
        if deep or generationNum == 1:
            yield from filter(checker, self)

    def coordinate_detached_is_self(self):
        return self

    def add_owned_keeps_old_parent(self, obj):
        # only differs from HEAD for an object that another parent still lists: listed by the new parent, parent pointer untouched
        if obj in self:
            raise RuntimeError("present")
        if obj.parent is None:
            obj.parent = self
        self._children.append(obj)

    P = patched
    mutants = [
        ("seed3-1 getChildren() hands out the live child list", lambda: P(C, "getChildren", getchildren_live)),
        ("seed3-2 ExcoreCollection.__deepcopy__ re-uses the original's structures", lambda: P(excoreStructure.ExcoreCollection, "__deepcopy__", excore_deepcopy_shallow_items)),
        ("seed3-3 CoordinateLocation.detachedCopy returns self", lambda: P(locations.CoordinateLocation, "detachedCopy", coordinate_detached_is_self)),
        ("seed3-4 Core.iterBlocks walks the location-sorted assemblies", lambda: P(cores.Core, "iterBlocks", iterblocks_by_location)),
        ("seed3-5 Block._iterChildren stops at the block's direct children", lambda: P(blocks.Block, "_iterChildren", block_iter_stops_at_children)),
        # a DIFFERENT failure of add(already-owned object) must not hide behind the key of the known one (...:stale)
        ("Composite.add of an already-owned object does not even set its parent", lambda: P(C, "add", add_owned_keeps_old_parent)),
        ("Composite.insert at/after the end appends without setting the parent", lambda: P(C, "insert", insert_fastpath)),
        ("Block.__deepcopy__ shares the pin lattice with the original", lambda: P(blocks.Block, "__deepcopy__", block_deepcopy_shares_grid)),
        ("iterChildrenWithFlags ORs a list of candidate flags into one", lambda: P(composites.ArmiObject, "iterChildrenWithFlags", flags_merged)),
        ("getAncestorAndDistance starts at the parent", lambda: P(composites.ArmiObject, "getAncestorAndDistance", anc_dist_from_parent)),
        ("MultiIndexLocation.associate forgets its own grid", lambda: P(locations.MultiIndexLocation, "associate", multi_associate_cells_only)),
        ("iterChildrenOfType matches type names by substring", lambda: P(composites.ArmiObject, "iterChildrenOfType", of_type_substring)),
        ("Composite.insert forgets obj.parent = self", lambda: P(C, "insert", insert_no_parent)),
        ("Composite.remove keeps the locator attached", lambda: P(C, "remove", remove_keep_locator)),
        ("_iterChildren generation counter off by one (gen 3)", lambda: P(C, "_iterChildren", iter_off_by_one)),
        ("_iterChildren prunes below nodes failing the predicate", lambda: P(C, "_iterChildren", iter_prunes)),
        ("__contains__ by name equality", lambda: P(C, "__contains__", contains_eq)),
        ("__setstate__ does not re-attach children", lambda: P(composites.ArmiObject, "__setstate__", setstate_no_reattach)),
        ("__setstate__ does not re-own the grid", lambda: P(composites.ArmiObject, "__setstate__", setstate_no_grid)),
        ("sort not recursive", lambda: P(C, "sort", sort_shallow)),
        ("setChildren keeps old children", lambda: P(C, "setChildren", setchildren_keep)),
        ("reestablishBlockOrder skips the last block", lambda: P(assemblies.Assembly, "reestablishBlockOrder", reestablish_skip_last)),
        ("Assembly.insert does not place the block", lambda: P(assemblies.Assembly, "insert", asm_insert_noloc)),
        ("getAncestorWithFlags skips self", lambda: P(composites.ArmiObject, "getAncestorWithFlags", anc_flags_skip_self)),
        ("Block.__deepcopy__ shares its last component", lambda: P(blocks.Block, "__deepcopy__", block_deepcopy_shares_child)),
    ]
    try:
        return run_mutants(mutants, detect)
    finally:
        _SELFTEST = False
