"""C14 -- fuel shuffling: TLC exhaustive run of FuelShuffle, replay of every explored edge through a real FuelHandler /
Core / SpentFuelPool on generated cores, and TLC validation of long random shuffle histories recorded from the code."""
import json
import os
import random
import re
import sys
import time

from harness import common, gen_core, tlc, tracecheck
from harness import replay as rp

# stationary blocks of unequal height (legal; armi only warns): the exchange branch that re-establishes block order
gen_core.UNEVEN_PLATES = True
from harness.armi_env import armi_ready

MODDIR = os.path.join(common.SPEC, "core")
ACTIONS = ("Swap", "SwapMismatch", "Add", "AddOccupied", "RemoveAsm", "DischargeSwap", "DischargeMismatch", "Ask", "Next")
# "Next" is how TLC's coverage labels the disjuncts whose bound variable ranges over a computed set (Cascade, Repeat)
# and the guarded Locate

# the order in which observation fields are compared; the first differing field names the violation key
FIELDS = ("err", "children", "where", "loc", "byLoc", "byLocSize", "sfp", "slot", "num", "nextNum", "asmFound", "asmDead",
          "blkFound", "blkDead", "blocks", "bowner", "bk", "bname", "content", "moves", "label", "q",
          "names", "order", "zones", "all", "union", "find", "dups")
LABEL_DB, LABEL_SFP = -1, -2

_BNAME = re.compile(r"^B(-?\d+)-(\d+)$")
_ANAME = re.compile(r"^A(-?\d+)$")
BAD = -999  # an unparsable / inconsistent name, reported in "notes"
PLACEHOLDER_BASE = 1000  # fresh assembly <id> is built with the placeholder number -(1000 + id), as Assembly() does with a random one


def _num(n):
    """assembly number as the specification writes it: placeholders are -<assembly id>"""
    n = int(n)
    return n if n >= 0 else n + PLACEHOLDER_BASE


# ------------------------------------------------------------------------------------------------------------
class CoreAdapter:
    """builds a generated core for the constants TLC printed, applies one action through the public armi calls,
    projects the real objects onto the observation record of the specification."""

    def __init__(self, config, geom="hex", symmetry="full"):
        armi_ready()
        self.cfg = config
        self.geom, self.symmetry = geom, symmetry
        self.NA0, self.NF, self.MB, self.NL = config["NA0"], config["NF"], config["MB"], config["NL"]
        self.NP0 = config.get("NP0", 0)
        self.NA = self.NA0 + self.NP0 + self.NF
        self.layout = {a + 1: "".join(config["layout"][a]) for a in range(self.NA)}
        self.place = {a + 1: config["place"][a] for a in range(self.NA0)}
        self.blkseq = list(config["blk"])
        self.no_answer = config.get("noAnswer", {"asm": [], "str": [], "blk": [], "idx": []})
        self._dbdir = None

    def bid(self, aid, k):
        return (aid - 1) * self.MB + k

    def db_file(self, root, stationary):
        """one database file per (geometry, settings): written by the first build, loaded by every build"""
        if self._dbdir is None:
            self._dbdir = common.workdir("c14db")
        return os.path.join(self._dbdir, "core-%s-%s-%d-%s-%d.h5" % (
            self.geom, self.symmetry, int(bool(root["track"])), "".join(stationary) or "none", self.NA))

    def moves_file(self, w, act):
        """the SHUFFLES-format record of the outage TLC chose: the lines the real readMoves/processMoveList parse"""
        if self._dbdir is None:
            self._dbdir = common.workdir("c14db")
        inv = {l: lab for lab, l in w.labels.items()}
        by_loc = {}
        for a in w.core:  # who is where, for the type / name / enrichment columns of the record
            sl = a.spatialLocator
            by_loc[w.loc_index.get((int(sl.i), int(sl.j)))] = a

        def line(a, src, dst):
            return "%s moved to %s with assembly type %s ANAME=%s with enrich list: %s\n" % (
                src, dst, a.getType(), a.getName(), " ".join("%.8f" % 0.0 for _ in a))

        lines = []
        load = act.get("load") or {"chain": [], "inc": 0}
        ch = load["chain"]
        if ch:
            lines.append(line(by_loc[ch[0]], inv[ch[0]], "SFP"))
            for p in range(1, len(ch)):
                lines.append(line(by_loc[ch[p]], inv[ch[p]], inv[ch[p - 1]]))
            lines.append(line(w.asm[load["inc"]], "SFP", inv[ch[-1]]))
        for c in act.get("loops") or []:
            for p in range(len(c)):
                lines.append(line(by_loc[c[p]], inv[c[p]], inv[c[(p + 1) % len(c)]]))
        w.nfiles = getattr(w, "nfiles", 0) + 1
        fn = os.path.join(self._dbdir, "moves-%d-%d-SHUFFLES.txt" % (id(w), w.nfiles))
        with open(fn, "w") as f:
            f.write("Before cycle %d:\n" % (int(w.r.p.cycle) + 1))
            f.writelines(lines)
            f.write("\n")
        return fn

    def ask(self, w):
        """the look-ups by location, none of them given a pre-built table"""
        core, grid = w.core, w.core.spatialGrid
        q = {"asm": [], "str": [], "blk": [], "idx": []}

        def A(o):
            return 0 if o is None else w.aid.get(id(o), -99)

        def B(o):
            return 0 if o is None else w.bid.get(id(o), -99)

        for l in range(1, self.NL + 1):
            i, j = w.locs[l - 1]
            lab = grid.getLabel((i, j))
            try:
                a = core.getLocationContents([lab], assemblyLevel=True)[0]
            except KeyError:
                a = None
            q["asm"].append(A(a))
            if self.geom == "cartesian":
                # ring/position labels are not defined for Cartesian grids (CartesianGrid.getIndicesFromRingAndPos
                # raises NotImplementedError by design); its documentation points to the location table itself
                q["str"].append(A(core.childrenByLocator.get(grid[i, j, 0])))
            else:
                q["str"].append(A(core.getAssemblyWithStringLocation(lab)))
            blk, idx = [], []
            for k in range(self.MB):
                try:
                    b = core.getLocationContents([grid.getLabel((i, j, k))])[0]
                except KeyError:
                    b = None
                blk.append(B(b))
                try:
                    b = core.getBlocksByIndices([(i, j, k)])[0]
                except (KeyError, IndexError):
                    b = None
                idx.append(B(b))
            q["blk"].append(blk)
            q["idx"].append(idx)
        return q

    def build(self, root, regen=True):
        from_db = any(x == LABEL_DB for x in root.get("label", ())) or bool(root.get("db"))
        sf = root["sflags"]
        stationary = tuple(sorted(x for x in sf if sf[x]))
        w = gen_core.build_core(
            layout={a: self.layout[a] for a in range(1, self.NA0 + 1)},
            pooled={a: self.layout[a] for a in range(self.NA0 + 1, self.NA0 + self.NP0 + 1)},
            fresh={a: self.layout[a] for a in range(self.NA0 + self.NP0 + 1, self.NA + 1)},
            places=self.place, n_locs=self.NL, track=bool(root["track"]), stationary=stationary,
            geom=self.geom, symmetry=self.symmetry, placeholder=lambda aid: -(PLACEHOLDER_BASE + aid),
            regen=regen, db_file=self.db_file(root, stationary) if from_db else None)
        w.err, w.exc, w.last, w.q = "", "", "", None
        w.labels = {}
        for l in range(1, self.NL + 1):
            i, j = w.locs[l - 1]
            w.labels[w.core.spatialGrid.getLabel((i, j))] = l
        w.aid = {id(a): k for k, a in w.asm.items()}
        w.bid = {id(b): self.bid(a, k) for (a, k), b in w.blk.items()}
        w.fp0 = {self.bid(a, k): f for (a, k), f in w.fingerprint0.items()}
        w.blkobj = {self.bid(a, k): b for (a, k), b in w.blk.items()}
        return w

    def locator(self, w, l):
        i, j = w.locs[l - 1]
        return w.core.spatialGrid[i, j, 0]

    def apply(self, w, a):
        n = a["n"]
        A = w.asm
        w.err, w.exc, w.last, w.q = "", "", n, None
        try:
            if n == "Ask":
                w.q = self.ask(w)
            elif n == "Locate":
                w.core.locateAllAssemblies()
            elif n == "Repeat":
                w.fh.repeatShufflePattern(self.moves_file(w, a))
            elif n in ("Swap", "SwapMismatch"):
                w.fh.swapAssemblies(A[a["x"]], A[a["y"]])
            elif n == "Cascade":
                w.fh.swapCascade([A[x] if x else None for x in a["l"]])  # 0 = a None entry
            elif n == "Add":
                if a.get("how") == "own":  # the way blueprints load a core: place the locator, then add
                    before = A[a["a"]].spatialLocator
                    A[a["a"]].spatialLocator = self.locator(w, a["l"])
                    try:
                        w.core.add(A[a["a"]])
                    except Exception:
                        A[a["a"]].spatialLocator = before  # the caller takes back its own preparation
                        raise
                else:
                    w.core.add(A[a["a"]], self.locator(w, a["l"]))
            elif n == "AddOccupied":
                w.core.add(A[a["a"]], self.locator(w, a["l"]))
            elif n == "Remove":
                w.core.removeAssembly(A[a["a"]], discharge=bool(a["d"]))
            elif n in ("DischargeSwap", "DischargeMismatch"):
                w.fh.dischargeSwap(A[a["i"]], A[a["o"]])
            else:
                raise tlc.MachineryError("unknown action %r" % (a,))
        except tlc.MachineryError:
            raise
        except Exception as ex:  # any exception out of the public call is "the operation was refused"
            w.err, w.exc = "refused", type(ex).__name__
        return w.err

    def project(self, w):
        core, sfp = w.core, w.sfp
        aid, bid = w.aid, w.bid
        ids = sorted(w.asm)

        def A(o):
            return 0 if o is None else aid.get(id(o), -99)

        def B(o):
            return 0 if o is None else bid.get(id(o), -99)

        core_list = list(core)
        pool_list = list(sfp)
        live = {id(a) for a in core_list} | {id(a) for a in pool_list}
        live_blocks = set()
        for a in core_list + pool_list:
            for b in a:
                live_blocks.add(id(b))
        where, loc, slot, num, moves, asm_found, blocks, notes, label = [], [], [], [], [], [], [], [], []
        ncols = sfp.numColumns
        for k in ids:
            a = w.asm[k]
            where.append("core" if a.parent is core else "sfp" if a.parent is sfp else "out" if a.parent is None else "?")
            sl = a.spatialLocator
            if sl is not None and sl.grid is core.spatialGrid:
                loc.append(w.loc_index.get((int(sl.i), int(sl.j)), -1))
            else:
                loc.append(0)
            if a.parent is sfp and sl is not None and sl.grid is sfp.spatialGrid and ncols:
                slot.append(int(sl.i) + int(sl.j) * ncols + 1)
            else:
                slot.append(0)
            n = int(a.p.assemNum)
            if a.getName() == a.makeNameFromAssemNum(n):
                num.append(_num(n))
            else:  # every compared field keeps its type (TLC refuses to compare an integer with a string)
                num.append(BAD)
                notes.append("assembly %d: name %s for number %d" % (k, a.getName(), n))
            moves.append(int(a.p.numMoves))
            lab = a.lastLocationLabel
            label.append(0 if lab == a.LOAD_QUEUE else LABEL_DB if lab == a.DATABASE else LABEL_SFP
                         if lab == a.SPENT_FUEL_POOL else w.labels.get(lab, BAD))
            asm_found.append(A(core.assembliesByName.get(a.getName())) if id(a) in live else 0)
            blocks.append([B(b) for b in a])
        by_loc = [A(core.childrenByLocator.get(self.locator(w, l))) for l in range(1, self.NL + 1)]
        asm_dead = []
        for key, a in core.assembliesByName.items():
            if id(a) not in live:
                m = _ANAME.match(key)
                asm_dead.append(_num(m.group(1)) if m else BAD)
        blk_dead = []
        for key, b in core.blocksByName.items():
            if id(b) not in live_blocks:
                m = _BNAME.match(key)
                blk_dead.append([_num(m.group(1)), int(m.group(2))] if m else [BAD, -1])
        blk_found, bowner, bk, bname, content = [], [], [], [], []
        for x in self.blkseq:
            b = w.blkobj[x]
            blk_found.append(B(core.blocksByName.get(b.getName())) if id(b) in live_blocks else 0)
            bowner.append(A(b.parent))
            sl = b.spatialLocator
            bk.append(int(sl.k) if b.parent is not None and sl is not None and sl.grid is b.parent.spatialGrid else -1)
            m = _BNAME.match(b.getName())
            bname.append([_num(m.group(1)), int(m.group(2))] if m else [BAD, -1])
            d = gen_core.fingerprint_diff(w.fp0[x], gen_core.block_fingerprint(b))
            content.append(x if d is None else -x)  # -<block id>: the block's contents differ from what was built
            if d is not None:
                notes.append("block %d: %s" % (x, d))
        return {
            "children": [A(a) for a in core_list], "where": where, "loc": loc, "byLoc": by_loc,
            "byLocSize": len(core.childrenByLocator), "sfp": [A(a) for a in pool_list], "slot": slot, "num": num,
            "nextNum": int(w.r.p.maxAssemNum), "asmFound": asm_found, "asmDead": sorted(asm_dead),
            "blkFound": blk_found, "blkDead": sorted(blk_dead), "blocks": blocks, "bowner": bowner, "bk": bk,
            "bname": bname, "content": content, "moves": moves, "label": label,
            "q": w.q if (w.last == "Ask" and w.q is not None) else self.no_answer,
            "err": w.err, "exc": w.exc, "notes": notes,
        }


ASK = {"n": "Ask"}


def ordered_diff(exp, got):
    for f in FIELDS:
        if f in exp:
            d = rp.diff(exp[f], got.get(f), "." + f)
            if d:
                return f, d
    return None, None


# ------------------------------------------------------------------------------------------------------------
# spec -> code: every emitted edge, grouped by source state so that one built world serves all edges leaving it
# ------------------------------------------------------------------------------------------------------------
def replay_all(graph, adapter, select=None):
    """Execute every edge (s, a, t) as  path(s) ; a  on real objects and compare the projection with Obs(t).
    Self-loops (refusals) run in place, one after the other, on the world that stands in s -- the behaviour that is
    recorded is the one that was really executed.  Edges below a diverging tree edge are not judged (their source
    state cannot be reached in the real code) and are counted separately."""
    by_from = {}
    for e in graph.edges:
        if select is None or select(e):
            by_from.setdefault(e["_fk"], []).append(e)
    order = sorted(by_from, key=lambda k: len(graph.path.get(k, ())))
    bad_edges = set()  # ids of diverging edges
    checked = set()  # ids of tree edges already found conforming
    judged = set()
    stats = {"replayed": 0, "nontrivial": 0, "skipped_below_divergence": 0, "builds": 0}
    divs = []

    def judge(e, got, behaviour, root):
        exp = e["obs"]
        field, d = ordered_diff(exp, got)
        if id(e) not in judged:
            judged.add(id(e))
            stats["replayed"] += 1
            if e["_fk"] != e["_tk"]:
                stats["nontrivial"] += 1
        elif d and id(e) in bad_edges:
            return d
        if d:
            bad_edges.add(id(e))
            divs.append({"diverged_at": len(behaviour), "first_difference": d, "field": field, "root": root,
                         "behaviour": behaviour, "action": e["act"], "expected": exp, "observed": got})
        return d

    class BadPrefix(Exception):
        pass

    asks = {}

    def ask_edge(key, st, obs, q):
        """Ask is enabled in every state and changes nothing: the expectation of a look-up made in state `key` is that
        state's observation with TLC's Queries for it (printed with every state)"""
        if key not in asks:
            asks[key] = {"act": ASK, "_fk": key, "_tk": key, "from": st, "to": st, "obs": dict(obs, err="", q=q)}
        return asks[key]

    for fk in order:
        pre = graph.path.get(fk)
        if pre is None:
            continue
        out = by_from[fk]
        if any(id(p) in bad_edges for p in pre):
            stats["skipped_below_divergence"] += len(out)
            continue
        root = pre[0]["from"] if pre else out[0]["from"]
        pre_acts = [p["act"] for p in pre]

        def fresh(probe=False):
            """a world standing in the source state (probe: the observables are also read after every step of the way,
            so that histories with and without intermediate look-ups are both run); every step of the way there is compared with the specification
            (with sampling, a tree edge may not have been judged on its own): the first step that differs is the
            one reported, and nothing below it is judged"""
            w = adapter.build(root)
            stats["builds"] += 1
            for i, p in enumerate(pre):
                adapter.apply(w, p["act"])
                if id(p) not in checked:
                    if judge(p, adapter.project(w), pre_acts[: i + 1], root):
                        raise BadPrefix()
                    checked.add(id(p))
                elif probe:
                    adapter.project(w)
            return w

        src_obs = pre[-1]["obs"] if pre else None
        try:
            w = fresh()
            if src_obs is None:
                src_obs = {}  # a root: its observation is checked by check_init; here only the answers are compared
            done = []  # refusals already executed on w (all conforming)
            loops = [e for e in out if e["_fk"] == e["_tk"]]
            moves = [e for e in out if e["_fk"] != e["_tk"]]
            for e in loops:
                adapter.apply(w, e["act"])
                if judge(e, adapter.project(w), pre_acts + done + [e["act"]], root):
                    w, done = fresh(), []
                else:
                    done = done + [e["act"]]
            src_q = loops[0]["qto"] if loops else None
            for n, e in enumerate(moves):
                if n > 0:
                    w, done = fresh(probe=(n % 2 == 0)), []
                    if n % 2 == 1 and src_q is not None:
                        # every other move is preceded by a look-up in the source state (the first one follows all
                        # the refusals and look-ups made above), the rest by none: both kinds of history are run
                        adapter.apply(w, ASK)
                        if judge(ask_edge(fk, out[0]["from"], src_obs, src_q), adapter.project(w), pre_acts + [ASK], root):
                            continue
                        done = [ASK]
                adapter.apply(w, e["act"])
                beh = pre_acts + done + [e["act"]]
                if not judge(e, adapter.project(w), beh, root):
                    checked.add(id(e))
                    if e.get("qto") is not None:  # ... and followed by a look-up in the state it leads to
                        adapter.apply(w, ASK)
                        judge(ask_edge(e["_tk"], e["to"], e["obs"], e["qto"]), adapter.project(w), beh + [ASK], root)
        except BadPrefix:
            stats["skipped_below_divergence"] += len(out)
    return stats, divs


def load_graph(res):
    """edges + per-state observations printed by an emission run -> rp.Graph whose edges carry the expected Obs"""
    cfg = None
    obs, qs = {}, {}
    edges = []
    no_answer = None
    for p in res.prints:
        if not isinstance(p, dict):
            continue
        if "config" in p:
            cfg = dict(p["config"], noAnswer=p.get("noAnswer"))
            no_answer = p.get("noAnswer")
        elif "st" in p:
            obs[rp.skey(p["st"])] = p["obs"]
            qs[rp.skey(p["st"])] = p.get("q")
        elif "act" in p:
            edges.append(p)
    if cfg is None:
        raise tlc.MachineryError("emission run printed no config line")
    keep = []
    for e in edges:
        o = obs.get(rp.skey(e["to"]))
        if o is None:
            continue
        o = dict(o)
        o["err"] = e["err"]
        # the answers of a look-up are part of the observation of an Ask step only (FuelShuffle!ObsQ)
        e["qto"] = qs.get(rp.skey(e["to"]))
        o["q"] = e["qto"] if e["act"]["n"] == "Ask" else no_answer
        e["obs"] = o
        keep.append(e)
    if not keep:
        raise tlc.MachineryError("emission run printed no edges")
    return cfg, rp.Graph(keep)


# ------------------------------------------------------------------------------------------------------------
# code -> spec: seeded random shuffle histories through the real FuelHandler / Core, validated by TLC
# ------------------------------------------------------------------------------------------------------------
CALLS = {"swap": "Swap", "cascade": "Cascade", "add": "Add", "remove": "Remove", "dswap": "DischargeSwap",
         "repeat": "Repeat", "locate": "Locate", "ask": "Ask"}
FLAG_SETTINGS = ((), ("G",), ("G", "P"), ("P",), ("G", "S"))


def random_call(ad, w, rng, allow_occupied):
    """the driver's own bookkeeping uses the child lists only; it never decides whether a call must succeed"""
    ids = sorted(w.asm)
    core_ids = [w.aid[id(a)] for a in w.core if id(a) in w.aid]
    pool_ids = [w.aid[id(a)] for a in w.sfp if id(a) in w.aid]
    outside = [k for k in ids if k not in core_ids and k not in pool_ids]
    where = {}
    for a in w.core:
        sl = a.spatialLocator
        where[w.aid.get(id(a))] = w.loc_index.get((int(sl.i), int(sl.j)))
    for _ in range(20):
        kind = rng.choice(("swap", "swap", "swap", "cascade", "cascade", "dswap", "dswap", "dswap", "add", "remove", "remove",
                           "repeat", "repeat", "ask", "ask", "ask", "locate"))
        if kind == "ask":
            return {"n": "ask"}
        if kind == "locate":
            return {"n": "locate"}
        if kind == "repeat" and len(core_ids) >= 2:
            # a recorded outage: in-core loops (2 or 3 long) and possibly one load chain fed from the pool
            pick = rng.sample(core_ids, len(core_ids))
            loops, load = [], {"chain": [], "inc": 0}
            if pool_ids and rng.random() < 0.5:
                k = rng.randint(1, min(2, len(pick) - 1 if len(pick) > 2 else len(pick)))
                load = {"chain": [where[x] for x in pick[:k]], "inc": rng.choice(pool_ids)}
                pick = pick[k:]
            while len(pick) >= 2 and (not loops or rng.random() < 0.4) and len(loops) < 2:
                k = rng.randint(2, min(3, len(pick)))
                loops.append([where[x] for x in pick[:k]])
                pick = pick[k:]
            if loops or load["chain"]:
                return {"n": "repeat", "load": load, "loops": loops}
        if kind == "swap" and len(core_ids) >= 2:
            x, y = sorted(rng.sample(core_ids, 2))
            return {"n": "swap", "x": x, "y": y}
        if kind == "cascade" and len(core_ids) >= 2:
            k = rng.randint(2, min(4, len(core_ids)))
            lst = rng.sample(core_ids, k)
            if rng.random() < 0.35:  # findAssembly found nothing for one level: a None entry, anywhere in the list
                lst.insert(rng.randrange(len(lst) + 1), 0)
            return {"n": "cascade", "l": lst}
        if kind == "dswap" and core_ids and (outside or pool_ids):
            return {"n": "dswap", "i": rng.choice(outside + pool_ids), "o": rng.choice(core_ids)}
        if kind == "add" and outside:
            taken = set()
            for a in w.core:
                sl = a.spatialLocator
                taken.add(w.loc_index.get((int(sl.i), int(sl.j))))
            cells = list(range(1, ad.NL + 1)) if allow_occupied else [c for c in range(1, ad.NL + 1) if c not in taken]
            if cells:
                return {"n": "add", "a": rng.choice(outside), "l": rng.choice(cells), "how": rng.choice(("arg", "own"))}
        if kind == "remove" and len(core_ids) >= 2:
            return {"n": "remove", "a": rng.choice(core_ids), "d": rng.random() < 0.7}
    return None


def apply_call(ad, w, call):
    act = dict(call)
    act["n"] = CALLS[call["n"]]
    return ad.apply(w, act)


def record_traces(ad, ntraces, nev, seed, tag):
    rng = random.Random(seed * 104729 + 17)
    traces = []
    for t in range(ntraces):
        track = rng.random() < 0.6
        flags = FLAG_SETTINGS[t % len(FLAG_SETTINGS)] if t % 2 else ()
        allow_occupied = t % 4 == 3
        db = t % 4 == 2
        w = ad.build({"track": track, "sflags": {x: (x in flags) for x in "FGPS"}, "db": db})
        ev = []
        for _ in range(nev):
            call = random_call(ad, w, rng, allow_occupied)
            if call is None:
                break
            apply_call(ad, w, call)
            post = ad.project(w)
            exc, notes = post.pop("exc"), post.pop("notes")
            ev.append({"a": call, "post": post, "exc": exc, "notes": notes})
        traces.append({"id": "%s%d" % (tag, t), "track": track, "sflags": list(flags), "db": db, "ev": ev})
    return traces


def strip_exc(traces):
    out = []
    for t in traces:
        out.append(dict(t, ev=[{"a": e["a"], "post": e["post"]} for e in t["ev"]]))
    return out


def validate_traces(rep, label, cfgfile, traces, config_for_payload, geom, symmetry):
    bad, stats = tracecheck.validate("FuelShuffle_trace", cfgfile, MODDIR, strip_exc(traces), timeout=3000)
    rep.add_tlc("trace-validation:" + label, stats["tlc"])
    nev = sum(len(t["ev"]) for t in traces)
    rep.add_traces(label, len(traces), nev,
                   "seeded random shuffle histories (swap, cascade, discharge swap, add, remove; all stationary-flag "
                   "settings, tracking on/off) run through the real FuelHandler/Core/SpentFuelPool; every event (call, "
                   "arguments, full projected post-state) must be a step of FuelShuffle")
    matched = 0
    for b in bad:
        tr = b["trace"]
        k = b["matched"]
        matched += k
        ev = tr["ev"]
        nxt = ev[k] if k < len(ev) else {}
        if "invariant" in b:
            rep.violation("trace-invariant:" + b["invariant"],
                          "a state reached by a recorded history violates %s of FuelShuffle" % b["invariant"],
                          {"direction": "trace", "tlc": b.get("tlc", "")[:8000]})
            continue
        mm = b.get("mismatch")
        if mm and mm.get("at") == k + 1:
            field, d = ordered_diff(mm["expected"], nxt.get("post", {}))
            key = "trace:%s:.%s" % (mm["act"]["n"], field)
            what = "recorded history leaves FuelShuffle at event %d %s (the specification takes %s): %s" % (
                k + 1, json.dumps(nxt.get("a")), mm["act"]["n"], d) + (
                " " + "; ".join(nxt.get("notes", [])[:3]) if nxt.get("notes") else "")
        else:
            key = "trace:%s:not-enabled" % nxt.get("a", {}).get("n", "?")
            what = "recorded call %s at event %d is not enabled in FuelShuffle" % (json.dumps(nxt.get("a")), k + 1)
        rep.violation(key, what, {"direction": "trace", "trace": tr, "matched": k, "config": config_for_payload,
                                  "geom": geom, "symmetry": symmetry, "cfgfile": cfgfile,
                                  "expected": (mm or {}).get("expected")})
    full = len(traces) - len(bad)
    rep.extra.setdefault("traces", {})[label].update({"accepted_in_full": full, "rejected": len(bad),
                                                      "events_matched_in_rejected": matched})
    return bad


def trace_config(cfgfile):
    """the constants of a trace configuration, as TLC prints them (layout, places ...): the generator builds from these"""
    res = tlc.run("FuelShuffle_trace", cfgfile, MODDIR, workers=1, coverage=False, timeout=600,
                  env={"TRACE_FILE": os.devnull})
    for p in res.prints:
        if isinstance(p, dict) and "config" in p:
            return p["config"]
    raise tlc.MachineryError("no config line from " + cfgfile)


# ------------------------------------------------------------------------------------------------------------
def key_of(div):
    return "replay:%s:.%s" % (div["action"]["n"], div["field"])


def what_of(div):
    return "real FuelHandler/Core diverge from FuelShuffle after %s: %s%s" % (
        json.dumps(div["action"]), div["first_difference"],
        (" (raised %s)" % div["observed"]["exc"]) if div["observed"].get("exc") else "") + (
        " " + "; ".join(div["observed"].get("notes", [])[:3]) if div["observed"].get("notes") else "")


def report_divs(rep, divs, cfg, geom, symmetry):
    for d in divs:
        rep.violation(key_of(d), what_of(d), dict(d, direction="replay", config=cfg, geom=geom, symmetry=symmetry))


def sample_selector(graph, rng, n_deep, n_roots=None, p_move=1.0, db_share=0.5):
    """edges of a seeded sample of source states: n_roots initial states (None: all; stratified over tracking x
    database-loaded), n_deep deeper states; of the state-changing edges of a selected state a share p_move is kept
    (at least one per action name), refusals and look-ups (run in place, cheap) are all kept; db_share: share of the
    sampled states that descend from a database-loaded initial state (a world that costs a real Database.load)"""
    roots = sorted({e["_fk"] for e in graph.edges if e.get("lvl", 1) == 1})
    isdb = {}
    for e in graph.edges:
        if e["_fk"] not in isdb:
            isdb[e["_fk"]] = any(x == LABEL_DB for x in e["from"]["label"])
    deep = sorted({e["_fk"] for e in graph.edges if e.get("lvl", 1) > 1})
    deep_db = [k for k in deep if isdb[k]]
    deep_no = [k for k in deep if not isdb[k]]
    n_db = min(len(deep_db), int(round(n_deep * db_share)))
    keep = set(rng.sample(deep_db, n_db)) | set(rng.sample(deep_no, min(n_deep - n_db, len(deep_no))))
    if n_roots is None or n_roots >= len(roots):
        keep |= set(roots)
    else:
        first = {}
        for e in graph.edges:
            if e.get("lvl", 1) == 1:
                first.setdefault(e["_fk"], e["from"])
        strata = {}
        for k in roots:
            f = first[k]
            strata.setdefault((bool(f["track"]), any(x == LABEL_DB for x in f["label"])), []).append(k)
        for ks in strata.values():
            rng.shuffle(ks)
        quota = {True: int(round(n_roots * db_share)), False: n_roots - int(round(n_roots * db_share))}
        for want_db in (False, True):
            order = [k for k in sorted(strata) if k[1] == want_db]
            i = 0
            while order and quota[want_db] > 0 and any(strata[k] for k in order):
                ks = strata[order[i % len(order)]]
                if ks:
                    keep.add(ks.pop())
                    quota[want_db] -= 1
                i += 1
    chosen = set()
    by_state = {}
    for e in graph.edges:
        if e["_fk"] in keep:
            by_state.setdefault(e["_fk"], []).append(e)
    for k in sorted(by_state):
        seen = set()
        es = by_state[k]
        rng.shuffle(es)
        for e in es:
            if e["_fk"] == e["_tk"] or p_move >= 1.0 or e["act"]["n"] not in seen or rng.random() < p_move:
                chosen.add(id(e))
            seen.add(e["act"]["n"])
    return lambda e: id(e) in chosen


def check_model(rep, cfgfile, label, timeout=3000, workers=None):
    res = tlc.run("FuelShuffle_mc", cfgfile, MODDIR, want_prints=False, timeout=timeout, workers=workers)
    rep.add_tlc("exhaustive:" + label, res)
    if res.violation:
        rep.violation("tlc:" + res.violation["name"], "TLC: %s violated in FuelShuffle (%s)" % (res.violation["name"], cfgfile),
                      {"direction": "tlc", "cfg": cfgfile, "trace": res.violation["trace"][:20000]})
    never = [a for a in ACTIONS if res.coverage.get(a, (0, 0))[1] == 0]
    if never and not res.violation:
        raise tlc.MachineryError("vacuous: actions never taken in %s: %s" % (cfgfile, never))
    return res


def check_init(rep, cfg, g, variants):
    """the initial states themselves, as armi hands them over: a freshly built core and a core loaded from a database,
    WITHOUT the regenAssemblyLists() normalisation the other worlds get"""
    roots = {}
    for e in g.edges:
        if e.get("lvl") == 1 and e["_fk"] not in roots:
            roots[e["_fk"]] = e
    obs0 = {}
    for e in g.edges:  # the observation of a root: that of any self-loop at it
        if e["_fk"] in roots and e["_fk"] == e["_tk"] and e["_fk"] not in obs0:
            obs0[e["_fk"]] = dict(e["obs"], err="", q=None)
    n = 0
    for geom, symmetry, _ in variants:
        ad = CoreAdapter(cfg, geom=geom, symmetry=symmetry)
        for fk, e in roots.items():
            if fk not in obs0:
                continue
            exp = {k: v for k, v in obs0[fk].items() if k != "q"}
            w = ad.build(e["from"], regen=False)
            got = ad.project(w)
            n += 1
            field, d = ordered_diff(exp, got)
            if d:
                kind = "database-loaded" if any(x == LABEL_DB for x in e["from"]["label"]) else "built"
                rep.violation("replay:Init:.%s" % field,
                              "the initial state (%s reactor, pre-loaded pool) differs from FuelShuffle's: %s" % (kind, d),
                              {"direction": "replay", "config": cfg, "geom": geom, "symmetry": symmetry, "root": e["from"],
                               "behaviour": [], "expected": exp, "observed": got, "regen": False})
    rep.extra.setdefault("replay", {})["initial-states"] = {"behaviours": n, "nontrivial": 0}
    rep.replayed += n
    rep.evaluations += n


def emit_and_replay(rep, cfgfile, label, variants, rng):
    """variants: (geometry, symmetry, None for every edge | (deeper states, roots or None for all, share of moves))"""
    eres = tlc.run("FuelShuffle_mc", cfgfile, MODDIR, workers=1, coverage=False, timeout=3000)
    rep.add_tlc("edges:" + label, eres)
    cfg, g = load_graph(eres)
    names = {e["act"]["n"] for e in g.edges}
    missing = {"Swap", "SwapMismatch", "Cascade", "Add", "AddOccupied", "Remove", "DischargeSwap", "DischargeMismatch",
               "Repeat", "Locate", "Ask"} - names
    if missing:
        raise tlc.MachineryError("emission of %s lacks actions %s" % (cfgfile, sorted(missing)))
    check_init(rep, cfg, g, variants)
    for vi, (geom, symmetry, n_states) in enumerate(variants):
        ad = CoreAdapter(cfg, geom=geom, symmetry=symmetry)
        sel = None
        if n_states is not None:
            n_deep, n_roots, p_move, db_share = n_states
            sel = sample_selector(g, rng, n_deep, n_roots, p_move, db_share)
        stats, divs = replay_all(g, ad, select=sel)
        if stats["replayed"] == 0:
            raise tlc.MachineryError("empty replay batch " + label)
        lab = "%s:%s-%s" % (label, geom, symmetry)
        rep.add_replay(lab, stats["replayed"], stats["nontrivial"],
                       "every edge (s,a,t) of TLC's state graph is executed as path(s);a through the real "
                       "FuelHandler/Core/SpentFuelPool on a generated core; non-trivial = the edge changes the abstract state")
        rep.extra["replay"][lab].update({"builds": stats["builds"], "not_judged_below_a_divergence": stats["skipped_below_divergence"],
                                         "edges_in_graph": len(g.edges), "states_in_graph": g.states()})
        report_divs(rep, divs, cfg, geom, symmetry)
    e = g.edges[len(g.edges) // 2]
    rep.sample({"kind": "edge", "path": [s["act"] for s in g.path[e["_fk"]]], "act": e["act"],
                "expected_obs": {k: e["obs"][k] for k in ("children", "loc", "byLoc", "sfp", "blocks", "blkFound", "moves", "err")}})
    return cfg, g


def run(rep, tier, seed):
    thorough = tier == "thorough"
    rng = random.Random(seed)
    tlc.sany("FuelShuffle_mc", MODDIR)
    tlc.sany("FuelShuffle_trace", MODDIR)
    # 1. exhaustive model checking of the reference design: every invariant / action property, per-action coverage
    if thorough:
        check_model(rep, "FuelShuffle_mc_thorough.cfg", "coreS-depth5")  # flag settings {} and {G,P}; the others: core T
        check_model(rep, "FuelShuffle_mcT.cfg", "coreT-depth4")
    else:
        check_model(rep, "FuelShuffle_mc.cfg", "coreS-depth4")  # three of the four flag settings (all four: thorough, edges)
    rep.exhaustive = True

    # 2. spec -> code
    if thorough:
        emit_and_replay(rep, "FuelShuffle_emit_thorough.cfg", "coreS-depth3", (("hex", "full", (25, None, 1.0, 0.3)), ("hex", "third", (16, 8, 0.5, 0.25)), ("cartesian", "full", (16, 8, 0.5, 0.25))), rng)
        emit_and_replay(rep, "FuelShuffle_emitT.cfg", "coreT-depth3", (("hex", "full", (20, None, 0.5, 0.25)), ("hex", "third", (10, 4, 0.5, 0.25)), ("cartesian", "full", (10, 4, 0.5, 0.25))), rng)
    else:
        emit_and_replay(rep, "FuelShuffle_emit.cfg", "coreS-depth3", (("hex", "full", (4, 6, 0.4, 0.34)), ("hex", "third", (2, 3, 0.3, 0.34)), ("cartesian", "full", (2, 3, 0.3, 0.34))), rng)

    # 3. code -> spec
    plans = [("FuelShuffle_trace_M.cfg", "coreM-hex-full", "hex", "full", 70 if thorough else 32, 150 if thorough else 40)]
    if thorough:
        plans += [("FuelShuffle_trace_M.cfg", "coreM-hex-third", "hex", "third", 60, 150),
                  ("FuelShuffle_trace_N.cfg", "coreN-cartesian", "cartesian", "full", 30, 250),
                  ("FuelShuffle_trace_N.cfg", "coreN-hex-full", "hex", "full", 20, 250)]
    cfgs = {}
    for i, (cfgfile, label, geom, symmetry, ntr, nev) in enumerate(plans):
        if cfgfile not in cfgs:
            cfgs[cfgfile] = trace_config(cfgfile)
        ad = CoreAdapter(cfgs[cfgfile], geom=geom, symmetry=symmetry)
        traces = record_traces(ad, ntr, nev, seed + 31 * i, "t%d-" % i)
        kinds = {e["a"]["n"] for t in traces for e in t["ev"]}
        if not traces or kinds != set(CALLS):
            raise tlc.MachineryError("vacuous trace batch %s: calls made %s" % (label, sorted(kinds)))
        validate_traces(rep, label, cfgfile, traces, cfgs[cfgfile], geom, symmetry)
        if i == 0:
            t0 = traces[0]
            rep.sample({"kind": "trace", "id": t0["id"], "track": t0["track"], "sflags": t0["sflags"],
                        "calls": [e["a"] for e in t0["ev"][:6]]})
    # 4. zones (growth beyond the listed clauses): Core.zones stays truthful across zone edits and fuel moves
    zones_stage(rep, tier)
    rep.assume(
        "operation alphabet: swapAssemblies, swapCascade (distinct in-core assemblies), dischargeSwap (incoming fresh, "
        "pooled or previously purged), Core.add with a locator of the core grid (fresh or previously purged assembly), "
        "Core.removeAssembly(discharge=True/False); Core.add without any locator and bare Assembly.moveTo are not in it",
        "a SpentFuelPool exists (armi creates a default one for every reactor); trackAssems is fixed per history",
        "block names are compared as (assembly number, axial index); placeholder numbers of fresh assemblies are "
        "identified with the assembly (-id); stale block-name aliases that still return a block in the core or pool "
        "are not observable (only lookups of current names, and entries returning purged blocks, are)",
        "stationary blocks of one type letter have one height (G 15, F 25, P 40, S 20 cm): exchanging them keeps the axial mesh",
        "contents = per block: type, height, per component name/material/all dimensions/all number densities/temperature, exact floats",
    )


# ------------------------------------------------------------------------------------------------------------
def replay(payload):
    direction = payload.get("direction")
    if direction == "replay":
        cls = ZonesAdapter if payload.get("stage") == "zones" else CoreAdapter
        ad = cls(payload["config"], geom=payload.get("geom", "hex"), symmetry=payload.get("symmetry", "full"))
        w = ad.build(payload["root"], regen=payload.get("regen", True))
        for a in payload["behaviour"]:
            ad.apply(w, a)
        got = ad.project(w)
        field, d = ordered_diff(payload["expected"], got)
        print("behaviour:", json.dumps(payload["behaviour"]))
        if d:
            print("diverges:", d, ("(raised %s)" % got["exc"]) if got.get("exc") else "")
            return 1
        print("no divergence: behaviour conforms")
        return 0
    if direction == "trace" and payload.get("trace") and payload.get("config"):
        ad = CoreAdapter(payload["config"], geom=payload.get("geom", "hex"), symmetry=payload.get("symmetry", "full"))
        tr = payload["trace"]
        w = ad.build({"track": tr["track"], "sflags": {x: (x in tr["sflags"]) for x in "FGPS"}, "db": tr.get("db", False)})
        k = payload["matched"]
        got = None
        for e in tr["ev"][: k + 1]:
            apply_call(ad, w, e["a"])
            got = ad.project(w)
        print("calls:", json.dumps([e["a"] for e in tr["ev"][: k + 1]]))
        if payload.get("expected") and got is not None:
            field, d = ordered_diff(payload["expected"], got)
            if d:
                print("diverges from the specification's post-state:", d)
                return 1
            print("no divergence: history conforms")
            return 0
        bad, _ = tracecheck.validate("FuelShuffle_trace", payload["cfgfile"], MODDIR, strip_exc([tr]))
        print("TLC rejects the recorded history" if bad else "TLC accepts the recorded history")
        return 1 if bad else 0
    print("replay of direction=%s: see payload (TLC trace)" % direction)
    print(payload.get("trace", "")[:4000] if isinstance(payload.get("trace"), str) else "")
    return 0


# ------------------------------------------------------------------------------------------------------------
# zones stage: spec/core/Zones.tla replayed into the real Zone / Zones objects of a generated core
# ------------------------------------------------------------------------------------------------------------
ZONE_ACTIONS = ("AddZone", "AddZoneDup", "RemoveZone", "RemoveZoneAbsent", "AddLoc", "AddLocs", "RemoveLoc",
                "RemoveLocAbsent", "RemoveLocs", "AddItem", "AddItemWrongType", "RemoveItem", "RemoveItemAbsent",
                "CheckDuplicates", "GetMissing", "SortZones", "Swap", "DischargeSwap", "Remove", "Add")


class ZonesAdapter(CoreAdapter):
    """the FuelShuffle core plus its Core.zones collection; location indices <-> the core's location labels"""

    def build(self, root, regen=True):
        w = CoreAdapter.build(self, root["core"], regen)
        from armi.reactor import zones

        w.zmod = zones
        w.inv = {l: lab for lab, l in w.labels.items()}
        by_rank = dict(zip(self.cfg["znames"], root["zlocs"]))  # ZVars.zlocs is listed in name order
        for nm in root["order"]:  # the zones the history starts with, defined in this order
            w.core.zones.addZone(zones.Zone(nm, [w.inv[l] for l in by_rank[nm]]))
        return w

    def apply(self, w, a):
        n = a["n"]
        if n in ("Swap", "DischargeSwap", "Remove", "Add"):
            return CoreAdapter.apply(self, w, a)
        Z = w.core.zones
        lab = w.inv
        w.err, w.exc, w.last = "", "", n
        try:
            if n == "AddZone":
                Z.addZone(w.zmod.Zone(a["z"], [lab[l] for l in a["s"]]))
            elif n == "AddZoneDup":
                Z.addZone(w.zmod.Zone(a["z"]))
            elif n in ("RemoveZone", "RemoveZoneAbsent"):
                Z.removeZone(a["z"])
            elif n == "AddLoc":
                Z[a["z"]].addLoc(lab[a["l"]])
            elif n == "AddLocs":
                Z[a["z"]].addLocs([lab[l] for l in a["ls"]])
            elif n in ("RemoveLoc", "RemoveLocAbsent"):
                Z[a["z"]].removeLoc(lab[a["l"]])
            elif n == "RemoveLocs":
                Z[a["z"]].removeLocs([lab[l] for l in a["ls"]])
            elif n == "AddItem":
                Z[a["z"]].addItem(w.asm[a["a"]])
            elif n == "AddItemWrongType":
                Z[a["z"]].addItem(next(iter(w.core))[0])  # a Block handed to a zone of assemblies
            elif n in ("RemoveItem", "RemoveItemAbsent"):
                Z[a["z"]].removeItem(w.asm[a["a"]])
            elif n == "CheckDuplicates":
                Z.checkDuplicates()
            elif n == "GetMissing":
                Z.getZoneLocations([a["z"]])
            elif n == "SortZones":
                Z.sortZones(reverse=bool(a["rev"]))
            else:
                raise tlc.MachineryError("unknown zones action %r" % (a,))
        except tlc.MachineryError:
            raise
        except Exception as ex:
            w.err, w.exc = "refused", type(ex).__name__
        return w.err

    def project(self, w):
        import ast

        Z = w.core.zones
        idx = lambda label: w.labels.get(label, BAD)  # noqa: E731
        core_list = list(w.core)
        ids = sorted(w.asm)
        loc = []
        for k in ids:
            sl = w.asm[k].spatialLocator
            loc.append(w.loc_index.get((int(sl.i), int(sl.j)), -1) if sl is not None and sl.grid is w.core.spatialGrid else 0)
        zs = []
        for z in Z:  # iteration: by name
            locs = [idx(x) for x in z]  # iteration: the documented alphabetical order
            if any((lb in z) != (l in locs) for lb, l in w.labels.items()):
                locs = [BAD]  # __contains__ disagrees with the iteration
            zs.append({"name": z.name, "locs": locs, "len": len(z)})
        names = list(Z.names)
        if [z["name"] for z in zs] != names or len(Z) != len(names) or any((nm in Z) != (nm in names) for nm in self.cfg["znames"]):
            names = ["inconsistent"] + names
        find = []
        for k in ids:
            z = Z.findZoneItIsIn(w.asm[k])
            find.append("" if z is None else z.name)
        try:
            Z.checkDuplicates()
            dups = []
        except RuntimeError as ex:
            try:
                dups = [idx(x) for x in ast.literal_eval(str(ex).split(":", 1)[1].strip())]
            except Exception:
                dups = [BAD]
        return {
            "children": [w.aid.get(id(a), -99) for a in core_list], "loc": loc,
            "names": names, "order": list(Z._zones.keys()), "zones": zs,
            "all": sorted(idx(x) for x in Z.getAllLocations()),
            "union": sorted(idx(x) for x in Z.getZoneLocations(list(Z.names))),
            "find": find, "dups": sorted(dups), "err": w.err, "exc": w.exc, "notes": [],
        }


def zones_stage(rep, tier):
    """TLC on Zones (invariants, action properties, coverage), then every emitted edge on real Zone/Zones objects"""
    thorough = tier == "thorough"
    tlc.sany("Zones_mc", MODDIR)
    cfgfile = "Zones_mc_thorough.cfg" if thorough else "Zones_mc.cfg"
    res = tlc.run("Zones_mc", cfgfile, MODDIR, want_prints=False, timeout=3000)
    rep.add_tlc("zones-exhaustive:" + cfgfile, res)
    if res.violation:
        rep.violation("zones-tlc:" + res.violation["name"], "TLC: %s violated in Zones (%s)" % (res.violation["name"], cfgfile),
                      {"direction": "tlc", "cfg": cfgfile, "trace": res.violation["trace"][:20000]})
    cov = ("AddZone", "AddZoneDup", "RemoveZone", "RemoveZoneAbsent", "AddLoc", "AddLocs", "RemoveLoc", "RemoveLocAbsent",
           "RemoveLocs", "AddItem", "AddItemWrongType", "RemoveItem", "RemoveItemAbsent", "CheckOk", "CheckDup", "GetMissing",
           "SortZones", "FuelMove")
    never = [a for a in cov if res.coverage.get(a, (0, 0))[1] == 0]
    if never and not res.violation:
        raise tlc.MachineryError("vacuous: Zones actions never taken: %s" % never)
    out = {}
    plans = [("Zones_emit.cfg", (("hex", "full"), ("hex", "third")) if thorough else (("hex", "full"),))]
    if thorough:
        plans.append(("Zones_emit_thorough.cfg", (("hex", "full"),)))
    for ecfg, geoms in plans:
        eres = tlc.run("Zones_mc", ecfg, MODDIR, workers=1, coverage=False, timeout=3000)
        rep.add_tlc("zones-edges:" + ecfg, eres)
        znames = [p["znames"] for p in eres.prints if isinstance(p, dict) and "znames" in p]
        cfg, g = load_graph(eres)
        cfg["znames"] = znames[0]
        missing = set(ZONE_ACTIONS) - {e["act"]["n"] for e in g.edges}
        if missing:
            raise tlc.MachineryError("emission of %s lacks actions %s" % (ecfg, sorted(missing)))
        for geom, symmetry in geoms:  # hex grids: the alphabetical order of the labels is the order of the indices
            ad = ZonesAdapter(cfg, geom=geom, symmetry=symmetry)
            stats, divs = replay_all(g, ad)
            if stats["replayed"] == 0:
                raise tlc.MachineryError("empty zones replay")
            out["%s:%s-%s" % (ecfg, geom, symmetry)] = dict(stats, edges_in_graph=len(g.edges), states_in_graph=g.states())
            rep.replayed += stats["replayed"]
            rep.evaluations += stats["replayed"]
            rep.nontrivial += stats["nontrivial"]
            for d in divs:
                rep.violation("zones:%s:.%s" % (d["action"]["n"], d["field"]),
                              "real Zone/Zones diverge from the Zones specification after %s: %s%s" % (
                                  json.dumps(d["action"]), d["first_difference"],
                                  (" (raised %s)" % d["observed"]["exc"]) if d["observed"].get("exc") else ""),
                              dict(d, direction="replay", stage="zones", config=cfg, geom=geom, symmetry=symmetry))
    rep.extra["zones"] = out
    if "every edge of the Zones state graph" not in " ".join(rep.rules):
        rep.rules.append("zones: every edge of the Zones state graph (zone API calls, refusals, fuel moves) is executed on the "
                         "real Zone/Zones objects of a generated core; all observables compared after every step")
    return cfg, g


# ------------------------------------------------------------------------------------------------------------
# binding demonstration: realistic in-process mutants of the anchored armi functions
# ------------------------------------------------------------------------------------------------------------
def _mutate(owner, name, old, new):
    """re-compile owner.<name> with one source snippet replaced (the mutant still imports and runs); returns undo()"""
    import inspect
    import textwrap

    orig = owner.__dict__[name]
    fn = orig.__func__ if isinstance(orig, (staticmethod, classmethod)) else orig
    src = textwrap.dedent(inspect.getsource(fn))
    if old not in src:
        raise tlc.MachineryError("mutant snippet not found in %s.%s: %r" % (owner.__name__, name, old))
    ns = {}
    exec(compile(src.replace(old, new, 1), "<mutant %s.%s>" % (owner.__name__, name), "exec"), sys.modules[owner.__module__].__dict__, ns)
    setattr(owner, name, ns[name])
    return lambda: setattr(owner, name, orig)


def mutants():
    armi_ready()
    from armi.physics.fuelCycle.fuelHandlers import FuelHandler
    from armi.reactor.assemblies import Assembly
    from armi.reactor.cores import Core
    from armi.reactor.spentFuelPool import SpentFuelPool

    return [
        ("moveTo does not update the location table", Assembly, "moveTo",
         "self.parent.childrenByLocator[locator] = self", "pass"),
        ("tracked discharge forgets the pool", Core, "removeAssembly", "self.parent.excore.sfp.add(a1)", "pass"),
        ("purged assembly left in assembliesByName", Core, "_removeListFromAuxiliaries",
         "del self.assembliesByName[assembly.getName()]", "pass"),
        ("stationary blocks re-inserted one index too high", FuelHandler, "_transferStationaryBlocks",
         "assembly1.insert(assem1BlockIndex, assem2Block)", "assembly1.insert(assem1BlockIndex + 1, assem2Block)"),
        ("removeAssembly leaves the location entry", Core, "removeAssembly",
         "self.childrenByLocator.pop(a1.spatialLocator)", "pass"),
        ("swap: second move uses the already moved locator", FuelHandler, "swapAssemblies",
         "a2.moveTo(oldA1Location)", "a2.moveTo(a1.spatialLocator)"),
        ("cascade stops one level early", FuelHandler, "swapCascade", "range(levels - 1)", "range(levels - 2)"),
        ("moves are not counted", Assembly, "moveTo", "self.p.numMoves += 1", "pass"),
        ("discharge swap leaves the incoming assembly in the pool", FuelHandler, "dischargeSwap",
         'self.r.excore["sfp"].remove(incoming)', "pass"),
        ("Core.add does not register the blocks", Core, "add", "self.blocksByName[b.getName()] = b", "pass"),
        ("symmetry scaling also scales number densities", Assembly, "scaleParamsToNewSymmetryFactor",
         "for param in volIntegratedParamsToScale:",
         "[c.changeNDensByFactor(scalingFactor) for c in b]\n        for param in volIntegratedParamsToScale:"),
        ("pool hands out an occupied cell", SpentFuelPool, "_getNextLocation", "if loc not in filledLocations:", "if True:"),
        ("swap does not exchange stationary blocks", FuelHandler, "swapAssemblies",
         "self._transferStationaryBlocks(a1, a2)", "pass"),
        ("stationary mismatch is not refused", FuelHandler, "_transferStationaryBlocks",
         "if [block[1] for block in a1StationaryBlocks] != [", "if False and [block[1] for block in a1StationaryBlocks] != ["),
        ("discharge=False is ignored", Core, "removeAssembly", "if discharge and self._trackAssems:", "if self._trackAssems:"),
        ("cascade gives up at a None level instead of skipping it", FuelHandler, "swapCascade",
         "continue", "break"),
        ("repeat shuffle finds an in-core loop once per member", FuelHandler, "processMoveList",
         "loopChains.append(chain)\n            alreadyDone.extend(chain)",
         "loopChains.append(chain)\n            alreadyDone.append(fromLoc)"),
        ("moveTo updates the location table only for assemblies not loaded from a database", Assembly, "moveTo",
         "self.parent.childrenByLocator[locator] = self",
         "if self.lastLocationLabel != self.DATABASE:\n        self.parent.childrenByLocator[locator] = self"),
        ("getLocationContents memoised in the core's cache, never cleared by moves", Core, "getLocationContents",
         "locContents = self.makeLocationLookup(assemblyLevel)",
         "locContents = self._getCached('locContents-%s' % bool(assemblyLevel))\n"
         "        if not locContents:\n"
         "            locContents = self.makeLocationLookup(assemblyLevel)\n"
         "            self._setCache('locContents-%s' % bool(assemblyLevel), locContents)"),
        ("an empty stationaryBlockFlags setting falls back to the default", Core, "processLoading",
         "in cs[CONF_STATIONARY_BLOCK_FLAGS]:",
         "in cs[CONF_STATIONARY_BLOCK_FLAGS] or cs.getSetting(CONF_STATIONARY_BLOCK_FLAGS).default:"),
        ("stationary blocks of unequal height: both assemblies re-established (blocks renamed)", FuelHandler,
         "_transferStationaryBlocks", "        assembly2.insert(assem2BlockIndex, assem1Block)",
         "        assembly2.insert(assem2BlockIndex, assem1Block)\n"
         "    if a1StationaryBlocks and a1StationaryBlocks[-1][0].p.ztop != a2StationaryBlocks[-1][0].p.ztop:\n"
         "        for assembly in (assembly1, assembly2):\n"
         "            assembly.reestablishBlockOrder()\n"
         "            assembly.calculateZCoords()"),
        ("incoming assembly leaves the pool only when tracking is on", FuelHandler, "dischargeSwap",
         'if self.r.excore.get("sfp") is not None:', 'if self.r.core._trackAssems and self.r.excore.get("sfp") is not None:'),
    ]


def zone_mutants():
    armi_ready()
    from armi.reactor.zones import Zone, Zones

    return [
        ("findZoneItIsIn remembers where it saw the assembly", Zones, "findZoneItIsIn", "aLoc = a.getLocation()",
         "aLoc = self.__dict__.setdefault('_seen', {}).setdefault(a.getName(), a.getLocation())"),
        ("checkDuplicates never finds a duplicate", Zones, "checkDuplicates",
         "if len(allLocs) == len(set(allLocs)):", "if len(allLocs) >= len(set(allLocs)):"),
        ("addZone overwrites a zone of the same name", Zones, "addZone", "if zone.name in self._zones:", "if False:"),
        ("removeLoc ignores a missing location", Zone, "removeLoc", "self.locs.remove(loc)", "self.locs.discard(loc)"),
        ("sortZones ignores reverse", Zones, "sortZones", "reverse=reverse", "reverse=False"),
        ("getZoneLocations returns the last zone only", Zones, "getZoneLocations",
         "zoneLocs.update(thisZoneLocs)", "zoneLocs = thisZoneLocs"),
    ]


def _zones_keys(zg, zcfg):
    stats, divs = replay_all(zg, ZonesAdapter(zcfg, geom="hex", symmetry="full"))
    return {"zones:%s:.%s" % (d["action"]["n"], d["field"]) for d in divs}


def _mini_check(g, cfg, tcfg, seed, with_traces=True):
    """replay keys, trace keys of a reduced run (roots + sampled states on two geometries; a few recorded histories)"""
    from harness.report import Report

    keys_r, keys_t = set(), set()
    rng = random.Random(seed)
    for vi, (geom, sym, n) in enumerate((("hex", "full", 8), ("hex", "third", 6))):
        ad = CoreAdapter(cfg, geom=geom, symmetry=sym)
        stats, divs = replay_all(g, ad, select=sample_selector(g, rng, n, 8 if vi == 0 else 4, 0.4, 0.25))
        keys_r |= {key_of(d) for d in divs}
    if with_traces:
        rep = Report("C14", "selftest", seed)
        ad = CoreAdapter(tcfg, geom="hex", symmetry="third")
        traces = record_traces(ad, 12, 30, seed, "s")
        validate_traces(rep, "selftest", "FuelShuffle_trace_M.cfg", traces, tcfg, "hex", "third")
        keys_t = {v["key"] for v in rep.violations}
    return keys_r, keys_t


def selftest():
    """prints one caught/MISSED line per mutant; returns 0 iff every mutant is caught by at least one direction"""
    t0 = time.time()
    eres = tlc.run("FuelShuffle_mc", "FuelShuffle_emit.cfg", MODDIR, workers=1, coverage=False, timeout=3000)
    cfg, g = load_graph(eres)
    tcfg = trace_config("FuelShuffle_trace_M.cfg")
    base_r, base_t = _mini_check(g, cfg, tcfg, 0)
    print("baseline (unmutated tree) keys: replay %s trace %s" % (sorted(base_r), sorted(base_t)))
    missed = 0
    for m in mutants():
        title, owner, name, old, new = m
        undo = _mutate(owner, name, old, new)
        try:
            kr, kt = _mini_check(g, cfg, tcfg, 0)
        finally:
            undo()
        nr, nt = sorted(kr - base_r), sorted(kt - base_t)
        ok = bool(nr or nt)
        missed += 0 if ok else 1
        print("%s  %-58s replay:%s trace:%s" % ("caught" if ok else "MISSED", title, nr[:3] or "-", nt[:3] or "-"))
    zres = tlc.run("Zones_mc", "Zones_emit.cfg", MODDIR, workers=1, coverage=False, timeout=3000)
    zcfg, zg = load_graph(zres)
    zcfg["znames"] = [p["znames"] for p in zres.prints if isinstance(p, dict) and "znames" in p][0]
    zbase = _zones_keys(zg, zcfg)
    print("zones baseline keys: %s" % sorted(zbase))
    for title, owner, name, old, new in zone_mutants():
        undo = _mutate(owner, name, old, new)
        try:
            kz = _zones_keys(zg, zcfg)
        finally:
            undo()
        nz = sorted(kz - zbase)
        missed += 0 if nz else 1
        print("%s  %-58s zones:%s" % ("caught" if nz else "MISSED", title, nz[:3] or "-"))
    # the trace validator itself: a corrupted field and a dropped event must be rejected
    ad = CoreAdapter(tcfg)
    good = [t for t in record_traces(ad, 8, 30, 5, "v") if not t["sflags"] and len(t["ev"]) > 10][:2]
    import copy
    bad1 = copy.deepcopy(good[0]); bad1["id"] = "corrupt"
    bad1["ev"][5]["post"]["moves"][0] += 1
    bad2 = copy.deepcopy(good[1]); bad2["id"] = "dropped"
    idx = next(i for i, e in enumerate(bad2["ev"]) if e["post"]["err"] == "" and i > 1)
    del bad2["ev"][idx]
    rej, _ = tracecheck.validate("FuelShuffle_trace", "FuelShuffle_trace_M.cfg", MODDIR, strip_exc(good + [bad1, bad2]))
    rejected = {b["trace"]["id"] for b in rej}
    for tid in ("corrupt", "dropped"):
        ok = tid in rejected
        missed += 0 if ok else 1
        print("%s  trace validator rejects the %s trace" % ("caught" if ok else "MISSED", tid))
    unexpected = rejected - {"corrupt", "dropped"}
    if unexpected:
        print("note: untouched traces rejected too (known defects on this tree): %s" % sorted(unexpected))
    print("selftest: %d missed, %.0fs" % (missed, time.time() - t0))
    return 0 if missed == 0 else 1
