"""C03 -- thermal expansion of 2-D components: TLC on ThermalExpansion, replay of TLC's edges on real components for
shape x material pairs, and TLC-validated random call histories recorded from real components.

Expected values are the monomials (exponent vectors over the material factors) printed by TLC; this module only
measures the material inputs f(T) once per (material, temperature), evaluates the printed monomials with them and
compares with what the real objects return (rtol 1e-9: a handful of double operations)."""
import copy
import json
import math
import os
import random
import re

from harness import common, tlc, tracecheck
from harness import gen_components as G
from harness import replay as rp
from harness.armi_env import armi_ready

MODDIR = os.path.join(common.SPEC, "thermal")
HEIGHT = 2.0            # block height: volume = area * height, mass per unit height = getMass() / height
RTOL = 1e-9             # a handful of double multiplications / divisions per observable
RTOL_F32 = 1.2e-7       # p.pinNDens is a float32 array multiplied in place: per setTemperature call one rounding of the factor
                        # to float32 and one of the product (2 x 2^-24); the bound used is RTOL_F32 x (calls so far + 2)
DETAILED0 = (0.011, 0.0023, 4.5e-5)                         # input: a detailed number density vector
PIN0 = ((0.021, 0.0042), (0.019, 0.0038), (0.02, 0.004))    # input: pin-wise number densities (pins x nuclides)
ABS = ("e1", "e2", "n")
FRACS = {3: (0.12, 0.5, 0.88), 4: (0.12, 0.37, 0.63, 0.88)}
ACTIONS = ("ATemp", "ARamp", "ADim", "ALink", "ACopy")
_SELFTEST = False
_CACHE = {}


# ------------------------------------------------------------------------------------------------------------
# binding of the specification's two abstract components to real ones
# ------------------------------------------------------------------------------------------------------------
class Side:
    """One component: shape class, role assignment, material, temperature table and measured factors."""

    def __init__(self, index, shape, role, mat, temps, partner=False):
        self.index, self.shape, self.role, self.mat, self.temps = index, shape, tuple(role), mat, list(temps)
        self.partner = partner
        self.vals = mat.measure(self.temps)
        self.kind = mat.kind(self.vals)
        if partner:
            e1, e2, n = G.PARTNERS[shape]
            self.role = (e1, e2)
        self.dims = G.dim_map(shape, self.role)             # real name -> abstract
        self.real = {a: r for r, a in self.dims.items() if a in ABS}
        self.nominal = {r: G.SHAPES[shape]["dims"][r][1] for r, a in self.dims.items() if a not in ABS}
        # inherited dimensions (DIMENSION_NAMES along the MRO) the shape's own area formula does not use are read too:
        # aliases are lengths that start at a constructor dimension's value ("e0": never touched by a behaviour),
        # dimensions stored as 0 read 0 hot and cold, never-assigned ones cannot be read
        ex = _extras(shape, self.role, index)
        ctor = G.ctor_dims(shape, self.role, index)
        for r, target in ex["alias"].items():
            self.dims[r] = "e0"
            self.nominal[r] = ctor[target]
        self.zero = list(ex["zero"])
        self.unset = list(ex["unset"])

    def describe(self):
        return {"shape": self.shape, "role": list(self.role), "material": self.mat.name, "temps_C": self.temps,
                "kind": self.kind, "partner": self.partner}

    def make(self, tin, thot):
        m = self.mat.cls()
        name = "c%d" % self.index
        return G.build_component(self.shape, self.role, m, self.temps[tin - 1], self.temps[thot - 1], name, comp_index=self.index)


_EXTRAS = {}


def _extras(shape, role, index):
    k = (shape, tuple(role), index)
    if k not in _EXTRAS:
        armi_ready()
        _EXTRAS[k] = G.extra_dims(shape, G.build_component(shape, role, "Custom", 25.0, 25.0, "probe", comp_index=index))
    return _EXTRAS[k]


class Binding:
    def __init__(self, s1, s2, rng_c=None):
        self.s = (s1, s2)
        self.kinds = [s1.kind, s2.kind]
        self.fac = list(s1.vals) + list(s2.vals)           # atom (c,t) -> index (c-1)*NT + t - 1
        self.nt = len(s1.temps)
        self.range_c = tuple(rng_c) if rng_c else (min(s1.temps), max(s1.temps))   # shared valid range (ramps stay inside)

    def describe(self):
        return {"c1": self.s[0].describe(), "c2": self.s[1].describe(), "range_C": list(self.range_c)}

    def side(self, ci, src):
        """ci = 0, 1 the constructed components, 2 the duplicate (it has the shape / material / table values of its source)."""
        return self.s[ci] if ci < 2 else self.s[src - 1]

    def supports(self, act):
        """UnshapedComponent has no dimensions: only behaviours that never touch a dimension of component 1 (or of a
        duplicate, which may be component 1's)."""
        s1 = self.s[0]
        if s1.real:
            return True
        if act["n"] == "SetDim":
            return act["c"] == 2
        if act["n"] == "SetLink":
            return False
        return True

    def label(self):
        return "%s[%s]/%s + %s/%s" % (self.s[0].shape, ",".join(str(r) for r in self.s[0].role), self.s[0].mat.name,
                                       self.s[1].shape, self.s[1].mat.name)


def binding_from(desc):
    mats = {m.name: m for m in G.materials()}
    sides = []
    for i, k in enumerate(("c1", "c2")):
        d = desc[k]
        sides.append(Side(i + 1, d["shape"], d["role"], mats[d["material"]], d["temps_C"], partner=d["partner"]))
    return Binding(*sides, rng_c=desc.get("range_C"))


def evalmono(e, fac):
    v = 1.0
    for x, k in zip(fac, e):
        if k:
            v *= x ** k
    return v


class World:
    pass


class Adapter:
    """build / apply / project on real armi objects + conversion of the specification's observation into numbers."""

    def __init__(self, binding):
        armi_ready()
        from armi.reactor import blocks, composites
        from armi.utils import densityTools

        self.b = binding
        import numpy

        self.blocks, self.dt, self.composites, self.np = blocks, densityTools, composites, numpy

    # -- build ---------------------------------------------------------------------------------------------
    def build(self, root):
        w = World()
        w.err = ""
        w.block = self.blocks.HexBlock("blk", height=HEIGHT)
        w.comp, w.nd0 = [], []
        for i, s in enumerate(self.b.s):
            c = s.make(root["Tin"][i], root["T0"][i])
            # Composite.add, not Block.add: the block's pitch bookkeeping reads hot dimensions while adding, which an
            # 'inert' material refuses by design; parent / children / caches are what the component code needs
            self.composites.Composite.add(w.block, c)
            nd = c.getNumberDensities()
            if not nd or not any(v > 0 for v in nd.values()):
                # materials without a reference density build empty / zero compositions: give them one (an input)
                c.p.numberDensities = {"FE56": 0.02, "O16": 0.01}
                nd = c.getNumberDensities()
            a = root["aux"][i]
            a = {"d": a[0], "p": a[1]} if isinstance(a, (list, tuple)) else a
            if a["d"]:
                c.p.detailedNDens = self.np.array(DETAILED0, dtype=float)
            if a["p"]:
                c.p.pinNDens = self.np.array(PIN0, dtype=self.np.float32)
            w.comp.append(c)
            w.nd0.append(dict(nd))
        w.src = 0
        w.calls = [0, 0]        # setTemperature calls made on each component (a duplicate inherits its source's arrays)
        return w

    def ramp(self, comp, target, k):
        """k setTemperature calls: one jump to the start of the ramp, then steps of 0.05 - 0.09 degC through temperatures
        that are not in the table (inside the valid range), the last call exactly to the table temperature."""
        lo, hi = self.b.range_c
        inward = 1.0 if (target - lo) <= (hi - target) else -1.0
        room = 0.45 * (hi - lo)
        deltas, tot = [], 0.0
        for i in range(max(1, k - 1)):
            d = 0.05 + 0.04 * ((i * 0.6180339887) % 1.0)
            if tot + d > room:
                break
            deltas.append(d)
            tot += d
        comp.setTemperature(target + inward * tot)
        rem = tot
        for d in deltas[:-1]:
            rem -= d
            comp.setTemperature(target + inward * rem)
        comp.setTemperature(target)
        return len(deltas) + 1

    # -- apply ---------------------------------------------------------------------------------------------
    def apply(self, w, a):
        w.err = ""
        n = a["n"]
        s = self.b.side(a["c"] - 1, w.src)
        if n == "SetTemperature":
            w.comp[a["c"] - 1].setTemperature(s.temps[a["t"] - 1])
            w.calls[a["c"] - 1] += 1
        elif n == "Ramp":
            w.calls[a["c"] - 1] += self.ramp(w.comp[a["c"] - 1], s.temps[a["t"] - 1], a["k"])
        elif n == "Copy":
            new = copy.copy(w.comp[a["c"] - 1])             # Component.__copy__
            self.composites.Composite.add(w.block, new)     # armi puts the duplicate into the same block
            w.comp.append(new)
            w.nd0.append(dict(w.nd0[a["c"] - 1]))
            w.calls.append(w.calls[a["c"] - 1])
            w.src = a["c"]
        elif n == "SetDim":
            try:
                w.comp[a["c"] - 1].setDimension(s.real[a["d"]], G.VALUES[(s.index, a["d"])][a["v"]],
                                                retainLink=a["retain"], cold=a["cold"])
            except RuntimeError:
                w.err = "RuntimeError"      # the refusal the specification models (no expansion correlation)
        elif n == "SetLink":
            s2 = self.b.s[a["c2"] - 1]
            w.comp[a["c"] - 1].setLink(s.real[a["d"]], w.comp[a["c2"] - 1], s2.real[a["d2"]])
            # setLink leaves a previously cached volume in place (armi links dimensions while a block is constructed /
            # converted, before volumes are asked for); the cached volume after a bare setLink is not part of the statement
            w.comp[a["c"] - 1].clearLinkedCache()
        else:
            raise AssertionError("unknown action %r" % (a,))
        return w.err

    # -- project -------------------------------------------------------------------------------------------
    @staticmethod
    def _q(f):
        try:
            v = f()
        except RuntimeError:
            return "RuntimeError"
        return float(v) if v is not None else None

    def project(self, w):
        out = {"err": w.err, "src": w.src, "nd0": w.nd0, "calls": list(w.calls), "c": []}
        for i, c in enumerate(w.comp):
            s = self.b.side(i, w.src)
            t = c.temperatureInC
            o = {"T": s.temps.index(t) + 1 if t in s.temps else t}
            # cache-sensitive queries first: they must have been invalidated by the last mutator
            vol = self._q(c.getVolume)
            mass = self._q(c.getMass)
            area = self._q(c.getArea)
            o["area"] = area
            o["coldArea"] = float(c.getArea(cold=True))
            o["mph"] = mass if isinstance(mass, str) else mass / HEIGHT
            nd = c.getNumberDensities()
            o["nd"] = {k: float(v) for k, v in sorted(nd.items())}
            o["detailedNDens"] = None if c.p.detailedNDens is None else [float(x) for x in c.p.detailedNDens]
            o["pinNDens32"] = None if c.p.pinNDens is None else [[float(x) for x in row] for row in c.p.pinNDens]
            if isinstance(vol, str) or isinstance(area, str) or isinstance(mass, str):
                o["volIsAreaTimesHeight"] = o["massIsDensityTimesVolume"] = "RuntimeError" if (
                    vol == area == mass) else [vol, area, mass]
            else:
                o["volIsAreaTimesHeight"] = _close(vol, area * HEIGHT) or [vol, area * HEIGHT]
                rho = self.dt.calculateMassDensity(nd)
                o["massIsDensityTimesVolume"] = _close(mass, rho * vol) or [mass, rho * vol]
            o["tef"] = self._q(c.getThermalExpansionFactor)
            o["hot"] = {r: self._q(lambda r=r: c.getDimension(r)) for r in s.dims}
            o["cold"] = {r: self._q(lambda r=r: c.getDimension(r, cold=True)) for r in s.dims}
            o["at"] = [{r: self._q(lambda r=r, tc=tc: c.getDimension(r, Tc=tc)) for r in s.dims} for tc in s.temps]
            o["areaAt"] = [self._q(lambda tc=tc: c.getArea(Tc=tc)) for tc in s.temps]
            # inherited dimensions stored as 0: getDimension returns a falsy dimension as it is, hot or cold
            o["zero"] = {r: [self._q(lambda r=r: c.getDimension(r)), self._q(lambda r=r: c.getDimension(r, cold=True))] +
                         [self._q(lambda r=r, tc=tc: c.getDimension(r, Tc=tc)) for tc in s.temps] for r in s.zero}
            o["link"] = {a: bool(c.dimensionIsLinked(r)) for a, r in s.real.items()}
            # which live component each linked dimension points at (identity), for classifying divergences only
            o["linksTo"] = {a: next((j for j, x in enumerate(w.comp) if x is c.p[r].getLinkedComponent()), -1)
                            for a, r in s.real.items() if o["link"][a]}
            out["c"].append(o)
        return out

    # -- the specification's observation, evaluated with the measured factors ---------------------------------
    def _val(self, q, s, real, src):
        if q["r"] != "ok":
            return q["r"]
        if q["bd"] in ABS:
            base = G.VALUES[(q["bc"] if q["bc"] < 3 else src, q["bd"])][q["b"]]
        else:
            base = s.nominal[real]
        return base * evalmono(q["e"], self.b.fac)

    def expected(self, obs, err, got):
        """obs = Obs printed by TLC for this state; got supplies the two bases that are observations themselves
        (current cold area, constructed number densities are in the world)."""
        src, nd0 = got["src"], got["nd0"]
        exp = {"err": err, "c": []}
        if [o["live"] for o in obs] != [True, True, src != 0] or len(got["c"]) != 2 + (src != 0):
            raise AssertionError("harness: live components of the specification and of the world differ")
        for i, g in enumerate(got["c"]):
            so, s = obs[i], self.b.side(i, src)
            e = {"T": so["T"]}
            e["tef"] = so["tef"]["r"] if so["tef"]["r"] != "ok" else evalmono(so["tef"]["e"], self.b.fac)
            ndf = evalmono(so["nd"], self.b.fac)
            e["nd"] = {k: v * ndf for k, v in sorted(nd0[i].items())}
            anf = evalmono(so["an"], self.b.fac)
            e["detailedNDens"] = [x * anf for x in DETAILED0] if so["aux"]["d"] else None
            e["pinNDens32"] = [[float(self.np.float32(x)) * anf for x in row] for row in PIN0] if so["aux"]["p"] else None
            e["hot"] = {r: self._val(so["hot"][a], s, r, src) for r, a in s.dims.items()}
            e["cold"] = {r: self._val(so["cold"][a], s, r, src) for r, a in s.dims.items()}
            e["at"] = [{r: self._val(so["at"][t][a], s, r, src) for r, a in s.dims.items()} for t in range(self.b.nt)]
            e["link"] = {a: so["link"][a] for a in s.real}
            e["zero"] = {r: [0.0] * (2 + self.b.nt) for r in s.zero}
            e["areaAt"] = []
            for t in range(self.b.nt):
                at = so["areaAt"][t]
                # (a list entry that cannot be a monomial -- lengths following different materials -- is not compared)
                e["areaAt"].append(g["coldArea"] * evalmono(at["e"], self.b.fac) if at["r"] == "ok" else
                                   g["areaAt"][t] if at["r"] == "mixed" else at["r"])
            ar = so["area"]["r"]
            if ar == "ok":
                e["area"] = g["coldArea"] * evalmono(so["area"]["e"], self.b.fac)
            elif ar != "mixed":
                e["area"] = ar
            e["volIsAreaTimesHeight"] = e["massIsDensityTimesVolume"] = True if ar in ("ok", "mixed") else ar
            if ar == "ok":
                e["mph"] = self.dt.calculateMassDensity(nd0[i]) * g["coldArea"] * evalmono(so["mph"]["e"], self.b.fac)
            elif ar != "mixed":
                e["mph"] = ar
            exp["c"].append(e)
        return exp

    def run(self, root, steps, obs_of):
        """steps: list of (act, expected err, state key); compares after construction and after every step.
        Returns None or a divergence record."""
        w = self.build(root)
        beh = []
        try:
            got = self.project(w)
            d = compare(self.expected(obs_of(None), "", got), got)
            if d:
                return self._div(0, d, root, beh, {"n": "Init"}, None, got)
            for k, (act, err, key) in enumerate(steps):
                beh.append(act)
                self.apply(w, act)
                got = self.project(w)
                exp = self.expected(obs_of(key), err, got)
                d = compare(exp, got)
                if d:
                    return self._div(k + 1, d, root, beh, act, exp, got)
        except Exception as ex:  # noqa: BLE001  a legal call or query of armi that raises is a verdict, not a harness failure
            import traceback

            return self._div(len(beh), ".exception: %s escaped from the real code: %s" % (type(ex).__name__, str(ex)[:300]),
                             root, beh, beh[-1] if beh else {"n": "Init"}, None, {"exception": traceback.format_exc()[-2500:]})
        return None

    def _div(self, k, d, root, beh, act, exp, got):
        return {"diverged_at": k, "first_difference": d, "root": root, "behaviour": list(beh), "action": act,
                "expected": exp, "observed": got, "binding": self.b.describe()}


def compare(exp, got):
    """First difference; everything at RTOL except the float32 pin-wise densities."""
    d = rp.diff(exp, got, rtol=RTOL)
    if d and "pinNDens32" in d.split(":")[0]:
        lite = {"err": exp["err"], "c": [{k: v for k, v in c.items() if k != "pinNDens32"} for c in exp["c"]]}
        d = rp.diff(lite, got, rtol=RTOL)
        if not d:
            for i, c in enumerate(exp["c"]):
                d = rp.diff({"pinNDens32": c["pinNDens32"]}, got["c"][i], ".c[%d]" % i, rtol=RTOL_F32 * (got["calls"][i] + 2))
                if d:
                    break
    return d


def _close(a, b):
    return bool(abs(a - b) <= RTOL * max(abs(a), abs(b)) + 1e-300)


# ------------------------------------------------------------------------------------------------------------
# which pairs
# ------------------------------------------------------------------------------------------------------------
def inventory(rep, nt):
    """Materials with their temperature draw, shapes x roles; records what is excluded and why."""
    covered, excluded, problems, n3d = G.shape_classes()
    if problems:
        raise tlc.MachineryError("component inventory changed: " + "; ".join(problems))
    mats, skipped, defaults = [], {}, []
    for m in G.materials():
        try:
            kind = m.kind(m.measure(m.temps(FRACS[nt])))
        except NotImplementedError as ex:
            skipped[m.name] = "abstract material: %s" % ex
            continue
        if kind is None:
            skipped[m.name] = "fluid whose density is zero at some of the temperatures only"
            continue
        if not m.declared:
            defaults.append(m.name)
        mats.append((m, kind))
    shaperoles = [(sh, role) for sh in covered for role in G.SHAPES[sh]["roles"]]
    if rep is not None:
        rep.extra["inventory"] = {
            "shape_classes_2d_covered": covered, "shape_classes_2d_excluded": excluded, "shape_classes_3d_outside_statement": n3d,
            "shape_roles": len(shaperoles),
            "inherited_dimensions_not_constructor_arguments": {
                sh: _extras(sh, G.SHAPES[sh]["roles"][0], 1) for sh in covered
                if any(_extras(sh, G.SHAPES[sh]["roles"][0], 1).values())},
            "materials": {k: sorted(m.name for m, kk in mats if kk == k) for k in ("solid", "inert", "fluid", "void", "custom")},
            "materials_skipped": skipped,
            "materials_without_declared_range_use_default_C": {"solids": list(G.DEFAULT_RANGE_C), "names": defaults},
        }
    return mats, shaperoles


def temp_table(m, pm, nt, variant, rng=None):
    """The shared temperature table of a binding: nt distinct temperatures (deg C, 3 decimals) inside the intersection
    [lo, hi] of the two materials' valid ranges.  Tables deliberately contain the exact range ends, exactly 0.0 degC when
    0 lies in the range, and pairs only 0.05 - 0.09 degC apart (T and T + epsilon); the remaining entries are fractions
    of the range -- fixed per variant in quick, seeded random in thorough (rng given).  Returns (temps, (lo, hi)) or None
    when the ranges do not overlap enough.  Temperature indices carry no order in the specification."""
    lo, hi = max(m.range()[0], pm.range()[0]), min(m.range()[1], pm.range()[1])
    lo, hi = math.ceil(lo * 1000 - 1e-6) / 1000.0, math.floor(hi * 1000 + 1e-6) / 1000.0
    if hi - lo < G.MIN_SPAN_C:
        return None
    # the ends are converted from the correlations' own units (often K): step inward by 0.001 degC until the correlations'
    # own checks accept them
    for _ in range(5):
        if m.inside(lo) and pm.inside(lo):
            break
        lo = round(lo + 0.001, 3)
    for _ in range(5):
        if m.inside(hi) and pm.inside(hi):
            break
        hi = round(hi - 0.001, 3)
    zero_in = lo <= 0.0 <= hi

    def fr(f):
        return round(lo + f * (hi - lo), 3)

    def near(x, eps):
        return round(x + eps if x + eps <= hi else x - eps, 3)

    if rng is None:
        z = 0.0 if zero_in else lo
        if nt == 3:
            tabs = ([lo, fr(0.5), hi],
                    [z, near(z, 0.07), fr(0.88)],
                    [fr(0.3), near(fr(0.3), 0.08), hi])
        else:
            tabs = ([lo, hi, z if z != lo else fr(0.4), None],
                    [fr(0.12), near(fr(0.12), 0.09), fr(0.63), hi],
                    [lo, near(lo, 0.05), 0.0 if zero_in and lo < 0.0 else fr(0.5), fr(0.88)])
        t = list(tabs[variant % len(tabs)])
        if t[-1] is None:
            t[-1] = near(t[2], 0.06)
    else:
        while True:
            x = 0.0 if zero_in and rng.random() < 0.5 else fr(rng.uniform(0.02, 0.98))
            t = [lo if rng.random() < 0.5 else fr(rng.uniform(0.02, 0.98)), hi if rng.random() < 0.5 else fr(rng.uniform(0.02, 0.98)),
                 x, near(x, round(rng.uniform(0.05, 0.09), 3))]
            if nt == 3:
                del t[rng.randrange(2)]
            if all(abs(p - q) >= 0.045 for i, p in enumerate(t) for q in t[i + 1:]):
                rng.shuffle(t)
                break
    if len(set(t)) != nt or not all(lo <= x <= hi for x in t):
        raise tlc.MachineryError("bad temperature table %s for [%s, %s]" % (t, lo, hi))
    return t, (lo, hi)


def bindings(mats, shaperoles, thorough, nt, rng=None, kinds_available=None):
    """quick: every material with 3 shape-roles (rotating, so every shape-role meets >= 8 materials), partner kind
    alternating; thorough: every shape-role x every material, with a solid and with a fluid partner.  The two components
    share one temperature table (temp_table): a temperature passed explicitly to getDimension travels through links to the
    other component."""
    solids = [m for m, k in mats if k == "solid"]
    fluids = [m for m, k in mats if k == "fluid"]
    partners = sorted(G.PARTNERS)
    out = []
    n = 0
    for mi, (m, kind) in enumerate(mats):
        if thorough:
            srs = list(enumerate(shaperoles))
        else:
            srs = [((mi * 3 + j) % len(shaperoles), shaperoles[(mi * 3 + j) % len(shaperoles)]) for j in range(3)]
        for j, (si, (shape, role)) in enumerate(srs):
            pks = ("solid", "fluid") if thorough else (("solid", "fluid")[(mi + si) % 2],)
            if kinds_available is not None:
                pks = [pk for pk in pks if (kind, pk) in kinds_available] or ["solid"]
            for pk in pks:
                pool = solids if pk == "solid" else fluids
                for off in range(len(pool)):
                    pm = pool[(mi + 2 * si + 1 + off) % len(pool)]
                    tt = temp_table(m, pm, nt, j, rng)
                    if tt is None:
                        continue
                    s2 = Side(2, partners[n % len(partners)], (), pm, tt[0], partner=True)
                    if s2.kind != pk:
                        continue
                    break
                else:
                    raise tlc.MachineryError("no %s partner with an overlapping temperature range for %s" % (pk, m.name))
                out.append(Binding(Side(1, shape, role, m, tt[0]), s2, rng_c=tt[1]))
                n += 1
    return out


# ------------------------------------------------------------------------------------------------------------
def key_of(div):
    """Stable identifier of the failing input class: the call, the material (densities, factor, escaping exceptions) or
    the shape class (dimension / area / mass laws) of the component that differs, and the observable."""
    b = div["binding"]
    act = div["action"]
    an = act["n"] + ("Hot" if act.get("cold") is False else "") + ("Retain" if act.get("retain") else "") + (
        "OnCopy" if act.get("c") == 3 else "")
    fd = div["first_difference"].split(":")[0]          # e.g. ".c[0].hot.od" or ".exception"
    m = re.match(r"\.c\[(\d)\]\.(\w+)", fd)
    if m:
        ci, head = int(m.group(1)), m.group(2)
    else:
        ci, head = act.get("c", 1) - 1, fd.strip(".") or "?"
    if ci == 2:       # the duplicate has the shape / material of its source
        ci = next((a["c"] for a in div.get("behaviour", []) if a["n"] == "Copy"), 1) - 1
    if head == "volIsAreaTimesHeight" and m and isinstance(div.get("observed"), dict) and "c" in div["observed"]:
        # a cached volume that was not invalidated.  Which component did the call change, and does the stale one link
        # to it directly?  (clearLinkedCache invalidates the direct dependants only: chains get their own stable key)
        obs_c = div["observed"]["c"]
        stale = int(m.group(1))
        changed = act.get("c", 0) - 1
        if act.get("retain") and 0 <= changed < len(obs_c):
            changed = obs_c[changed].get("linksTo", {}).get(act.get("d"), changed)
        if act["n"] in ("SetTemperature", "Ramp", "SetDim", "SetLink") and stale != changed and changed not in obs_c[stale].get("linksTo", {}).values():
            return "replay:cached-volume-stale:link-chain"
    if "observed 'RuntimeError'" in div["first_difference"] and "expected 'RuntimeError'" not in div["first_difference"]:
        # a read the specification allows was refused ("linear expansion percent may not be implemented"): name the
        # expanding solid whose correlation is involved (the component itself, or the one its link points at)
        sides = [b["c%d" % (ci + 1)], b["c%d" % (2 - ci if ci < 2 else 1)]]
        solid = [x["material"] for x in sides if x["kind"] == "solid"]
        if solid:
            return "replay:refused-read:%s" % solid[0]
    side = b["c%d" % (ci + 1)]
    if head in ("detailedNDens", "pinNDens32"):
        return "replay:%s:%s" % (an, head)      # an auxiliary density vector not scaled like numberDensities
    who = side["material"] if head in ("nd", "tef", "exception", "T") else side["shape"]
    return "replay:%s:%s:%s" % (an, who, head)


def load_graph(cfg, timeout=3000):
    if cfg not in _CACHE:
        res = tlc.run("ThermalExpansion_mc", cfg, MODDIR, workers=1, coverage=False, timeout=timeout)
        states = {}
        edges = []
        for p in res.prints:
            if isinstance(p, dict):
                if "st" in p:
                    states[rp.skey(p["st"])] = p
                elif "act" in p:
                    edges.append(p)
        g = rp.Graph(edges)
        _CACHE[cfg] = (res, g, states)
    return _CACHE[cfg]


def replay_bindings(rep, g, states, binds, per_binding, rng):
    """For every binding: behaviours = BFS path to an edge + the edge, preferring the deepest edges (every step of the
    path is checked, so one behaviour covers up to MaxLevel edges)."""
    by_kind = {}
    for e in g.edges:
        pre = g.path.get(e["_fk"])
        if pre is None:
            continue
        rootk = pre[0]["_fk"] if pre else e["_fk"]
        kinds = tuple(states[rootk]["vars"]["kind"][:2])
        by_kind.setdefault(kinds, []).append((len(pre), e, rootk))
    n = nontrivial = 0
    divs = {}
    used_edges = set()
    sample = None
    for b in binds:
        pool = by_kind.get(tuple(b.kinds))
        if not pool:
            raise tlc.MachineryError("no edges for kinds %s (%s)" % (b.kinds, b.label()))
        deep = max(p[0] for p in pool)
        cands = [p for p in pool if p[0] == deep and all(b.supports(s["act"]) for s in g.path[p[1]["_fk"]] + [p[1]])]
        if len(cands) > per_binding:
            cands = rng.sample(cands, per_binding)
        ad = Adapter(b)
        for depth, e, rootk in cands:
            steps = g.path[e["_fk"]] + [e]
            root = states[rootk]["vars"]
            d = ad.run(root, [(s["act"], s["err"], s["_tk"]) for s in steps],
                       lambda key, rk=rootk: states[key if key is not None else rk]["obs"])
            n += 1
            for s in steps:
                used_edges.add((s["_fk"], rp.skey(s["act"])))
                if s["_fk"] != s["_tk"]:
                    nontrivial += 1
            if sample is None and depth == deep and b.kinds[0] == "solid" and e["_fk"] != e["_tk"]:
                sample = {"kind": "behaviour", "binding": b.describe(), "calls": [s["act"] for s in steps],
                          "expected_obs_of_last_state_component_1": states[e["_tk"]]["obs"][0]}
            if d:
                k = key_of(d)
                if k not in divs:
                    divs[k] = d
                divs[k]["count"] = divs[k].get("count", 0) + 1
                break           # one divergence per binding is enough; the other bindings are still replayed
    return n, nontrivial, len(used_edges), list(divs.values()), sample


# ------------------------------------------------------------------------------------------------------------
# code -> spec: random call histories on real components, validated by TLC
# ------------------------------------------------------------------------------------------------------------
def record_traces(binds, nev, rng):
    traces, raw = [], {}
    nt = 4
    for bi, b in enumerate(binds):
        ad = Adapter(b)
        root = {"kind": b.kinds, "Tin": [rng.randint(1, nt), rng.randint(1, nt)], "T0": [rng.randint(1, nt), rng.randint(1, nt)],
                "aux": [[rng.random() < 0.5, rng.random() < 0.5] for _ in range(2)]}
        w = ad.build(root)
        tid = "t%d" % bi
        obs = []
        ev = []
        try:
            obs.append(ad.project(w))
        except Exception as ex:  # noqa: BLE001
            obs.append({"exception": "%s: %s" % (type(ex).__name__, str(ex)[:200])})
        for _ in range(nev):
            a = random_call(b, w, rng, nt)
            if a is None:
                continue
            try:
                err = ad.apply(w, a)
                got = ad.project(w)
                post = {"err": err, "src": got["src"], "T": ([o["T"] for o in got["c"]] + [1])[:3],
                        "link": ([[bool(o["link"].get(x, False)) for x in ABS] for o in got["c"]] + [[False] * 3])[:3]}
                ev.append({"a": a, "post": post})
                obs.append(got)
            except Exception as ex:  # noqa: BLE001  an escaping exception ends the history; TLC rejects the event
                ev.append({"a": a, "post": {"exception": "%s: %s" % (type(ex).__name__, str(ex)[:200])}})
                break
        traces.append({"id": tid, "const": root, "ev": ev})
        raw[tid] = (b, obs)
    return traces, raw


def random_call(b, w, rng, nt):
    for _ in range(20):
        r = rng.random()
        c = rng.randint(1, len(w.comp))
        s = b.side(c - 1, w.src)
        if r < 0.3:
            a = {"n": "SetTemperature", "c": c, "t": rng.randint(1, nt)}
        elif r < 0.42:
            a = {"n": "Ramp", "c": c, "t": rng.randint(1, nt), "k": rng.randint(40, 600)}
        elif r < 0.8:
            d = rng.choice(ABS)
            linked = bool(s.real) and w.comp[c - 1].dimensionIsLinked(s.real[d]) if d in s.real else False
            a = {"n": "SetDim", "c": c, "d": d, "v": rng.randint(1, 2), "cold": rng.random() < 0.4,
                 "retain": bool(linked and rng.random() < 0.5)}
        elif r < 0.92 or w.src:
            o, d, c2, d2 = rng.choice(((1, "e2", 2, "e1"), (2, "e2", 1, "e2")))
            if s.index != o:        # a duplicate may be linked where its source may
                c = o
            a = {"n": "SetLink", "c": c, "d": d, "c2": c2, "d2": d2}
        else:
            a = {"n": "Copy", "c": rng.randint(1, 2)}
        if b.supports(a):
            return a
    return None


def check_traces(rep, binds, nev, seed, label):
    rng = random.Random(seed * 104729 + 17)
    traces, raw = record_traces(binds, nev, rng)
    bad, stats = tracecheck.validate("ThermalExpansion_trace", "ThermalExpansion_trace.cfg", MODDIR, traces, timeout=3000)
    res = stats["tlc"]
    rep.add_tlc("trace-validation:" + label, res)
    rep.add_traces(label, len(traces), sum(len(t["ev"]) for t in traces),
                   "seeded random histories of setTemperature / setDimension (cold, hot, retainLink) / setLink calls on real "
                   "components (4 temperatures, 2 table values); TLC accepts each event (enabled, refused iff the real call "
                   "raised, temperatures and link flags) and prints the observables of every state, which are compared with the "
                   "recorded numbers")
    byid = {t["id"]: t for t in traces}
    for bd in bad:
        t = bd["trace"]
        k = bd["matched"]
        nxt = t["ev"][k] if k < len(t["ev"]) else {}
        b = raw[t["id"]][0] if t["id"] in raw else None
        srcs = [e["a"]["c"] for e in t["ev"][:k + 1] if e["a"]["n"] == "Copy"] + [1]
        who = b.side(nxt.get("a", {}).get("c", 1) - 1, srcs[0]).mat.name if b else "?"
        rep.violation("trace:%s:%s" % (nxt.get("a", {}).get("n", bd.get("invariant", "?")), who),
                      "recorded history is not a behaviour of ThermalExpansion at event %d (%s -> %s) on %s %s" % (
                          k + 1, json.dumps(nxt.get("a")), json.dumps(nxt.get("post"))[:300], b.label() if b else "",
                          json.dumps(bd.get("mismatch", ""))[:400]),
                      {"direction": "trace", "trace": t, "matched": k, "binding": b.describe() if b else None, "tlc": bd.get("tlc")})
    rejected = {bd["trace"]["id"] for bd in bad}
    # numeric part: the observables TLC computed for each event against the recorded numbers
    ncmp = 0
    for p in res.prints:
        if not (isinstance(p, dict) and "tr" in p):
            continue
        tid, k = p["tr"], p["k"]
        if tid in rejected or tid not in raw:
            continue
        b, obs = raw[tid]
        if k >= len(obs) or "exception" in obs[k]:
            continue
        ad = Adapter(b)
        got = obs[k]
        exp = ad.expected(p["obs"], got["err"], got)
        d = compare(exp, got)
        ncmp += 1
        if d:
            t = byid[tid]
            act = t["ev"][k - 1]["a"] if k else {"n": "Init"}
            div = {"diverged_at": k, "first_difference": d, "root": t["const"], "behaviour": [e["a"] for e in t["ev"][:k]],
                   "action": act, "expected": exp, "observed": got, "binding": b.describe()}
            rejected.add(tid)
            rep.violation(key_of(div).replace("replay:", "trace-values:"),
                          "real components (%s) diverge from ThermalExpansion at event %d of a recorded history, after %s: %s" % (
                              b.label(), k, json.dumps(act), d), dict(div, direction="replay"))
    if ncmp == 0:
        raise tlc.MachineryError("trace validation compared no state")
    rep.extra.setdefault("traces", {})[label]["states_compared_numerically"] = ncmp
    return traces


# ------------------------------------------------------------------------------------------------------------
def run(rep, tier, seed):
    thorough = tier == "thorough"
    armi_ready()
    tlc.sany("ThermalExpansion_mc", MODDIR)
    rep.exhaustive = True
    rng = random.Random(seed)

    # 1. exhaustive model checking of the design
    if not _SELFTEST:
        for cfg in (("ThermalExpansion_mc_thorough.cfg", "ThermalExpansion_deep_thorough.cfg") if thorough else ("ThermalExpansion_mc.cfg",)):
            res = tlc.run("ThermalExpansion_mc", cfg, MODDIR, want_prints=False, timeout=3000)
            rep.add_tlc("exhaustive:" + cfg, res)
            if res.violation:
                rep.violation("tlc:" + res.violation["name"], "TLC: %s violated in the specification" % res.violation["name"],
                              {"direction": "tlc", "trace": res.violation["trace"][:20000]})
            never = [a for a in ACTIONS if res.coverage.get(a, (0, 0))[1] == 0]
            if never:
                raise tlc.MachineryError("vacuous: actions never taken in %s: %s" % (cfg, never))

    # 2. spec -> code
    ecfg = "ThermalExpansion_emit_thorough.cfg" if thorough else "ThermalExpansion_emit.cfg"
    res, g, states = load_graph(ecfg)
    rep.add_tlc("edges:" + ecfg, res)
    if res.violation:
        rep.violation("tlc:" + res.violation["name"], "TLC: %s violated in the specification" % res.violation["name"],
                      {"direction": "tlc", "trace": res.violation["trace"][:20000]})
    seen = {(e["act"]["n"], e["act"].get("cold"), e["act"].get("retain"), e["err"]) for e in g.edges}
    need = [("Ramp", None, None, ""), ("Copy", None, None, ""), ("SetTemperature", None, None, ""), ("SetDim", True, False, ""), ("SetDim", False, False, ""), ("SetDim", False, True, ""),
            ("SetDim", False, False, "RuntimeError"), ("SetLink", None, None, "")]
    missing = [x for x in need if x not in seen]
    if missing or not g.edges:
        raise tlc.MachineryError("vacuous emission: no edge of kind %s" % missing)
    nt = 4 if thorough else 3
    mats, shaperoles = inventory(rep, nt)
    avail = {tuple(st["vars"]["kind"][:2]) for st in states.values()}
    binds = bindings(mats, shaperoles, thorough, nt, rng if thorough else None, avail)
    rep.extra["inventory"]["declared_range_end_where_the_correlation_is_not_a_finite_real"] = dict(G.END_NOT_USABLE)
    n, nontriv, nedges, divs, sample = replay_bindings(rep, g, states, binds, 14 if thorough else (8 if _SELFTEST else 18), rng)
    if n == 0:
        raise tlc.MachineryError("nothing replayed")
    rep.add_replay("edges-on-shape-x-material-pairs", n, nontriv,
                   "behaviours = BFS path to an edge of TLC's state graph + the edge, executed on two real components in a HexBlock "
                   "(component 1 = shape class x role x material under test, component 2 = partner); every observable of both "
                   "components is compared after construction and after every call; non-trivial = steps that change the abstract state")
    rep.extra["replay"]["edges-on-shape-x-material-pairs"].update({
        "bindings": len(binds), "distinct_edges_executed": nedges, "edges_in_graph": len(g.edges),
        "shape_roles_x_materials": len({(b.s[0].shape, b.s[0].role, b.s[0].mat.name) for b in binds})})
    if sample:
        rep.sample(sample)
    for d in divs:
        rep.violation(key_of(d), "real components (%s / %s + partner %s / %s) diverge from ThermalExpansion after %s: %s  [%d bindings]" % (
            d["binding"]["c1"]["shape"], d["binding"]["c1"]["material"], d["binding"]["c2"]["shape"], d["binding"]["c2"]["material"],
            json.dumps(d["action"]), d["first_difference"], d.get("count", 1)), dict(d, direction="replay"))

    # 3. code -> spec: long random histories (4 temperatures) on a rotating subset of the pairs
    mats4, _ = (mats, None) if nt == 4 else inventory(None, 4)
    tb = bindings(mats4, shaperoles, thorough, 4, rng if thorough else None)
    if not thorough:
        tb = tb[::3] if _SELFTEST else tb[::2]
    else:
        tb = tb[::3]
    traces = check_traces(rep, tb, 30 if thorough else 14, seed, "random-call-histories")
    if traces:
        rep.sample({"kind": "trace", "id": traces[0]["id"], "const": traces[0]["const"], "events": traces[0]["ev"][:3]})

    rep.assume(
        "material inputs: f(T) = 1 + linearExpansionPercent(T)/100 (fluids: pseudoDensity(T)) measured once per material and temperature "
        "from a fresh material instance; the VALUE of a correlation is an input, the laws relating observations are checked",
        "temperatures: one table per pair inside the intersection of the ranges the two materials' correlations themselves check "
        "(checkTempRange calls recorded; materials that check nothing use %s C, listed in coverage.inventory); tables contain the exact "
        "range ends, exactly 0.0 degC where it is in the range, pairs 0.05-0.09 degC apart, and fractions of the range (fixed in quick, "
        "seeded random in thorough)" % (list(G.DEFAULT_RANGE_C),),
        "Ramp = k (40-600) setTemperature calls in steps of 0.05-0.09 degC through temperatures outside the table, ending exactly at a "
        "table temperature; the end state is compared with the direct jump (rtol 1e-9)",
        "Copy = copy.copy(component) put into the same block; one duplicate per behaviour; nothing is linked to the duplicate",
        "materials whose linearExpansionPercent is identically 0 ('inert': no correlation implemented) are modelled with the documented "
        "refusal: reading / hot-setting a length at T != Tinput raises RuntimeError, setTemperature leaves the densities unchanged",
        "path independence is from a fixed constructed component (Tinput, Thot, dimensions): construction at another Thot is a different "
        "component (armi applies the 3-D density at construction and the 2-D reduction afterwards)",
        "area law: coldArea * factor^2 is asserted when all lengths of the component follow its own factor; with a length linked to a "
        "component of another material only volume = area*height and mass = density*volume are asserted ('mixed')",
        "links: component1.e2 <- component2.e1 and component2.e2 <- component1.e2 (chains, retainLink forwarding), never cyclic",
        "tolerance rtol=1e-9: every observable is a handful of double multiplications/divisions of the measured factors",
        "every dimension name along a shape class' MRO is read hot / cold / at each table temperature: constructor dimensions, inherited "
        "aliases (Square.lengthOuter/lengthInner: lengths) and inherited dimensions stored as 0 (read 0); getArea(Tc=t) is compared for "
        "every table temperature t",
        "auxiliary density vectors: p.detailedNDens / p.pinNDens are given input arrays (or left None) per component in the combination "
        "the specification's aux says (emission: one combination per kind pair; traces: all 16, random); pinNDens is float32: rtol "
        "1.2e-7 x (setTemperature calls made on the component + 2)",
        "zero-valued constructor dimensions, DerivedShape / NullComponent / abstract Component classes and 3-D shapes are outside (coverage.inventory)",
    )


# ------------------------------------------------------------------------------------------------------------
def replay(payload):
    armi_ready()
    if payload.get("direction") == "replay" and payload.get("binding"):
        b = binding_from(payload["binding"])
        ad = Adapter(b)
        w = ad.build(payload["root"])
        print("binding:", b.label(), "kinds", b.kinds)
        try:
            for a in payload["behaviour"]:
                err = ad.apply(w, a)
                print("  call", json.dumps(a), "->", err or "ok")
            got = ad.project(w)
        except Exception as ex:  # noqa: BLE001
            import traceback

            traceback.print_exc()
            print("DIVERGES: %s escaped from the real code" % type(ex).__name__)
            return 1
        exp = payload.get("expected")
        d = compare(exp, got) if exp else None
        print(json.dumps({"first_difference": d, "observed": got}, indent=1, default=str)[:6000])
        return 1 if d else 0
    print("replay of direction=%s: see payload (TLC trace / recorded trace)" % payload.get("direction"))
    return 0


# ------------------------------------------------------------------------------------------------------------
def selftest():
    """In-process mutants of the anchored code; each must be detected."""
    global _SELFTEST
    from harness.report import Report
    from harness.selftest import patched, run_mutants

    armi_ready()
    from armi.materials import material
    from armi.materials.ht9 import HT9
    from armi.reactor.components import basicShapes, complexShapes, component

    _SELFTEST = True
    C = component.Component
    M = material.Material

    from harness import findings

    known = findings.known_keys("C03")

    def detect():
        rep = Report("C03", "quick", 0)
        run(rep, "quick", 0)
        return [v["key"] for v in rep.violations if v["key"] not in known]

    def reduction_cubed(self, prevTempInC, newTempInC):
        dLL = self.linearExpansionFactor(Tc=newTempInC, T0=prevTempInC)
        return 1.0 / (1 + dLL) ** 3

    def reduction_swapped(self, prevTempInC, newTempInC):
        dLL = self.linearExpansionFactor(Tc=prevTempInC, T0=newTempInC)
        return 1.0 / (1 + dLL) ** 2

    def factor_additive(self, Tc, T0):
        # the classic mistake: dL/L relative to the material's reference, not to T0
        return (self.linearExpansionPercent(Tc=Tc) - self.linearExpansionPercent(Tc=T0)) / 100.0

    orig_tef = C.getThermalExpansionFactor

    def tef_ignores_tinput(self, Tc=None, T0=None):
        if T0 is None and not isinstance(self.material, (material.Fluid,)) and type(self.material).__name__ != "Custom":
            Tc = self.temperatureInC if Tc is None else Tc
            return 1.0 + self.material.linearExpansionPercent(Tc=Tc) / 100.0
        return orig_tef(self, Tc, T0)

    def set_temperature_stale(self, temperatureInC):
        prevTemp, self.temperatureInC = self.temperatureInC, float(temperatureInC)
        f = self.material.getThermalExpansionDensityReduction(prevTemp, self.temperatureInC)
        self.changeNDensByFactor(f)

    def clear_linked_only_self(self):
        self.clearCache()
        if self.parent:
            self.parent.cached = {}

    def set_dimension_hot_undivided(self, key, val, retainLink=False, cold=True):
        if not key:
            return
        if retainLink and self.dimensionIsLinked(key):
            linkedComp, linkedDimName = self.p[key]
            linkedComp.setDimension(linkedDimName, val, cold=cold)
        else:
            self.p[key] = val
        self.clearLinkedCache()

    def set_dimension_retain_own_factor(self, key, val, retainLink=False, cold=True):
        if not key:
            return
        if retainLink and self.dimensionIsLinked(key):
            linkedComp, linkedDimName = self.p[key]
            if not cold:
                val /= self.getThermalExpansionFactor()
            linkedComp.setDimension(linkedDimName, val, cold=True)
        else:
            if not cold:
                val /= self.getThermalExpansionFactor() if key in self.THERMAL_EXPANSION_DIMS else 1.0
            self.p[key] = val
        self.clearLinkedCache()

    def resolve_own_temperature(self, Tc=None, cold=False):
        return self[0].getDimension(self[1], cold=cold)

    def get_dimension_link_cold(self, key, Tc=None, cold=False):
        dimension = self.p[key]
        if isinstance(dimension, component._DimensionLink):
            return dimension.resolveDimension(Tc=Tc, cold=True)
        if not dimension or cold or key not in self.THERMAL_EXPANSION_DIMS:
            return dimension
        return self.getThermalExpansionFactor(Tc) * dimension

    def fluid_reduction_inverted(self, prevTempInC, newTempInC):
        rho0 = self.pseudoDensity(Tc=prevTempInC)
        if not rho0:
            return 1.0
        return rho0 / self.pseudoDensity(Tc=newTempInC)

    def ht9_percent_broken(self, Tk=None, Tc=None):
        # a correlation whose value depends on call history is not a function of T: laws over measured inputs break
        self._n = getattr(self, "_n", 0) + 1
        from armi.utils.units import getTk

        tk = getTk(Tc, Tk)
        return 0.001 * (tk - 293.0) * (1.0 + 1e-4 * (self._n % 3))

    def circle_area_cold_id(self, cold=False, Tc=None):
        idiam = self.getDimension("id", cold=True)
        od = self.getDimension("od", cold=cold, Tc=Tc)
        mult = self.getDimension("mult", cold=cold, Tc=Tc)
        return math.pi * (od ** 2 - idiam ** 2) / 4.0 * mult

    def set_temperature_from_input(self, temperatureInC):
        self.temperatureInC = float(temperatureInC)
        self.changeNDensByFactor(self.material.getThermalExpansionDensityReduction(self.inputTemperatureInC, self.temperatureInC))
        self.clearLinkedCache()

    def unshaped_area_linear(self, cold=False, Tc=None):
        if cold:
            return self.p.area
        return self.getThermalExpansionFactor(self.temperatureInC if Tc is None else Tc) * self.p.area

    orig_set_temperature = C.setTemperature

    def set_temperature_ignores_zero(self, temperatureInC):
        if not temperatureInC:
            return
        return orig_set_temperature(self, temperatureInC)

    def reduction_deadband(self, prevTempInC, newTempInC):
        if abs(newTempInC - prevTempInC) < 0.1:
            return 1.0
        dLL = self.linearExpansionFactor(Tc=newTempInC, T0=prevTempInC)
        return 1.0 / (1 + dLL) ** 2

    def copy_plain_deepcopy(self):
        return copy.deepcopy(self)

    def copy_shares_params(self):
        new = orig_copy(self)
        new.p = self.p          # the duplicate is not independent: it shares the parameter collection of its source
        return new

    orig_copy = C.__copy__

    from armi.materials.uZr import UZr
    from armi.reactor import components as comps

    P = patched
    def unshaped_area_ignores_tc(self, cold=False, Tc=None):
        if cold:
            return self.p.area
        return self.getThermalExpansionFactor() ** 2 * self.p.area

    def hexagon_area_ignores_tc(self, cold=False, Tc=None):
        op = self.getDimension("op", cold=cold)
        ip = self.getDimension("ip", cold=cold)
        return math.sqrt(3.0) / 2.0 * (op ** 2 - ip ** 2) * self.getDimension("mult")

    def other_dens_pin_nested(self, factor):
        if self.p.detailedNDens is not None:
            self.p.detailedNDens *= factor
            if self.p.pinNDens is not None:
                self.p.pinNDens *= factor

    def other_dens_detailed_twice(self, factor):
        if self.p.detailedNDens is not None:
            self.p.detailedNDens *= factor * factor
        if self.p.pinNDens is not None:
            self.p.pinNDens *= factor

    mutants = [
        ("round 3 seed 3: pinNDens scaled only when detailedNDens is set", lambda: P(C, "_changeOtherDensParamsByFactor", other_dens_pin_nested)),
        ("detailedNDens scaled by the factor squared", lambda: P(C, "_changeOtherDensParamsByFactor", other_dens_detailed_twice)),
        ("round 2 seed 3: Square drops the inherited length dims from THERMAL_EXPANSION_DIMS",
         lambda: P(basicShapes.Square, "THERMAL_EXPANSION_DIMS", {"widthOuter", "widthInner"})),
        ("round 2 seed 5: UnshapedComponent.getComponentArea ignores Tc", lambda: P(comps.UnshapedComponent, "getComponentArea", unshaped_area_ignores_tc)),
        ("Hexagon.getComponentArea ignores Tc", lambda: P(basicShapes.Hexagon, "getComponentArea", hexagon_area_ignores_tc)),
        ("seed 2: setTemperature(0.0) silently ignored", lambda: P(C, "setTemperature", set_temperature_ignores_zero)),
        ("seed 4: no density change for steps below 0.1 degC", lambda: P(M, "getThermalExpansionDensityReduction", reduction_deadband)),
        ("seed 5: __copy__ is a plain deepcopy (links frozen)", lambda: P(C, "__copy__", copy_plain_deepcopy)),
        ("__copy__ shares the parameter collection with its source", lambda: P(C, "__copy__", copy_shares_params)),
        ("setTemperature reduces from Tinput instead of the previous T", lambda: P(C, "setTemperature", set_temperature_from_input)),
        ("UZr only: density reduction with exponent 3", lambda: P(UZr, "getThermalExpansionDensityReduction", reduction_cubed)),
        ("UnshapedComponent area grows linearly", lambda: P(comps.UnshapedComponent, "getComponentArea", unshaped_area_linear)),
        ("density reduction with exponent 3", lambda: P(M, "getThermalExpansionDensityReduction", reduction_cubed)),
        ("density reduction with (prev, new) swapped", lambda: P(M, "getThermalExpansionDensityReduction", reduction_swapped)),
        ("linearExpansionFactor not relative to T0 (additive)", lambda: P(M, "linearExpansionFactor", factor_additive)),
        ("getThermalExpansionFactor ignores Tinput", lambda: P(C, "getThermalExpansionFactor", tef_ignores_tinput)),
        ("setTemperature does not clear the linked cache", lambda: P(C, "setTemperature", set_temperature_stale)),
        ("clearLinkedCache forgets the linked components", lambda: P(C, "clearLinkedCache", clear_linked_only_self)),
        ("setDimension(cold=False) does not divide by the factor", lambda: P(C, "setDimension", set_dimension_hot_undivided)),
        ("setDimension(retainLink) divides by its own factor", lambda: P(C, "setDimension", set_dimension_retain_own_factor)),
        ("_DimensionLink.resolveDimension drops Tc", lambda: P(component._DimensionLink, "resolveDimension", resolve_own_temperature)),
        ("getDimension resolves links cold", lambda: P(C, "getDimension", get_dimension_link_cold)),
        ("Hexagon: ip missing from THERMAL_EXPANSION_DIMS", lambda: P(basicShapes.Hexagon, "THERMAL_EXPANSION_DIMS", {"op"})),
        ("Helix: axialPitch missing from THERMAL_EXPANSION_DIMS",
         lambda: P(complexShapes.Helix, "THERMAL_EXPANSION_DIMS", {"od", "id", "helixDiameter"})),
        ("Circle: mult listed in THERMAL_EXPANSION_DIMS", lambda: P(basicShapes.Circle, "THERMAL_EXPANSION_DIMS", {"od", "id", "mult"})),
        ("Circle.getComponentArea reads id cold", lambda: P(basicShapes.Circle, "getComponentArea", circle_area_cold_id)),
        ("Fluid density reduction inverted", lambda: P(material.Fluid, "getThermalExpansionDensityReduction", fluid_reduction_inverted)),
        ("HT9.linearExpansionPercent not a function of T", lambda: P(HT9, "linearExpansionPercent", ht9_percent_broken)),
    ]
    try:
        rc = run_mutants(mutants, detect)
        return max(rc, trace_validator_selftest())
    finally:
        _SELFTEST = False


def trace_validator_selftest():
    """The trace validator must reject a recorded history with one field corrupted or one event removed."""
    import copy

    mats4, shaperoles = inventory(None, 4)
    tb = bindings(mats4, shaperoles, False, 4)[::9]
    traces, _ = record_traces(tb, 12, random.Random(5))
    good = [t for t in traces if len(t["ev"]) >= 4 and all("exception" not in e["post"] for e in t["ev"])]
    bad, _ = tracecheck.validate("ThermalExpansion_trace", "ThermalExpansion_trace.cfg", MODDIR, good, timeout=3000)
    ok_ids = {t["id"] for t in good} - {b["trace"]["id"] for b in bad}
    variants = []
    for t in good:
        if t["id"] not in ok_ids:
            continue
        a = copy.deepcopy(t)
        a["id"] += "-err"
        a["ev"][1]["post"]["err"] = "" if a["ev"][1]["post"]["err"] else "RuntimeError"
        b = copy.deepcopy(t)
        b["id"] += "-T"
        b["ev"][2]["post"]["T"][0] = b["ev"][2]["post"]["T"][0] % 4 + 1
        variants += [a, b]
        prev = list(t["const"]["T0"]) + [1]
        for k, e in enumerate(t["ev"][:-1]):
            nxt = t["ev"][k + 1]["a"]
            # (a dropped setTemperature that is immediately overwritten on the same component is, by path independence,
            #  again a behaviour of the specification -- not a corruption)
            if e["a"]["n"] == "SetTemperature" and e["post"]["T"] != prev and not (
                    nxt["n"] in ("SetTemperature", "Ramp") and nxt["c"] == e["a"]["c"]):
                c = copy.deepcopy(t)
                c["id"] += "-drop"
                del c["ev"][k]
                variants.append(c)
                break
            prev = e["post"]["T"]
    bad, _ = tracecheck.validate("ThermalExpansion_trace", "ThermalExpansion_trace.cfg", MODDIR, variants, timeout=3000)
    rejected = {b["trace"]["id"] for b in bad}
    missed = [v["id"] for v in variants if v["id"] not in rejected]
    for kind in ("err", "T", "drop"):
        tot = [v for v in variants if v["id"].endswith("-" + kind)]
        m = [v for v in missed if v.endswith("-" + kind)]
        print("%s  corrupted recorded histories (%s): %d of %d rejected by TLC" % ("caught " if not m and tot else "MISSED ", {
            "err": "refusal flag flipped", "T": "temperature index changed", "drop": "one setTemperature event removed"}[kind],
            len(tot) - len(m), len(tot)))
    print("trace validator: %d clean histories accepted of %d" % (len(ok_ids), len(good)))
    return 0 if not missed and variants and len(ok_ids) == len(good) else 1
