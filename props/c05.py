"""C05 -- every parameter value shape survives database encoding and decoding.

spec/db/ParamCodec.tla   collection -> (planned outcome, tag, normal form NF).  Exhaustively model checked; then
    spec -> code  every collection TLC enumerated is concretised and pushed through the real
                  Database._writeParams -> in-memory HDF5 -> Database._readParams path (plus: the attribute side-dataset
                  form on tiled collections; thorough: Database.writeToDB/load of a whole reactor) and compared with
                  TLC's outcome and NF;
    code -> spec  seeded random, longer collections are run on the real path first and TLC validates the recorded
                  Assign*/Write/Read history (ParamCodec_trace).
spec/db/FlagCodec.tla    flag sets under extension / redefinition of the flag class between write and read: every Read
                  edge of the state graph is replayed on generated Flag classes through FlagSerializer and a real HDF5
                  dataset; random histories are validated by FlagCodec_trace.

Nothing in this file decides what the right answer is: outcomes, tags and normal forms are printed by TLC (or checked by
TLC in the trace direction); the adapter builds concrete values for the abstract value ids, runs armi, projects what came
back onto the spec's vocabulary and compares.  Violation keys are <manifestation>:<spec tag>, e.g. readback:nones:uint.
./check C05 selftest applies one-line edits to the real source text of the anchored functions and expects new keys.
"""
import itertools
import json
import logging
import math
import multiprocessing
import os
import random
import time

from harness import common, tlc, tracecheck
from harness.armi_env import armi_ready

MODDIR = os.path.join(common.SPEC, "db")
NPROC_QUICK, NPROC_THOROUGH = 8, 8

# ------------------------------------------------------------------------------------------------------------
# value table: abstract value id -> concrete value, per kind (data of the adapter; the spec never sees numbers)
#   hi2 = max-2 of the kind (the marker NONE_MAP uses for UNSIGNED types), lo2 = min+2 (the marker for SIGNED types):
#   every kind carries the *other* family's marker as an ordinary value, never its own (assumption I3 of the spec).
#   Neighbours of the markers that must stay values: pinf/ninf (+-inf), nz (-0.0), fmax (largest finite real), z (0),
#   m1 (-1; unsigned: all ones), lo1/lo3 (min+1, min+3), hi1/hi3 (max-1, max-3).
# ------------------------------------------------------------------------------------------------------------
_NP = None


def _np():
    global _NP
    if _NP is None:
        import numpy as np

        _NP = np
    return _NP


def np_type(kind):
    np = _np()
    return {"i8": np.int8, "i16": np.int16, "i32": np.int32, "i64": np.int64, "u8": np.uint8, "u16": np.uint16,
            "u32": np.uint32, "u64": np.uint64, "f32": np.float32, "f64": np.float64, "b1": np.bool_, "str": np.str_}[kind]


NON_ASCII = "10 \u00b5m gap"  # datasets hold ASCII byte strings: text like this must be refused, never stored altered
DICT_KEYS = {"p": "p", "q": "q", "r": "r", "u": "\u00b5"}  # key id -> key
DICT_IDS = {v: k for k, v in DICT_KEYS.items()}


def with_layout(arr, lay):
    """the same logical array in another memory layout (C row-major, F Fortran-ordered, T transposed view of a C array,
    S strided non-contiguous view)"""
    np = _np()
    if lay == "F":
        out = np.asfortranarray(arr)
    elif lay == "T":
        out = np.ascontiguousarray(arr.T).T
    elif lay == "S":
        big = np.zeros(arr.shape[:-1] + (2 * arr.shape[-1],), dtype=arr.dtype)
        big[..., ::2] = arr
        out = big[..., ::2]
    else:
        return arr
    assert out.shape == arr.shape and np.array_equal(out, arr, equal_nan=arr.dtype.kind == "f")
    return out


def value(kind, vid):
    """concrete scalar for (kind, value id)"""
    np = _np()
    if vid == "none":
        return None
    if kind == "int":
        lo = -(2 ** 63)
        return {"hi2": 2 ** 63 - 3, "b": -3, "a": 11, "z": 0, "m1": -1, "lo1": lo + 1, "lo3": lo + 3}[vid]
    if kind in ("i8", "i16", "i32", "i64"):
        t = np_type(kind)
        lo, hi = int(np.iinfo(t).min), int(np.iinfo(t).max)
        return t({"hi2": hi - 2, "b": -3, "a": 11, "z": 0, "m1": -1, "lo1": lo + 1, "lo3": lo + 3}[vid])
    if kind in ("u8", "u16", "u32", "u64"):
        t = np_type(kind)
        lo, hi = int(np.iinfo(t).min), int(np.iinfo(t).max)
        return t({"lo2": lo + 2, "b": 200, "a": 11, "z": 0, "m1": hi, "hi1": hi - 1, "hi3": hi - 3}[vid])
    if kind in ("float", "f64", "f32"):
        fmax = float(np.finfo(np.float32).max) if kind == "f32" else float(np.finfo(np.float64).max)
        x = {"a": 1.5, "b": -2.25, "nan": float("nan"), "pinf": float("inf"), "ninf": float("-inf"), "nz": -0.0,
             "fmax": fmax}[vid]
        return x if kind == "float" else np_type(kind)(x)
    if kind in ("bool", "b1"):
        x = {"a": True, "b": False}[vid]
        return x if kind == "bool" else np.bool_(x)
    if kind == "str":
        return {"a": "x", "b": "yz", "u": NON_ASCII, "t": "fuel  ", "sp": " ", "nl": "line\n", "tab": "\t", "ld": "  lead", "e": ""}[vid]
    raise AssertionError("unknown kind " + kind)




def concretize(e):
    """abstract entry (as printed by TLC / generated by the trace driver) -> the python value put on the object"""
    np = _np()
    t = e["t"]
    if t == "none":
        return None
    if t == "sc":
        return value(e["k"], e["v"])
    if t == "dict":
        return {DICT_KEYS[k]: value(e["k"], v) for k, v in e["m"]}
    if t == "rag":
        return [[value(e["k"], v) for v in row] for row in e["rows"]]
    if t == "seq":
        sh = e["sh"]
        if e["c"] == "nd":
            flat = [value(e["k"], v) for v in e["vs"]]
            return with_layout(np.array(flat, dtype=np_type(e["k"])).reshape(sh), e.get("lay", "C"))
        flat = [value(e["k"], v) for v in e["vs"]]

        def nest(vals, shape):
            if len(shape) == 1:
                return list(vals)
            step = len(vals) // shape[0] if shape[0] else 0
            return [nest(vals[i * step:(i + 1) * step], shape[1:]) for i in range(shape[0])]

        out = nest(flat, sh)
        return tuple(tuple(r) if isinstance(r, list) else r for r in out) if e["c"] == "tuple" else out
    raise AssertionError("unknown entry " + json.dumps(e))


def entry_table(e):
    """value id -> concrete python value for the ids an entry uses"""
    t = e["t"]
    if t == "sc":
        vids = [e["v"]]
    elif t == "dict":
        vids = [v for _, v in e["m"]]
    elif t == "rag":
        vids = [v for row in e["rows"] for v in row]
    elif t == "seq":
        vids = list(e["vs"])
    else:
        vids = []
    out = {}
    for v in vids:
        if v not in ("none", "nan"):
            x = value(e["k"], v)
            out[v] = x.item() if hasattr(x, "item") else x
    return out


def _cls_of(x):
    np = _np()
    if isinstance(x, (bool, np.bool_)):
        return "b"
    if isinstance(x, (int, np.integer)):
        return "i"
    if isinstance(x, (float, np.floating)):
        return "f"
    if isinstance(x, (str, np.str_)):
        return "s"
    return "?" + type(x).__name__


def _cast(concrete, cls):
    """the value a concrete original takes under the value-preserving promotion bool < int < float (I1)"""
    if cls == "b":
        return concrete if isinstance(concrete, bool) else _NoMatch
    if cls == "i":
        return int(concrete) if isinstance(concrete, (bool, int)) else _NoMatch
    if cls == "f":
        return float(concrete) if isinstance(concrete, (bool, int, float)) else _NoMatch
    if cls == "s":
        return concrete if isinstance(concrete, str) else _NoMatch
    return _NoMatch


class _NoMatchT:
    def __eq__(self, other):
        return False


_NoMatch = _NoMatchT()


def _matches(conc, c, g):
    x = _cast(conc, c)
    return x == g and (c != "f" or g != 0 or math.copysign(1.0, x) == math.copysign(1.0, g))  # -0.0 is not 0.0


def _vid(g, table, prefer=None):
    """project one read-back leaf onto the value ids of the entry it came from.  Two ids of an entry can have the same
    image under the int -> float promotion (min+1 and min+3 of int64 are the same double): the id written at the same
    position / key is tried first."""
    if g is None:
        return "U"
    if hasattr(g, "item") and not isinstance(g, (str, bytes)):
        g = g.item()
    if isinstance(g, float) and math.isnan(g):
        return "nan"
    c = _cls_of(g)
    if prefer in table and _matches(table[prefer], c, g):
        return prefer
    for vid, conc in sorted(table.items()):
        if _matches(conc, c, g):
            return vid
    return "?" + repr(g)


DT_CODE = {"int8": "i8", "int16": "i16", "int32": "i32", "int64": "i64", "uint8": "u8", "uint16": "u16", "uint32": "u32",
           "uint64": "u64", "float32": "f32", "float64": "f64", "bool": "b1"}


def abstract(got, e):
    """what was read back for one object -> the spec's observation record (value ids relative to the entry written)"""
    np = _np()
    table = entry_table(e)
    if got is None:
        return {"t": "U"}
    if isinstance(got, dict):
        kept = sorted((DICT_IDS.get(str(k), "?" + str(k)), v) for k, v in got.items())  # a NaN-valued key that comes back is a key that came back
        cl = sorted({_cls_of(v) for _, v in kept})
        wrote = dict((k, v) for k, v in e["m"]) if e["t"] == "dict" else {}
        return {"t": "dict", "c": "" if not kept else (cl[0] if len(cl) == 1 else "mixed"),
                "m": [[k, _vid(v, table, wrote.get(k))] for k, v in kept]}
    if isinstance(got, (list, tuple, np.ndarray)):
        try:  # nested python lists must be regular (np.array(dtype=object) raises for ragged input)
            arr = got if isinstance(got, np.ndarray) else np.array(got, dtype=object)
        except ValueError:
            return {"t": "irregular", "repr": repr(got)[:200]}
        leaves = list(arr.flatten().tolist()) if isinstance(got, np.ndarray) else list(arr.flatten())
        if isinstance(got, np.ndarray) and got.dtype.kind in "biuf":
            cl = {"b": "b", "i": "i", "u": "i", "f": "f"}[got.dtype.kind] if arr.size else ""
        elif isinstance(got, np.ndarray) and got.dtype.kind == "U":
            cl = "s" if arr.size else ""
        else:
            cs = sorted({_cls_of(x) for x in leaves if x is not None})
            cl = "" if not cs else (cs[0] if len(cs) == 1 else "mixed")
        d = DT_CODE.get(str(got.dtype), str(got.dtype)) if isinstance(got, np.ndarray) and arr.size else ""
        wrote = [e["v"]] if e["t"] == "sc" else list(e["vs"]) if e["t"] == "seq" else \
            [v for row in e["rows"] for v in row] if e["t"] == "rag" else []
        if len(wrote) != len(leaves):
            wrote = [None] * len(leaves)
        return {"t": "seq", "c": cl, "d": d, "sh": [int(n) for n in arr.shape],
                "vs": [_vid(x, table, pv) for x, pv in zip(leaves, wrote)]}
    v = _vid(got, table, e.get("v"))
    if v == "U":
        return {"t": "U"}
    return {"t": "sc", "c": _cls_of(got.item() if hasattr(got, "item") else got), "v": v}


def relax(exp, obs):
    """exact dtypes are compared only where the spec determines them (field d, I4)"""
    out = []
    for x, o in zip(exp, obs):
        if isinstance(o, dict) and x.get("t") == "seq" and o.get("t") == "seq" and x.get("d") == "":
            o = dict(o, d="")
        out.append(o)
    return out + list(obs[len(exp):])


# ------------------------------------------------------------------------------------------------------------
# the real path: Database._writeParams(h5group, comps) -> in-memory HDF5 -> Database._readParams(...)
# ------------------------------------------------------------------------------------------------------------
_WORLD = None


class World:
    def __init__(self):
        armi_ready()
        logging.disable(logging.CRITICAL)  # armi logs every refused write at error level; thousands are expected
        import h5py
        import numpy as np
        from armi.bookkeeping.db import database
        from armi.reactor import composites, parameters
        from armi.utils import units

        self.h5py, self.np, self.database = h5py, np, database
        pd = parameters.ParameterDefinitionCollection()
        with pd.createBuilder() as pb:
            pb.defParam("x", units=units.UNITLESS, description="value under test", default=None, saveToDB=True,
                        setter=parameters.NoDefault, location=parameters.ParamLocation.AVERAGE)
            pb.defParam("fl", units=units.UNITLESS, description="flag set under test", default=None, saveToDB=True,
                        setter=parameters.NoDefault, location=parameters.ParamLocation.AVERAGE,
                        serializer=composites.FlagSerializer)

        pd1 = parameters.ParameterDefinitionCollection()
        with pd1.createBuilder() as pb:
            pb.defParam("x", units=units.UNITLESS, description="value under test", default=None, saveToDB=True,
                        setter=parameters.NoDefault, location=parameters.ParamLocation.AVERAGE)

        class C05Node(composites.Composite):
            """carries a value and a flag set (FlagSerializer column)"""
            pDefs = pd

        class C05Plain(composites.Composite):
            """only the parameter under test is written"""
            pDefs = pd1

        self.Node, self.Plain = C05Node, C05Plain
        self.db = database.Database("c05-unused.h5", "w")  # never opened: _writeParams only needs the instance
        self.file = None
        self.n = 0
        self.links = False

    def group(self):
        if self.file is None or self.n % 1500 == 0:
            if self.file is not None:
                self.file.close()
            self.file = self.h5py.File("c05-mem-%d.h5" % os.getpid(), "w", driver="core", backing_store=False)
        self.n += 1
        return self.file.create_group("c%05dn00" % self.n)

    def roundtrip(self, values, cls=None, param="x"):
        """returns dict(w=..., stored=..., r=..., back=[python values])"""
        cls = cls or self.Plain
        comps = [cls("o%d" % i) for i in range(len(values))]
        for c, v in zip(comps, values):
            c.p[param] = v
        g = self.group()
        res = {"w": "ok", "r": "", "stored": None, "back": None}
        try:
            self.db._writeParams(g, comps)
        except Exception as ex:  # noqa: BLE001 -- a refusal of any class is an observation, not a harness error
            res["w"] = "err:" + type(ex).__name__
            res["werr"] = str(ex)[:160]
            del self.file[g.name]
            return res
        res["stored"] = self.stored(g[cls.__name__], param)
        if self.links and param in g[cls.__name__]:
            res["stored"]["linked"] = self.to_links(g, g[cls.__name__][param])
        fresh = [cls("f%d" % i) for i in range(len(values))]
        try:
            self.database.Database._readParams(g, cls.__name__, fresh)
            res["r"] = "ok"
            res["back"] = [c.p[param] for c in fresh]
        except Exception as ex:  # noqa: BLE001
            res["r"] = "err:" + type(ex).__name__
            res["rerr"] = str(ex)[:160]
        del self.file[g.name]
        return res

    def roundtrip_legacy2d(self, values, param="x"):
        """equal-shaped arrays next to unset objects in the rectangular "nones" form: layout.replaceNonesWithNonsense's ndarray
        branch (what packSpecialData produced before numpy refused ragged object arrays; _writeParams now sends these
        collections to JaggedArray) -> 2-D dataset + attributes specialFormatting/nones -> Database._readParams"""
        np = self.np
        from armi.bookkeeping.db import layout

        cls = self.Plain
        res = {"w": "ok", "r": "", "stored": None, "back": None}
        data = np.empty(len(values), dtype=object)
        for i, v in enumerate(values):
            data[i] = None if v is None else np.array(v)
        g = self.group()
        try:
            out = layout.replaceNonesWithNonsense(data, param, None)
            ds = g.create_group(cls.__name__, track_order=True).create_dataset(param, data=out, compression="gzip", track_order=True)
            self.database.Database._writeAttrs(ds, g, {"specialFormatting": True, "nones": True})
        except Exception as ex:  # noqa: BLE001
            res["w"] = "err:" + type(ex).__name__
            res["werr"] = str(ex)[:160]
            del self.file[g.name]
            return res
        res["stored"] = {"st": "nones-2d", "dtype": ds.dtype.str, "shape": list(ds.shape)}
        fresh = [cls("f%d" % i) for i in range(len(values))]
        try:
            self.database.Database._readParams(g, cls.__name__, fresh)
            res["r"] = "ok"
            res["back"] = [c.p[param] for c in fresh]
        except Exception as ex:  # noqa: BLE001
            res["r"] = "err:" + type(ex).__name__
            res["rerr"] = str(ex)[:160]
        del self.file[g.name]
        return res

    def to_links(self, timenode, ds):
        """put the array attributes where Database._writeAttrs puts them when the object header is too small"""
        n = 0
        for key in ("offsets", "shapes", "noneLocations", "keys"):
            if key in ds.attrs and not isinstance(ds.attrs[key], str):
                value = ds.attrs[key]
                ag = timenode["attrs"] if "attrs" in timenode else timenode.create_group("attrs")
                name = str(len(ag)) + "_" + key
                ag[name] = value
                del ds.attrs[key]
                ds.attrs[key] = "@{}".format(ag[name].name)
                n += 1
        return n

    def stored(self, g, param):
        if param not in g:
            return {"st": "skip"}
        ds = g[param]
        a = dict(ds.attrs)
        st = "jagged" if a.get("jagged") else "dict" if a.get("dict") else "nones" if a.get("nones") else \
            "special-bare" if a.get("specialFormatting") else "plain"
        out = {"st": st, "dtype": ds.dtype.str, "shape": list(ds.shape)}
        for k in ("offsets", "shapes", "noneLocations", "keys"):
            if k in a:
                v = a[k]
                out[k] = "@link" if isinstance(v, str) and v.startswith("@") else \
                    (v.tolist() if hasattr(v, "tolist") else v)
                if k == "keys" and out[k] != "@link":
                    out[k] = [x.decode() if isinstance(x, bytes) else x for x in out[k]]
        return out


def world():
    global _WORLD
    if _WORLD is None:
        _WORLD = World()
    return _WORLD


# ------------------------------------------------------------------------------------------------------------
# one case: TLC's verdict on a collection vs. what armi does with it
# ------------------------------------------------------------------------------------------------------------
def legacy2d_eligible(case):
    """one or more unset objects next to equal-shaped, same-dtype numeric arrays without NaN (a domain selection)"""
    seqs = [e for e in case["x"] if e["t"] == "seq"]
    if not seqs or len(seqs) == len(case["x"]) or any(e["t"] not in ("seq", "none") for e in case["x"]):
        return False
    dts = {e["k"] if e["c"] == "nd" else {"int": "i64", "float": "f64"}.get(e["k"], "?") for e in seqs}
    return (case["out"] == "store" and len(dts) == 1 and dts <= {"i64", "f64", "u8"} and len({tuple(e["sh"]) for e in seqs}) == 1
            and all(e["c"] in ("nd", "list") and e["vs"] and "nan" not in e["vs"] and "none" not in e["vs"] for e in seqs))


def run_case(case, tile=1, legacy=False):
    """case = {"x": [entries], "out":..., "tag":..., "st":..., "nf": [...]}  ->  (verdict|None, observation)"""
    w = world()
    x = case["x"] * tile
    nf = case["nf"] * tile
    values = [concretize(e) for e in x]
    res = w.roundtrip_legacy2d(values) if legacy else w.roundtrip(values)
    obs = {"w": res["w"], "r": res["r"], "stored": res["stored"]}
    for k in ("werr", "rerr"):
        if k in res:
            obs[k] = res[k]
    if res["back"] is not None:
        obs["back"] = relax(nf, [abstract(g, e) for g, e in zip(res["back"], x)])
        if len(res["back"]) != len(x):
            obs["back"].append({"t": "LEN", "n": len(res["back"])})
    out, tag = case["out"], case["tag"]
    verdict = None
    accepted = res["w"] == "ok"
    if out in ("store", "skip") and not accepted:
        verdict = ("refused:" + tag, "a collection the specified writer stores was refused at write time (%s)" % res["w"])
    elif accepted and res["r"] != "ok":
        verdict = (("readerr:" if out != "reject" else "accepted:") + tag,
                   "accepted at write time, but reading it back raises %s" % res["r"])
    elif accepted and obs["back"] != nf:
        verdict = (("readback:" if out != "reject" else "accepted:") + tag,
                   "accepted at write time, but reads back different from the normal form")
    elif accepted and out == "reject":
        obs["faithful_but_unmodelled"] = True
    return verdict, obs


def _pool_init():
    world()


def _pool_run(args):
    chunk, tile = args
    out = []
    for idx, case in chunk:
        v, obs = run_case(case, tile)
        st_real = (obs.get("stored") or {}).get("st")
        out.append((idx, v, obs if v else None, obs["w"] == "ok", st_real, obs.get("faithful_but_unmodelled", False)))
    return out


def replay_cases(cases, nproc, tile=1):
    """-> list of (idx, verdict, obs, accepted, real strategy, faithful flag), in case order"""
    idx = list(enumerate(cases))
    if nproc <= 1 or len(cases) < 400:
        world()
        return _pool_run((idx, tile))
    size = max(50, min(500, len(idx) // (nproc * 8) + 1))
    chunks = [(idx[i:i + size], tile) for i in range(0, len(idx), size)]
    ctx = multiprocessing.get_context("fork")
    with ctx.Pool(nproc, initializer=_pool_init) as pool:
        parts = pool.map(_pool_run, chunks)
    return sorted(itertools.chain.from_iterable(parts), key=lambda r: r[0])


def describe(case):
    def one(e):
        v = concretize(e)
        return "%s" % (repr(v).replace("\n", " "),)

    return "[" + ", ".join(one(e) for e in case["x"]) + "]"


# ------------------------------------------------------------------------------------------------------------
# code -> spec: seeded random collections (beyond the model checker's domain), recorded and validated by TLC
# ------------------------------------------------------------------------------------------------------------
SHAPES = [[0], [1], [2], [3], [4], [2, 2], [1, 2], [2, 1], [3, 2], [2, 3], [1, 1]]
VIDS = {"int": ["hi2", "b", "a", "z", "m1", "lo1", "lo3"], "float": ["a", "b", "nan", "pinf", "ninf", "nz", "fmax"],
        "bool": ["a", "b"], "str": ["a", "b", "a", "b", "t", "sp", "nl", "tab", "ld", "e", "u"], "f32": ["a", "b", "pinf", "fmax"], "f64": ["a", "b", "nan", "pinf", "ninf", "nz"],
        "b1": ["a", "b"]}
for _k in ("i8", "i16", "i32", "i64"):
    VIDS[_k] = ["hi2", "b", "a", "z", "m1", "lo1", "lo3"]
for _k in ("u8", "u16", "u32", "u64"):
    VIDS[_k] = ["lo2", "b", "a", "z", "m1", "hi1", "hi3"]
SCALAR_KINDS = sorted(VIDS)
ND_KINDS = ["i8", "i16", "i32", "i64", "u8", "u16", "u32", "u64", "f32", "f64", "b1", "str"]
PY_KINDS = ["int", "float", "bool", "str"]
NP_INT = ("i8", "i16", "i32", "i64", "u8", "u16", "u32", "u64")


def gen_scalar(rng, kinds):
    k = rng.choice(kinds)
    return {"t": "sc", "k": k, "v": rng.choice(VIDS[k])}


def gen_seq(rng, kinds_nd, kinds_py, shapes=SHAPES, inner_none=0.06):
    c = rng.choice(["nd", "list", "list", "tuple"])
    sh = rng.choice(shapes)
    n = 1
    for d in sh:
        n *= d
    if c == "nd":
        k = rng.choice(kinds_nd)
        if n == 0:
            k = "f64"
        return {"t": "seq", "c": "nd", "k": k, "sh": sh, "vs": [rng.choice(VIDS[k]) for _ in range(n)],
                "lay": rng.choice(["C", "F", "T", "S"]) if len(sh) >= 2 else "C"}
    k = rng.choice(kinds_py)
    if n == 0:
        k = "float"
    vs = [rng.choice(VIDS[k]) for _ in range(n)]
    if n >= 2 and rng.random() < inner_none:
        vs[rng.randrange(1, n)] = "none"
    return {"t": "seq", "c": c, "k": k, "sh": sh, "vs": vs, "lay": "C"}


def gen_rag(rng, kinds_py):
    k = rng.choice([x for x in kinds_py if x != "str"] or ["int"])
    lens = rng.choice([[2, 1], [1, 2], [1, 3, 2], [2, 2, 1]])
    return {"t": "rag", "c": "list", "k": k, "rows": [[rng.choice(VIDS[k]) for _ in range(n)] for n in lens]}


def gen_dict(rng, kinds=("float", "float", "float", "int")):
    k = rng.choice(kinds)
    keys = [key for key in ("p", "q", "r") if rng.random() < 0.55] + (["u"] if rng.random() < 0.04 else [])
    return {"t": "dict", "k": k, "m": [[key, rng.choice(VIDS[k])] for key in keys]}


def modelled(x):
    """assumption I5 of the spec (a domain restriction, not an oracle)"""
    sc = [e["k"] for e in x if e["t"] == "sc"]
    for a in sc:
        if a in NP_INT:
            for b in sc:
                if b != a and b != "str":
                    return False
    return True


def gen_collection(rng):
    n = rng.choice([1, 2, 2, 3, 3, 4, 4, 5, 6, 8])
    theme = rng.choice(["scalar", "scalar", "pynum", "seq", "seq", "seq", "seqnum", "dict", "wild"])
    NONE = {"t": "none"}
    while True:
        x = []
        if theme == "scalar":
            k = rng.choice(SCALAR_KINDS)
            for _ in range(n):
                u = rng.random()
                x.append(NONE if u < 0.3 else gen_scalar(rng, ["str"]) if u < 0.33 else gen_scalar(rng, [k]))
        elif theme == "pynum":
            ks = rng.sample(["int", "float", "bool", "f64", "f32"], rng.choice([2, 3]))
            for _ in range(n):
                x.append(NONE if rng.random() < 0.3 else gen_scalar(rng, ks))
        elif theme in ("seq", "seqnum"):
            fam = rng.choice([(["i64", "u8", "i32"], ["int"]), (["f64", "f32"], ["float"]), (["i64", "f64"], ["int", "float"]),
                              (["b1"], ["bool"]), (["str"], ["str"]), (ND_KINDS, PY_KINDS)])
            shapes = SHAPES if rng.random() < 0.6 else [rng.choice(SHAPES)] + [rng.choice(SHAPES)]
            for _ in range(n):
                u = rng.random()
                if u < 0.2:
                    x.append(NONE)
                elif u < (0.4 if theme == "seqnum" else 0.26):
                    x.append(gen_scalar(rng, ["int", "float", "bool", "f64"] if rng.random() < 0.8 else SCALAR_KINDS))
                elif u < 0.45:
                    x.append(gen_rag(rng, fam[1]) if rng.random() < 0.3 else gen_seq(rng, fam[0], fam[1], [[0]]))
                else:
                    x.append(gen_seq(rng, fam[0], fam[1], shapes))
        elif theme == "dict":
            for _ in range(n):
                u = rng.random()
                x.append(NONE if u < 0.05 else gen_scalar(rng, ["float"]) if u < 0.08 else gen_dict(rng))
        else:
            for _ in range(n):
                u = rng.random()
                x.append(NONE if u < 0.2 else gen_scalar(rng, SCALAR_KINDS) if u < 0.5 else gen_dict(rng) if u < 0.6
                         else gen_rag(rng, PY_KINDS) if u < 0.65 else gen_seq(rng, ND_KINDS, PY_KINDS))
        if modelled(x):
            return x


def record_trace(tid, x):
    """run one collection on the real code and log Assign* ; Write ; Read with the projected post-states"""
    w = world()
    ev = [{"a": {"n": "Assign", "e": e}, "post": {"phase": "build"}} for e in x]
    res = w.roundtrip([concretize(e) for e in x])
    if res["w"] != "ok":
        ev.append({"a": {"n": "Write"}, "post": {"phase": "refused", "err": res["w"]}})
    else:
        ev.append({"a": {"n": "Write"}, "post": {"phase": "stored", "st": (res["stored"] or {}).get("st")}})
        if res["r"] == "ok":
            back = [abstract(g, e) for g, e in zip(res["back"], x)]
            if len(res["back"]) != len(x):
                back.append({"t": "LEN", "n": len(res["back"])})
            ev.append({"a": {"n": "Read"}, "post": {"phase": "read", "back": back}})
        else:
            ev.append({"a": {"n": "Read"}, "post": {"phase": "readerr", "err": res["r"] + ": " + res.get("rerr", "")}})
    return {"id": tid, "ev": ev}


def _trace_chunk(args):
    lo, hi, seed = args
    out = []
    for i in range(lo, hi):
        rng = random.Random(seed * 1000003 + i)
        out.append(record_trace("p%d" % i, gen_collection(rng)))
    return out


def param_traces(n, seed, nproc):
    if nproc <= 1 or n < 400:
        return _trace_chunk((0, n, seed))
    step = max(100, n // (nproc * 4))
    ctx = multiprocessing.get_context("fork")
    with ctx.Pool(nproc, initializer=_pool_init) as pool:
        parts = pool.map(_trace_chunk, [(lo, min(n, lo + step), seed) for lo in range(0, n, step)])
    return list(itertools.chain.from_iterable(parts))


def trace_verdicts(rep, label, module, cfg, traces, key_of, timeout=3000):
    bad, stats = tracecheck.validate(module, cfg, MODDIR, traces, timeout=timeout)
    rep.add_tlc(label + " trace-validation", stats["tlc"])
    mism = {}
    for p in stats["tlc"].prints:
        if isinstance(p, dict) and "mismatch" in p:
            mism.setdefault((p["mismatch"], p["at"]), p)
    for b in bad:
        if "invariant" in b:
            rep.violation("trace:%s:%s" % (label, b["invariant"]), "invariant %s fails on a state reached by a recorded history" % b["invariant"],
                          {"direction": "trace", "tlc": b["tlc"]})
            continue
        tr, k = b["trace"], b["matched"]
        ev = tr["ev"][k] if k < len(tr["ev"]) else {}
        m = mism.get((tr["id"], k + 1), {})
        key, what = key_of(tr, ev, m)
        rep.violation(key, what, {"direction": "trace", "trace": tr, "matched": k, "spec": m})
    return bad, stats


def _param_key(tr, ev, m):
    plan = m.get("plan", {})
    tag, out = plan.get("tag", "?"), plan.get("out", "?")
    post = ev.get("post", {})
    n = ev.get("a", {}).get("n")
    x = [e["a"]["e"] for e in tr["ev"] if e["a"]["n"] == "Assign"]
    desc = describe({"x": x})
    if n == "Write":
        kind = "refused" if post.get("phase") == "refused" else "accepted"
        return "%s:%s" % (kind, tag), "recorded history is not a behaviour of ParamCodec: write of %s was %s, spec outcome %s/%s" % (
            desc, post.get("phase"), out, tag)
    if n == "Read":
        kind = ("readerr" if post.get("phase") == "readerr" else "readback") if out != "reject" else "accepted"
        return "%s:%s" % (kind, tag), "recorded history is not a behaviour of ParamCodec: %s reads back %s; spec (%s/%s) expects %s" % (
            desc, json.dumps(post.get("back", post.get("err")))[:300], out, tag, json.dumps(m.get("expected"))[:300])
    return "trace:assign:%s" % tag, "Assign event rejected (collection outside assumption I5?) " + desc


# ------------------------------------------------------------------------------------------------------------
def _lap(rep, label, t0):
    rep.extra.setdefault("timing_s", {})[label] = round(time.time() - t0, 1)
    return time.time()


def run_param_codec(rep, thorough, seed):
    t0 = time.time()
    nproc = NPROC_THOROUGH if thorough else NPROC_QUICK
    tlc.sany("ParamCodec_mc", MODDIR)
    tlc.sany("ParamCodec_trace", MODDIR)
    cfg = "ParamCodec_mc_thorough.cfg" if thorough else "ParamCodec_mc.cfg"
    # -coverage costs 5x here; non-vacuity is established below from the exact state-count identity instead
    res = tlc.run("ParamCodec_mc", cfg, MODDIR, want_prints=False, coverage=False, workers=8, timeout=3000)
    if res.violation:
        rep.violation("tlc:ParamCodec:" + res.violation["name"],
                      "TLC: %s violated in ParamCodec" % res.violation["name"],
                      {"direction": "tlc", "trace": res.violation["trace"][:20000]})
    t0 = _lap(rep, "param exhaustive", t0)
    # spec -> code, every enumerated collection
    ecfg = "ParamCodec_emit_thorough.cfg" if thorough else "ParamCodec_emit.cfg"
    eres = tlc.run("ParamCodec_mc", ecfg, MODDIR, workers=1, coverage=False, timeout=3000)
    rep.add_tlc("ParamCodec cases:" + ecfg, eres)
    cases = [p for p in eres.prints if isinstance(p, dict) and "nf" in p]
    if len(cases) < 1000:
        raise tlc.MachineryError("ParamCodec emitted only %d cases" % len(cases))
    n_store = sum(1 for c in cases if c["out"] in ("store", "skip", "either"))
    n_refuse = sum(1 for c in cases if c["out"] in ("reject", "either"))
    n_either = sum(1 for c in cases if c["out"] == "either")
    res.coverage = {"Assign": (len(cases), len(cases)), "WriteStore": (n_store, n_store), "WriteRefuse": (n_refuse, n_refuse),
                    "Read": (n_store, n_store)}
    if not res.violation and res.distinct != 1 + len(cases) + 2 * n_store + n_refuse:
        raise tlc.MachineryError("exhaustive run explored %d states, expected 1 + %d collections + 2*%d stored/read + %d refused" % (
            res.distinct, len(cases), n_store, n_refuse))
    if min(n_store, n_refuse, n_either) == 0:
        raise tlc.MachineryError("vacuous: store=%d refuse=%d either=%d" % (n_store, n_refuse, n_either))
    rep.add_tlc("ParamCodec exhaustive:" + cfg, res)
    rep.note("ParamCodec action counts are derived from the exact identity distinct states = 1 + collections + 2*stored + refused "
             "(TLC -coverage is 5x slower on this model)")
    t0 = _lap(rep, "param emission", t0)
    if not thorough:
        # quick replays every collection of <= 2 entries, every 3-entry collection of scalars/None, and every second one of the
        # remaining 3-entry collections (all of them are model checked above; thorough replays all)
        keep, k = [], 0
        for c in cases:
            if len(c["x"]) == 3 and any(e["t"] not in ("sc", "none") for e in c["x"]):
                k += 1
                if k % 2:
                    continue
            keep.append(c)
        rep.note("quick: %d of %d enumerated collections replayed (every second 3-entry collection with a sequence/dict skipped)" % (
            len(keep), len(cases)))
        cases = keep
    results = replay_cases(cases, nproc)
    t0 = _lap(rep, "param replay", t0)
    _account(rep, "writeParams-h5-readParams", cases, results,
             "every collection TLC enumerates is concretised, written with Database._writeParams into an in-memory HDF5 "
             "file, read with Database._readParams into fresh objects and compared with TLC's outcome and NF; "
             "non-trivial = accepted at write time")

    # spec -> code, the attribute side channel.  HDF5 >= 1.10 stores attributes of track_order datasets densely, so the
    # "object header message is too large" fallback of _writeAttrs is not reachable from _writeParams any more; files
    # written with it must still load.  The adapter rewrites the array attributes of the stored dataset into exactly the
    # fallback's form (dataset <timenode>/attrs/<n>_<key> + attribute "@<path>") and lets _readParams resolve them;
    # collections are tiled (TilingLaw is checked in the spec) so the arrays are not tiny.
    big, seen = [], set()
    for c in cases:
        if c["out"] == "store" and len(c["x"]) == 3 and c["tag"] not in seen and c["st"] in ("jagged", "nones", "dict", "plain"):
            seen.add(c["tag"])
            big.append(c)
    jag = [c for c in cases if c["out"] in ("store", "either") and c["st"] in ("jagged", "dict")][:: 13 if thorough else 97]
    big += [c for c in jag if c not in big]
    tile = 40
    bres = []
    linked = 0
    w = world()
    for i, c in enumerate(big):
        w.links = True
        try:
            v, obs = run_case(c, tile)
        finally:
            w.links = False
        st = obs.get("stored") or {}
        linked += st.get("linked", 0)
        bres.append((i, v, obs if v else None, obs["w"] == "ok", st.get("st"), False))
    if linked < 10:
        raise tlc.MachineryError("vacuous: only %d attributes went through the side-dataset form" % linked)
    _account(rep, "tiled-x%d-side-datasets" % tile, big, bres,
             "collections tiled %d times; offsets/shapes/noneLocations/keys moved to <timenode>/attrs side datasets with '@path' "
             "attributes (the _writeAttrs fallback form) before Database._readParams; expected = TLC's NF tiled (TilingLaw)" % tile,
             tile=tile)
    rep.extra["side_dataset_attrs"] = linked

    # spec -> code, the rectangular "nones" form of equal-shaped arrays next to unset objects (2-D branch of
    # replaceNonsenseWithNones): written by calling layout.replaceNonesWithNonsense directly, read by _readParams
    leg = [c for c in cases if legacy2d_eligible(c)]
    lres = []
    for i, c in enumerate(leg):
        v, obs = run_case(c, legacy=True)
        if v:
            v = (v[0].split(":")[0] + ":legacy2d", v[1])
        lres.append((i, v, obs if v else None, obs["w"] == "ok", c["st"], False))
    if len(leg) < 10:
        raise tlc.MachineryError("vacuous: %d collections eligible for the rectangular nones form" % len(leg))
    _account(rep, "rectangular-nones-form", leg, lres,
             "unset objects next to equal-shaped same-dtype arrays: layout.replaceNonesWithNonsense (ndarray branch) -> 2-D dataset "
             "with specialFormatting/nones attributes -> Database._readParams; expected = TLC's NF")
    t0 = _lap(rep, "param side datasets", t0)
    # code -> spec
    ntr = 12000 if thorough else 1500
    traces = param_traces(ntr, seed, nproc)
    t0 = _lap(rep, "param trace recording", t0)
    bad, stats = trace_verdicts(rep, "ParamCodec", "ParamCodec_trace", "ParamCodec_trace.cfg", traces, _param_key)
    phases = {}
    for t in traces:
        ph = t["ev"][-1]["post"]["phase"]
        phases[ph] = phases.get(ph, 0) + 1
    rep.add_traces("random-collections", len(traces), sum(len(t["ev"]) for t in traces),
                   "seeded random collections of 1..8 entries (all widths, shapes up to 3x2, dicts over 3 keys) run on the real "
                   "write/read path; the recorded Assign*/Write/Read history with projected read-back must be a behaviour of ParamCodec")
    rep.extra["trace_final_phases"] = phases
    _lap(rep, "param trace validation", t0)
    rep.sample({"kind": "trace", "id": traces[0]["id"], "events": traces[0]["ev"]})
    return cases


def _account(rep, label, cases, results, rule, tile=1):
    by_tag = {}
    n_acc = 0
    st_mismatch = {}
    faithful = {}
    for (idx, v, obs, accepted, st_real, fb), case in zip(results, cases):
        n_acc += 1 if accepted else 0
        t = by_tag.setdefault(case["tag"], [0, 0])
        t[0] += 1
        if fb:
            faithful[case["tag"]] = faithful.get(case["tag"], 0) + 1
        if accepted and not v and case["out"] in ("store", "skip", "either") and st_real != case["st"]:
            st_mismatch.setdefault("%s: spec %s, file %s" % (case["tag"], case["st"], st_real), describe(case))
        if v:
            t[1] += 1
            rep.violation(v[0], "%s -- e.g. %s (spec: %s/%s)" % (v[1], describe(case), case["out"], case["tag"]),
                          {"direction": "replay", "adapter": label, "case": case, "tile": tile, "observed": obs,
                           "concrete": describe(case)})
    rep.add_replay(label, len(cases), n_acc, rule)
    rep.extra.setdefault("by_tag", {})[label] = {k: {"cases": v[0], "violating": v[1]} for k, v in sorted(by_tag.items())}
    if st_mismatch:
        rep.note("%s: on-disk strategy differs from the modelled one (diagnostic, not a verdict): %s" % (
            label, json.dumps(st_mismatch)[:1500]))
    if faithful:
        rep.note("%s: collections the specified writer refuses but armi stores and returns faithfully: %s" % (
            label, json.dumps(faithful)))


# ------------------------------------------------------------------------------------------------------------
# FlagCodec
# ------------------------------------------------------------------------------------------------------------
def flag_class(names, defn=None):
    """a dense Flag class whose sortedFields() is ``names`` (bit i for names[i]).  ``defn`` is the order in which the fields
    are defined (= list(fields())): in bit order they are auto(); any other order needs explicit bit values."""
    from armi.utils.flags import Flag, _FlagMeta, auto

    if defn is None or list(defn) == list(names):
        return _FlagMeta("C05Flags", (Flag,), {n: auto() for n in names})
    assert sorted(defn) == sorted(names)
    return _FlagMeta("C05Flags", (Flag,), {n: 1 << list(names).index(n) for n in defn})


def def_order(cls):
    return list(cls.fields())


def flag_of(cls, names):
    f = cls(0)
    for n in names:
        f = f | cls[n]
    return f


def scenario(w, r):
    if list(w) == list(r):
        return "same"
    if not set(w) <= set(r):
        return "missing"
    if list(r[:len(w)]) == list(w):
        return "extended"
    return "reordered"


def flags_roundtrip(W, sets, R, via_params=False):
    """pack with class W -> real HDF5 dataset + attributes -> unpack with class R.  -> (rows, back, class after)"""
    w = world()
    from armi.reactor import composites

    if via_params:
        # the parameter path: FlagSerializer.pack/unpack are reached through _writeParams/_readParams; they use the
        # application's flag class (composites.Flags), which is the thing that differs between writer and reader here
        comps = [w.Node("o%d" % i) for i in range(len(sets))]
        for c, s in zip(comps, sets):
            c.p.fl = flag_of(W, s)
        g = w.group()
        keep = composites.Flags
        try:
            composites.Flags = W
            w.db._writeParams(g, comps)
            rows = g[w.Node.__name__]["fl"][:].tolist()
            composites.Flags = R
            fresh = [w.Node("f%d" % i) for i in range(len(sets))]
            w.database.Database._readParams(g, w.Node.__name__, fresh)
            out = [c.p.fl for c in fresh]
        finally:
            composites.Flags = keep
            del w.file[g.name]
    else:
        ser = composites.FlagSerializer
        data, attrs = ser._packImpl([flag_of(W, s) for s in sets], W)
        g = w.group()
        ds = g.create_dataset("fl", data=data, compression="gzip")
        w.database.Database._writeAttrs(ds, g, attrs)
        rows = ds[:].tolist()
        resolved = w.database.Database._resolveAttrs(ds.attrs, g)
        out = ser._unpackImpl(ds[:], ser.version, resolved, R)
        del w.file[g.name]
    return rows, [sorted(f._flagsOn()) for f in out], list(R.sortedFields())


def run_flag_case(case, via_params=False):
    sc = scenario(case["w"], case["r"])
    try:
        W, R = flag_class(case["w"], case.get("wd")), flag_class(case["r"], case.get("rd"))
        assert list(W.sortedFields()) == list(case["w"]) and list(R.sortedFields()) == list(case["r"])
        rows, back, now = flags_roundtrip(W, case["sets"], R, via_params)
    except Exception as ex:  # noqa: BLE001
        return ("flags:error:" + sc, "flag round trip raises %s: %s" % (type(ex).__name__, str(ex)[:120])), {"error": repr(ex)}
    obs = {"rows": rows, "back": back, "now": now}
    if back != [sorted(s) for s in case["back"]]:
        return ("flags:meaning:" + sc, "flag sets change meaning (%s class): wrote %s under %s, read %s under %s" % (
            sc, case["sets"], case["w"], back, now)), obs
    if now[:len(case["r"])] != list(case["r"]) or set(now) != set(case["now"]):
        return ("flags:class:" + sc, "reading changed the reader's flag class other than by appending the missing names: "
                "%s -> %s (spec %s)" % (case["r"], now, case["now"])), obs
    obs["rows_as_modelled"] = rows == case["rows"]
    return None, obs


def run_flag_unset(case):
    """a flag column with an unset entry must be refused at write time"""
    w = world()
    from armi.reactor import composites

    W = flag_class(case["w"], case.get("wd"))
    comps = [w.Node("o%d" % i) for i in range(2)]
    comps[1].p.fl = flag_of(W, case["w"][:1])
    g = w.group()
    keep = composites.Flags
    try:
        composites.Flags = W
        w.db._writeParams(g, comps)
    except Exception:  # noqa: BLE001 -- any refusal at write time is what the spec asks for
        return None
    finally:
        composites.Flags = keep
        del w.file[g.name]
    return ("flags:unset-accepted", "a flag column with an unset entry was stored instead of refused (class %s)" % case["w"])


def gen_flag_trace(tid, rng):
    pool = list("ABCDEFGHIJKLMNPQRS")
    names = rng.sample(pool, rng.randint(1, 12))
    cls = flag_class(names, rng.sample(names, len(names)) if rng.random() < 0.5 else None)
    tr = {"id": tid, "cls0": list(cls.sortedFields()), "def0": def_order(cls), "ev": []}
    sets = [sorted(rng.sample(names, rng.randint(0, len(names)))) for _ in range(rng.randint(1, 4))]
    w = world()
    from armi.reactor import composites
    from armi.utils.flags import auto

    ser = composites.FlagSerializer
    data, attrs = ser._packImpl([flag_of(cls, s) for s in sets], cls)
    g = w.group()
    ds = g.create_dataset("fl", data=data, compression="gzip")
    w.database.Database._writeAttrs(ds, g, attrs)
    tr["ev"].append({"a": {"n": "Write", "sets": sets}, "post": {"cls": list(cls.sortedFields()), "def": def_order(cls),
                                                                  "phase": "stored", "rows": ds[:].tolist()}})
    for _ in range(rng.choice([0, 1, 1, 2, 3])):
        cur = list(cls.sortedFields())
        free = [n for n in pool if n not in cur]
        u = rng.random()
        if len(free) >= 2 and u < 0.2:
            x, y = rng.sample(free, 2)
            cls.extend({x: 2 << len(cur)})  # the second free bit, explicitly
            cls.extend({y: auto()})          # defined later, receives the first free bit
            tr["ev"].append({"a": {"n": "ExtendPair", "x": x, "y": y},
                             "post": {"cls": list(cls.sortedFields()), "def": def_order(cls), "phase": "stored"}})
        elif free and u < 0.55:
            f = rng.choice(free)
            cls.extend({f: auto()})
            tr["ev"].append({"a": {"n": "Extend", "f": f}, "post": {"cls": list(cls.sortedFields()), "def": def_order(cls),
                                                                   "phase": "stored"}})
        else:
            o = rng.sample(pool, rng.randint(1, 12)) if rng.random() < 0.4 else rng.sample(cur, len(cur))
            if rng.random() < 0.3 and len(o) > 1:
                o = o[:-1]
            if o == cur:
                continue
            cls = flag_class(o, rng.sample(o, len(o)) if rng.random() < 0.5 else None)
            tr["ev"].append({"a": {"n": "Redefine", "o": o, "d": def_order(cls)},
                             "post": {"cls": list(cls.sortedFields()), "def": def_order(cls), "phase": "stored"}})
    try:
        out = ser._unpackImpl(ds[:], ser.version, w.database.Database._resolveAttrs(ds.attrs, g), cls)
        tr["ev"].append({"a": {"n": "Read"}, "post": {"cls": list(cls.sortedFields()), "def": def_order(cls), "phase": "read",
                                                      "back": [sorted(f._flagsOn()) for f in out]}})
    except Exception as ex:  # noqa: BLE001
        tr["ev"].append({"a": {"n": "Read"}, "post": {"cls": list(cls.sortedFields()), "def": def_order(cls), "phase": "error", "back": [], "err": repr(ex)[:200]}})
    del w.file[g.name]
    return tr


def _flag_key(tr, ev, m):
    n = ev.get("a", {}).get("n", "?")
    w = tr["ev"][0]["post"]["cls"]
    before = tr["ev"][-2]["post"]["cls"] if len(tr["ev"]) >= 2 else w
    sc = scenario(w, before)
    return "flags:meaning:" + sc if n == "Read" else "flags:trace:" + n, \
        "recorded flag history is not a behaviour of FlagCodec at %s: wrote %s under %s, reader class %s, result %s" % (
            n, tr["ev"][0]["a"]["sets"], w, before, json.dumps(ev.get("post"))[:300])


def run_flag_codec(rep, thorough, seed):
    tlc.sany("FlagCodec_mc", MODDIR)
    tlc.sany("FlagCodec_trace", MODDIR)
    all_cases, unset_cases = [], []
    # the emission configs carry every invariant and an always-true ACTION_CONSTRAINT: they are the exhaustive runs
    for ecfg in (("FlagCodec_emit.cfg", "FlagCodec_emit_thorough.cfg", "FlagCodec_wide_emit_thorough.cfg") if thorough else
                 ("FlagCodec_emit.cfg", "FlagCodec_wide_emit.cfg")):
        eres = tlc.run("FlagCodec_mc", ecfg, MODDIR, workers=1, coverage=False, timeout=3000)
        if eres.violation:
            rep.violation("tlc:FlagCodec:" + eres.violation["name"], "TLC: %s violated in FlagCodec (%s)" % (eres.violation["name"], ecfg),
                          {"direction": "tlc", "trace": eres.violation["trace"][:20000]})
        edges = [p for p in eres.prints if isinstance(p, dict) and "back" in p]
        kinds = {}
        for c in edges:
            k = scenario(c["w"], c["r"])
            kinds[k] = kinds.get(k, 0) + 1
        if any(kinds.get(k, 0) == 0 for k in ("same", "extended", "reordered", "missing")):
            raise tlc.MachineryError("vacuous: FlagCodec read edges by scenario %s (%s)" % (kinds, ecfg))
        eres.coverage = {"ReadBack": (len(edges), len(edges))}
        eres.coverage.update({"read:" + k: (v, v) for k, v in kinds.items()})
        rep.add_tlc("FlagCodec exhaustive + read edges:" + ecfg, eres)
        all_cases += edges
        unset_cases += [p for p in eres.prints if isinstance(p, dict) and p.get("unset")]
    # unset entries in a flag column: the spec's RefuseUnset edges, one per writer class
    for c in unset_cases:
        v = run_flag_unset(c)
        if v:
            rep.violation(v[0], v[1], {"direction": "replay", "adapter": "flags-params", "flagunset": c})
    if not unset_cases:
        raise tlc.MachineryError("vacuous: no RefuseUnset edge emitted")
    rep.add_replay("flag-unset-refusals", len(unset_cases), len(unset_cases),
                   "RefuseUnset edges: a flag column [None, <flags>] must make Database._writeParams raise")
    # the extension order of missing names is the code's own choice: one real run per (writer, sets, reader)
    uniq = {}
    for c in all_cases:
        uniq.setdefault(json.dumps([c["w"], c.get("wd"), c["sets"], c["r"], c.get("rd")]), c)
    cases = list(uniq.values())
    if len(cases) < 500:
        raise tlc.MachineryError("FlagCodec emitted only %d distinct cases" % len(cases))
    world()
    n_nontrivial = rows_ok = 0
    for i, c in enumerate(cases):
        for via in ((False, True) if i % (3 if thorough else 8) == 0 else (False,)):
            v, obs = run_flag_case(c, via_params=via)
            if v:
                rep.violation(v[0], v[1], {"direction": "replay", "adapter": "flags-params" if via else "flags-impl", "flagcase": c,
                                           "observed": obs, "via_params": via})
            rows_ok += 1 if obs.get("rows_as_modelled") else 0
        n_nontrivial += 1 if scenario(c["w"], c["r"]) != "same" else 0
    rep.add_replay("flag-read-edges", len(cases), n_nontrivial,
                   "every Read edge of FlagCodec's state graph (writer class, written sets, reader class) is run with generated Flag "
                   "classes through FlagSerializer._packImpl -> HDF5 dataset + _writeAttrs/_resolveAttrs -> _unpackImpl (every third "
                   "also through _writeParams/_readParams with the class swapped in); non-trivial = reader class differs from writer")
    rep.extra["flag_rows_byte_identical_to_model"] = rows_ok
    rep.sample({"kind": "flagcase", "case": cases[len(cases) // 2]})
    ntr = 3000 if thorough else 400
    traces = [gen_flag_trace("f%d" % i, random.Random(seed * 7919 + i)) for i in range(ntr)]
    trace_verdicts(rep, "FlagCodec", "FlagCodec_trace", "FlagCodec_trace.cfg", traces, _flag_key)
    rep.add_traces("random-flag-histories", len(traces), sum(len(t["ev"]) for t in traces),
                   "seeded histories write ; (extend | redefine)* ; read on generated Flag classes of up to 15 fields; each event's "
                   "post-state (class order, phase, names read back) must be a step of FlagCodec")


def run(rep, tier, seed):
    thorough = tier == "thorough"
    cases = run_param_codec(rep, thorough, seed)
    t0 = time.time()
    run_flag_codec(rep, thorough, seed)
    t0 = _lap(rep, "flags", t0)
    if thorough:
        run_whole_reactor(rep, cases, seed)
        _lap(rep, "whole reactor", t0)
    rep.exhaustive = True
    for c in (cases[len(cases) // 3], cases[(2 * len(cases)) // 3]):
        rep.sample({"kind": "case", "collection": describe(c), "spec": {k: c[k] for k in ("out", "tag", "st", "nf")}})
    rep.assume(
        "I1 numeric kind is per collection: bool < int < float promotion as numpy's array constructor does; values equal after it",
        "I2 documented normalisations: sequences stay sequences (list/ndarray not distinguished); among ragged entries empty -> "
        "unset, scalar number -> 1-element array, ragged entry -> flattened 1-D; unset reads back None; a NaN scalar reads back "
        "None iff the collection has unset entries; a NaN dictionary value is an absent key",
        "I3 a collection never contains the None marker of its own dtype (layout.py:64); it does contain the other family's",
        "I4 widths are not observable after tolist(); exact dtypes compared for ragged results with one contributing dtype",
        "I5 numpy-integer scalars share a collection only with their own kind, None, strings, sequences, dictionaries",
        "text that is not ASCII must be refused at write time (datasets hold byte strings); memory layout of an array is a "
        "don't-care (LayoutLaw); dictionaries map str to numbers; flag classes are dense (all fields auto(), as armi.reactor.flags.Flags)",
    )


# ------------------------------------------------------------------------------------------------------------
# thorough: Database.writeToDB / load of a whole reactor, the collection carried by the three Circle components
# ------------------------------------------------------------------------------------------------------------
def run_whole_reactor(rep, cases, seed, n=260):
    world()
    from armi.bookkeeping.db.database import Database
    from armi.reactor.components import Circle
    from armi.reactor.tests.test_reactors import loadTestReactor

    wd = common.workdir("c05-whole")
    cwd = os.getcwd()
    rng = random.Random(seed + 5)
    three = [c for c in cases if len(c["x"]) == 3 and c["out"] != "skip"]
    by_tag = {}
    for c in three:
        by_tag.setdefault(c["tag"], []).append(c)
    pick = []
    for tag in sorted(by_tag):
        pick += rng.sample(by_tag[tag], min(len(by_tag[tag]), max(4, n // len(by_tag))))
    import contextlib
    import io

    quiet = io.StringIO()  # armi prints section headers of every reactor construction to stdout
    # strings whose white space is part of the value always go through Database.load as well
    blanks = [c for c in by_tag.get("plain:str", []) if any(
        (e.get("v") in ("t", "sp", "nl", "tab", "ld", "e")) or any(v in ("t", "sp", "tab", "e") for v in e.get("vs", [])) for e in c["x"])]
    pick += [c for c in blanks[:: max(1, len(blanks) // 16)] if c not in pick]
    with contextlib.redirect_stdout(quiet):
        o, r = loadTestReactor(inputFileName="smallestTestReactor/armiRunSmallest.yaml")
    circles = [c for c in r.core.iterChildren(deep=True) if isinstance(c, Circle)]
    if len(circles) != 3:
        raise tlc.MachineryError("smallest test reactor no longer has three Circle components")
    param = "puFrac"  # plain bookkeeping parameter of components, no DIMENSION_NAMES handling, not recomputed on load
    results = []
    os.chdir(wd)
    try:
        for i, case in enumerate(pick):
            for c, e in zip(circles, case["x"]):
                c.p[param] = concretize(e)
            fn = "whole-%d.h5" % i
            obs = {"w": "ok", "r": ""}
            try:
                db = Database(fn, "w")
                with db:
                    db.writeInputsToDB(o.cs)
                    db.writeToDB(r)
            except Exception as ex:  # noqa: BLE001
                obs["w"] = "err:" + type(ex).__name__
            if obs["w"] == "ok":
                try:
                    with Database(fn, "r") as db2, contextlib.redirect_stdout(quiet):
                        r2 = db2.load(0, 0, cs=o.cs, bp=r.blueprints, allowMissing=True)
                    got = {c.name: c.p[param] for c in r2.core.iterChildren(deep=True) if isinstance(c, Circle)}
                    obs["r"] = "ok"
                    obs["back"] = relax(case["nf"], [abstract(got[c.name], e) for c, e in zip(circles, case["x"])])
                except Exception as ex:  # noqa: BLE001
                    obs["r"] = "err:" + type(ex).__name__
            for f in (fn,):
                if os.path.exists(f):
                    os.remove(f)
            out, tag = case["out"], case["tag"]
            acc = obs["w"] == "ok"
            v = None
            if out == "store" and not acc:
                v = ("refused:" + tag, "whole-reactor writeToDB refused a collection the specified writer stores (%s)" % obs["w"])
            elif acc and obs["r"] != "ok":
                v = (("readerr:" if out != "reject" else "accepted:") + tag, "writeToDB accepted, Database.load raises %s" % obs["r"])
            elif acc and obs["back"] != case["nf"]:
                v = (("readback:" if out != "reject" else "accepted:") + tag, "writeToDB accepted, Database.load returns different values")
            results.append((i, v, obs if v else None, acc, None, False))
    finally:
        os.chdir(cwd)
        for c in circles:
            c.p[param] = 0.0
    by = {}
    nacc = 0
    for (i, v, obs, acc, _, _), case in zip(results, pick):
        nacc += 1 if acc else 0
        if v:
            rep.violation(v[0], "%s -- e.g. %s (spec: %s/%s)" % (v[1], describe(case), case["out"], case["tag"]),
                          {"direction": "replay", "adapter": "whole-reactor", "case": case, "observed": obs})
        by[case["tag"]] = by.get(case["tag"], 0) + 1
    rep.add_replay("writeToDB-load-whole-reactor", len(pick), nacc,
                   "a per-tag sample of the 3-entry collections is carried by Circle.p.puFrac of the smallest test reactor's three "
                   "components through Database.writeToDB / Database.load (skip outcomes excluded: an unwritten parameter loads as "
                   "its declared default)")
    rep.extra["whole_reactor_by_tag"] = by


def replay(payload):
    if payload.get("direction") == "replay" and "case" in payload:
        v, obs = run_case(payload["case"], payload.get("tile", 1), legacy=payload.get("adapter") == "rectangular-nones-form")
        print(json.dumps({"collection": describe(payload["case"]), "spec": {k: payload["case"][k] for k in ("out", "tag", "nf")},
                          "observed": obs, "verdict": v}, indent=1, default=str))
        return 1 if v else 0
    if payload.get("direction") == "replay" and "flagcase" in payload:
        v, obs = run_flag_case(payload["flagcase"], payload.get("via_params", False))
        print(json.dumps({"case": payload["flagcase"], "observed": obs, "verdict": v}, indent=1, default=str))
        return 1 if v else 0
    if payload.get("direction") == "trace" and payload.get("trace", {}).get("id", "").startswith("p"):
        x = [e["a"]["e"] for e in payload["trace"]["ev"] if e["a"]["n"] == "Assign"]
        tr = record_trace(payload["trace"]["id"], x)
        same = tr["ev"] == payload["trace"]["ev"]
        print(json.dumps({"collection": describe({"x": x}), "recorded_again": tr["ev"][len(x):], "reproduced": same,
                          "spec": payload.get("spec")}, indent=1, default=str))
        return 1
    print("replay of direction=%s: see payload (TLC trace / recorded trace)" % payload.get("direction"))
    return 0


# ------------------------------------------------------------------------------------------------------------
# binding demonstration: one-line edits of the anchored armi functions, applied in-process to the real source text
# ------------------------------------------------------------------------------------------------------------
class Mutant:
    def __init__(self, name, where, edits=None, data=None, needs="param"):
        self.name, self.where, self.edits, self.data, self.needs = name, where, edits or [], data, needs
        self._undo = []

    def _resolve(self):
        import importlib

        modname, _, path = self.where.partition(":")
        mod = importlib.import_module(modname)
        owner = mod
        parts = path.split(".")
        for p in parts[:-1]:
            owner = getattr(owner, p)
        return mod, owner, parts[-1]

    def __enter__(self):
        import inspect
        import textwrap

        if self.data:
            self._undo = self.data()
            return self
        mod, owner, name = self._resolve()
        raw = inspect.getattr_static(owner, name)
        fn = raw.__func__ if isinstance(raw, (staticmethod, classmethod)) else raw
        src = textwrap.dedent(inspect.getsource(fn))
        for old, new in self.edits:
            if old not in src:
                raise LookupError("mutant %s: text %r not found in %s" % (self.name, old, self.where))
            src = src.replace(old, new, 1)
        lines = src.splitlines()
        while lines and lines[0].lstrip().startswith("@"):
            lines.pop(0)
        ns = {}
        exec(compile("\n".join(lines), "<mutant %s>" % self.name, "exec"), mod.__dict__, ns)  # noqa: S102
        new = ns[fn.__name__]
        if isinstance(raw, staticmethod):
            new = staticmethod(new)
        elif isinstance(raw, classmethod):
            new = classmethod(new)
        setattr(owner, name, new)
        self._undo = [(owner, name, raw)]
        if owner is mod:  # "from x import f" copies: every armi module holding the same function object gets the mutant
            import sys

            for m in list(sys.modules.values()):
                if m is not mod and getattr(m, "__name__", "").startswith("armi") and m.__dict__.get(name) is raw:
                    setattr(m, name, new)
                    self._undo.append((m, name, raw))
        return self

    def __exit__(self, *a):
        for owner, name, raw in self._undo:
            if owner is None:
                name(raw)
            else:
                setattr(owner, name, raw)
        return False


def _mut_nonemap():
    import numpy as np
    from armi.bookkeeping.db import layout

    old = layout.NONE_MAP[np.int16]
    layout.NONE_MAP[np.int16] = int(np.iinfo(np.int16).min) + 1
    return [(None, lambda v: layout.NONE_MAP.__setitem__(np.int16, v), old)]


def _mut_nonemap_inf():
    import numpy as np
    from armi.bookkeeping.db import layout

    old = {k: layout.NONE_MAP[k] for k in (float, np.float64)}
    for k in old:
        layout.NONE_MAP[k] = k("inf")
    return [(None, lambda v: layout.NONE_MAP.update(v), old)]


DBM = "armi.bookkeeping.db.database"
MUTANTS = [
    Mutant("float None marker tested with == instead of isnan", "armi.bookkeeping.db.layout:replaceNonsenseWithNones",
           [("isNone = np.isnan(data)", "isNone = data == NONE_MAP[float]")]),
    Mutant("real marker mask is ~isfinite instead of isnan (infinities read back unset)", "armi.bookkeeping.db.layout:replaceNonsenseWithNones",
           [("isNone = np.isnan(data)", "isNone = ~np.isfinite(data)")]),
    Mutant("same ~isfinite mask, array element next to an unset object (rectangular nones form)",
           "armi.bookkeeping.db.layout:replaceNonsenseWithNones", [("isNone = np.isnan(data)", "isNone = ~np.isfinite(data)")], needs="legacy"),
    Mutant("rectangular nones form: rows without markers all take the first row", "armi.bookkeeping.db.layout:replaceNonsenseWithNones",
           [("                result[i] = data[i]", "                result[i] = data[0]")], needs="legacy"),
    Mutant("rectangular nones form: filler rows use the marker of the wrong family", "armi.bookkeeping.db.layout:replaceNonesWithNonsense",
           [("np.repeat(NONE_MAP[realType], val.size)", "np.repeat(NONE_MAP[float if realType is np.uint8 else realType], val.size)")],
           needs="legacy"),
    Mutant("real marker mask also takes the largest finite real", "armi.bookkeeping.db.layout:replaceNonsenseWithNones",
           [("isNone = np.isnan(data)", "isNone = ~(np.abs(data) < np.finfo(data.dtype).max)")]),
    Mutant("real marker mask also takes zeros (data == 0 | isnan)", "armi.bookkeeping.db.layout:replaceNonsenseWithNones",
           [("isNone = np.isnan(data)", "isNone = np.isnan(data) | (data == 0)")]),
    Mutant("signed marker tested with <= (values below the marker read back unset)", "armi.bookkeeping.db.layout:replaceNonsenseWithNones",
           [("isNone = data == np.iinfo(data.dtype).min + 2", "isNone = data <= np.iinfo(data.dtype).min + 2")]),
    Mutant("signed marker tested with a 3-wide window (min+3 reads back unset)", "armi.bookkeeping.db.layout:replaceNonsenseWithNones",
           [("isNone = data == np.iinfo(data.dtype).min + 2", "isNone = np.abs(data - (np.iinfo(data.dtype).min + 2)) <= 1")]),
    Mutant("unsigned marker tested with >= (max-1, max read back unset)", "armi.bookkeeping.db.layout:replaceNonsenseWithNones",
           [("isNone = data == np.iinfo(data.dtype).max - 2", "isNone = data >= np.iinfo(data.dtype).max - 2")]),
    Mutant("signed marker test also takes -1", "armi.bookkeeping.db.layout:replaceNonsenseWithNones",
           [("isNone = data == np.iinfo(data.dtype).min + 2", "isNone = (data == np.iinfo(data.dtype).min + 2) | (data == -1)")]),
    Mutant("signed marker test also takes 0", "armi.bookkeeping.db.layout:replaceNonsenseWithNones",
           [("isNone = data == np.iinfo(data.dtype).min + 2", "isNone = (data == np.iinfo(data.dtype).min + 2) | (data == 0)")]),
    Mutant("unsigned marker test also takes 0", "armi.bookkeeping.db.layout:replaceNonsenseWithNones",
           [("isNone = data == np.iinfo(data.dtype).max - 2", "isNone = (data == np.iinfo(data.dtype).max - 2) | (data == 0)")]),
    Mutant("real marker written as +inf (NONE_MAP), read side untouched", "", data=_mut_nonemap_inf),
    Mutant("NONE_MAP marker of int16 off by one (write side only)", "", data=_mut_nonemap),
    Mutant("packSpecialData forgets attrs['nones']", DBM + ":packSpecialData", [('attrs["nones"] = True', "pass")]),
    Mutant("dict keys attribute not in column order", DBM + ":packSpecialData",
           [('attrs["keys"] = np.array(keys).astype("S")', 'attrs["keys"] = np.array(keys[::-1]).astype("S")')]),
    Mutant("_getArrayShape reports ndim instead of shape (jagged test)", DBM + ":Database._getArrayShape",
           [("return arr.shape", "return (arr.ndim,)")]),
    Mutant("JaggedArray flattens in memory order (ravel K) while the reader rebuilds in C order",
           "armi.bookkeeping.db.jaggedArray:JaggedArray.__init__",
           [("flattenedArray.extend(numpyArray.flatten())", 'flattenedArray.extend(numpyArray.ravel(order="K"))')]),
    Mutant("JaggedArray flattens with order='A' (Fortran arrays stored column major)", "armi.bookkeeping.db.jaggedArray:JaggedArray.__init__",
           [("flattenedArray.extend(numpyArray.flatten())", 'flattenedArray.extend(numpyArray.flatten(order="A"))')]),
    Mutant("_readParams right-strips decoded strings", DBM + ":Database._readParams",
           [("data = np.char.decode(data)", "data = np.char.rstrip(np.char.decode(data))")]),
    Mutant("_writeParams strips strings before converting to bytes", DBM + ":Database._writeParams",
           [('data = data.astype("S")', 'data = np.char.strip(data).astype("S")')]),
    Mutant("unicode -> bytes with errors='replace' (non-ASCII text stored as '?')", DBM + ":Database._writeParams",
           [('data = data.astype("S")', 'data = np.char.encode(data, "ascii", "replace")')]),
    Mutant("dict keys -> bytes with errors='replace'", DBM + ":packSpecialData",
           [('attrs["keys"] = np.array(keys).astype("S")', 'attrs["keys"] = np.char.encode(np.array(keys), "ascii", "replace")')]),
    Mutant("JaggedArray offsets advance by len() instead of size", "armi.bookkeeping.db.jaggedArray:JaggedArray.__init__",
           [("offset += numpyArray.size", "offset += len(numpyArray)")]),
    Mutant("JaggedArray.unpack tests the non-None counter against noneLocations", "armi.bookkeeping.db.jaggedArray:JaggedArray.unpack",
           [("if i in self.nones:", "if j in self.nones:")]),
    Mutant("JaggedArray stores empty entries as zero-length shapes (not as unset)", "armi.bookkeeping.db.jaggedArray:JaggedArray.__init__",
           [("if len(arr) == 0:", "if False:")]),
    Mutant("_readParams does not decode byte strings", DBM + ":Database._readParams",
           [("data = np.char.decode(data)", "pass")]),
    Mutant("_writeParams does not convert unicode to bytes", DBM + ":Database._writeParams",
           [('data = data.astype("S")', "pass")]),
    Mutant("all-None shortcut taken when at least one None", DBM + ":packSpecialData",
           [("if len(nones) == data.shape[0]:", "if len(nones) > 0 and not isinstance(arrayData, JaggedArray):")]),
    Mutant("dict decode keeps the NaN-filled keys", DBM + ":unpackSpecialData",
           [("{key: value for key, value in zip(keys, d) if not np.isnan(value)}", "{key: value for key, value in zip(keys, d)}")]),
    Mutant("signed None marker tested as min+1", "armi.bookkeeping.db.layout:replaceNonsenseWithNones",
           [("isNone = data == np.iinfo(data.dtype).min + 2", "isNone = data == np.iinfo(data.dtype).min + 1")]),
    Mutant("None marker chosen from the last value instead of the first", "armi.bookkeeping.db.layout:replaceNonesWithNonsense",
           [("for val in data:", "for val in data[::-1]:")]),
    Mutant("_resolveAttrs does not follow '@' links", DBM + ":Database._resolveAttrs",
           [("resolved[key] = group[m.group(1)][()]", "resolved[key] = val")], needs="links"),
    Mutant("flag remap built in the wrong direction", "armi.reactor.composites:FlagSerializer._unpackImpl",
           [("i: flagOrderNow.index(oldFlag)", "flagOrderNow.index(oldFlag): i")], needs="flags"),
    Mutant("flag fast path compares sets, not order", "armi.reactor.composites:FlagSerializer._unpackImpl",
           [("if all(i == j for i, j in zip(flagOrderPassed, flagOrderNow)):", "if set(flagOrderPassed) == set(flagOrderNow):")],
           needs="flags"),
    Mutant("Flag.to_bytes big endian, from_bytes little", "armi.utils.flags:Flag.to_bytes",
           [('def to_bytes(self, byteorder="little"):', 'def to_bytes(self, byteorder="big"):')], needs="flags"),
    Mutant("flag_order attribute in definition order (fields()) instead of bit order", "armi.reactor.composites:FlagSerializer._packImpl",
           [('{"flag_order": flagCls.sortedFields()}', '{"flag_order": list(flagCls.fields())}')], needs="flags"),
    Mutant("reader class order taken from fields() instead of sortedFields()", "armi.reactor.composites:FlagSerializer._unpackImpl",
           [("flagOrderNow = flagCls.sortedFields()\n\n    if all(", "flagOrderNow = list(flagCls.fields())\n\n    if all(")], needs="flags"),
    Mutant("flag_order attribute alphabetical instead of bit order", "armi.reactor.composites:FlagSerializer._packImpl",
           [('{"flag_order": flagCls.sortedFields()}', '{"flag_order": sorted(flagCls.fields())}')], needs="flags"),
    Mutant("missing flags are not added to the reader's class", "armi.reactor.composites:FlagSerializer._unpackImpl",
           [("flagCls.extend({k: auto() for k in missingFlags})", "pass")], needs="flags"),
]


class _Keys:
    """a Report stand-in that only collects violation keys"""

    def __init__(self):
        self.keys = {}

    def violation(self, key, what, payload=None):
        self.keys.setdefault(key, what)


def _probe(param_cases, link_cases, flag_cases, needs):
    out = _Keys()
    if needs == "param":
        for (idx, v, obs, acc, st, fb) in replay_cases(param_cases, NPROC_QUICK):
            if v:
                out.violation(v[0], v[1])
    elif needs == "legacy":
        for c in param_cases:
            if legacy2d_eligible(c):
                v, _ = run_case(c, legacy=True)
                if v:
                    out.violation(v[0].split(":")[0] + ":legacy2d", v[1])
    elif needs == "links":
        w = world()
        w.links = True
        try:
            for c in link_cases:
                v, _ = run_case(c, 5)
                if v:
                    out.violation(v[0], v[1])
        finally:
            w.links = False
    else:
        for c in flag_cases:
            for via in (False, True):
                try:
                    v, _ = run_flag_case(c, via_params=via)
                except Exception as ex:  # noqa: BLE001
                    v = ("flags:error:harness", repr(ex))
                if v:
                    out.violation(v[0], v[1])
    return out.keys


def selftest():
    tlc.sany("ParamCodec_mc", MODDIR)
    eres = tlc.run("ParamCodec_mc", "ParamCodec_emit.cfg", MODDIR, workers=1, coverage=False, timeout=3000)
    cases = [p for p in eres.prints if isinstance(p, dict) and "nf" in p]
    pc = [c for i, c in enumerate(cases) if len(c["x"]) <= 2 or i % 4 == 0]
    lc = [c for c in cases if c["out"] == "store" and c["st"] in ("jagged", "dict")][::23]
    fcases = []
    for ecfg in ("FlagCodec_emit.cfg", "FlagCodec_wide_emit.cfg"):
        fr = tlc.run("FlagCodec_mc", ecfg, MODDIR, workers=1, coverage=False, timeout=3000)
        fcases += [p for p in fr.prints if isinstance(p, dict) and "back" in p]
    uniq = {}
    for c in fcases:
        uniq.setdefault(json.dumps([c["w"], c.get("wd"), c["sets"], c["r"], c.get("rd")]), c)
    fc = list(uniq.values())[::5]
    world()
    base = {n: set(_probe(pc, lc, fc, n)) for n in ("param", "legacy", "links", "flags")}
    print("baseline keys on this tree: %s" % {k: sorted(v) for k, v in base.items()})
    missed = 0
    for m in MUTANTS:
        try:
            with m:
                keys = _probe(pc, lc, fc, m.needs)
        except LookupError as ex:
            print("n/a     %-70s %s" % (m.name, ex))
            continue
        new = sorted(set(keys) - base[m.needs])
        if new:
            print("caught  %-70s %s" % (m.name, ", ".join(new[:4]) + (" ..." if len(new) > 4 else "")))
        else:
            missed += 1
            print("MISSED  %-70s" % m.name)
    # trace validators must reject corrupted recordings
    tr = [record_trace("p%d" % i, gen_collection(random.Random(i))) for i in range(60)]
    good = [t for t in tr if t["ev"][-1]["post"]["phase"] == "read" and any(b.get("t") == "sc" for b in t["ev"][-1]["post"]["back"])]
    bad_before, _ = tracecheck.validate("ParamCodec_trace", "ParamCodec_trace.cfg", MODDIR, good)
    ok_ids = {t["id"] for t in good} - {b["trace"]["id"] for b in bad_before}
    corrupt = []
    for t in good:
        if t["id"] in ok_ids:
            t2 = json.loads(json.dumps(t))
            for b in t2["ev"][-1]["post"]["back"]:
                if b.get("t") == "sc":
                    b["v"] = "?corrupted"
                    break
            corrupt.append(t2)
    rej, _ = tracecheck.validate("ParamCodec_trace", "ParamCodec_trace.cfg", MODDIR, corrupt)
    if len(rej) == len(corrupt) and corrupt:
        print("caught  %-70s %d/%d" % ("trace validator: corrupted read-back value", len(rej), len(corrupt)))
    else:
        missed += 1
        print("MISSED  trace validator accepted %d of %d corrupted recordings" % (len(corrupt) - len(rej), len(corrupt)))
    return 0 if missed == 0 else 1
