"""C20 -- XS groups partition the blocks; representative blocks are true averages.

Three specifications (spec/xs):
  XsGroupsLabels   label <-> number codec (every admissible label is one state/case)
  XsGroupsRep      one block collection and createRepresentativeBlock (XsGroupsAvg holds the exact-rational averages);
                   every (collection, option) edge TLC explores is one case executed on real blocks
  XsGroups         the CrossSectionGroupManager as a state machine (environment groups, grouping, representatives,
                   re-labelling of unrepresented groups); every explored edge is replayed on a real core, and seeded
                   random histories of the real manager are validated by TLC (XsGroups_trace)
Expected values always come from TLC (printed JSON); this file only builds, applies, projects and compares.
"""
import contextlib
import json
import math
import os
import random

from harness import common, tlc, tracecheck
from harness import replay as rp
from harness.armi_env import armi_ready

MODDIR = os.path.join(common.SPEC, "xs")

NUC = ["U235", "U238", "FE56", "NA23"]  # nuclides 1..4 of the specifications (allNuclidesInProblem)
COMP_AREA = [2.0, 3.0]  # McCompArea
HOLDS = [[0, 1], [1, 2]]  # McHolds (0-based nuclide indices)
AW = [2.0, 3.0, 5.0, 7.0]  # McAW: set on the real nuclides while by-component temperatures (mass weighted) are compared
RTOL = 1e-9  # a handful of double operations per average
ATOL = 1e-12  # averages that are exactly 0 in the model come out as sums of products with 0.0

_TLC_CACHE = {}


def run_tlc(module, cfg, **kw):
    """TLC's output does not depend on armi: cache it per cfg inside one process (selftest runs many mutants)."""
    key = (module, cfg, tuple(sorted(kw.items())))
    if key not in _TLC_CACHE:
        _TLC_CACHE[key] = tlc.run(module, cfg, MODDIR, timeout=3000, **kw)
    return _TLC_CACHE[key]


def fr(x):
    """a rational printed by TLC as [num, den]"""
    return x[0] / x[1]


def close(exp, got):
    try:
        got = float(got)
    except Exception:
        return False
    return abs(exp - got) <= RTOL * max(abs(exp), abs(got)) + ATOL


@contextlib.contextmanager
def model_weights(on=True):
    """Atomic weights of the four nuclides set to the model's integers (data, not code); restored afterwards."""
    armi_ready()
    from armi.nucDirectory import nuclideBases

    old = {}
    try:
        if on:
            for name, w in zip(NUC, AW):
                nb = nuclideBases.byName[name]
                old[name] = nb.weight
                nb.weight = w
        yield
    finally:
        for name, w in old.items():
            nuclideBases.byName[name].weight = w


# ------------------------------------------------------------------------------------------------------------
# 1. labels
# ------------------------------------------------------------------------------------------------------------
def label_class(label):
    """stable identifier of the input class of a label: U / l / UU / Ul / lU / ll"""
    return "".join("U" if ch.isupper() else "l" for ch in label)


def check_labels(rep, tier):
    armi_ready()
    from armi.physics.neutronics import crossSectionGroupManager as xsgm
    from armi.reactor import blocks

    # the domain is 2756 initial states without transitions: one TLC run checks the laws on every label and prints
    # the cases (thorough repeats it with 16 workers and coverage as a separate exhaustive run)
    if tier == "thorough" and not _SELFTEST:
        res = run_tlc("XsGroupsLabels_mc", "XsGroupsLabels_mc.cfg", want_prints=False)
        rep.add_tlc("exhaustive:XsGroupsLabels_mc.cfg", res, {"Letters": "1..52 (52 + 2704 labels)"})
        if res.violation:
            rep.violation("tlc:labels:" + res.violation["name"], "TLC: %s violated in XsGroupsLabels" % res.violation["name"],
                          {"direction": "tlc", "trace": res.violation["trace"][:20000]})
    eres = run_tlc("XsGroupsLabels_mc", "XsGroupsLabels_emit.cfg", workers=1, coverage=False)
    rep.add_tlc("exhaustive+cases:XsGroupsLabels_emit.cfg", eres, {"Letters": "1..52 (52 + 2704 labels)"})
    if eres.violation:
        rep.violation("tlc:labels:" + eres.violation["name"], "TLC: %s violated in XsGroupsLabels" % eres.violation["name"],
                      {"direction": "tlc", "trace": eres.violation["trace"][:20000]})
    cases = [p for p in eres.prints if isinstance(p, dict) and "label" in p]
    envs = [p for p in eres.prints if isinstance(p, dict) and "env" in p]
    if len(cases) != 52 + 52 * 52 or len(envs) != 52:
        raise tlc.MachineryError("label emission incomplete: %d labels, %d env groups" % (len(cases), len(envs)))
    seen = {}
    n = 0
    for c in cases:
        n += 1
        label = c["label"]
        cls = label_class(label)
        try:
            num = xsgm.getXSTypeNumberFromLabel(label)
        except Exception as ex:  # noqa: BLE001  a legal label that raises is a verdict
            rep.violation("label:to-number:%s" % cls, "getXSTypeNumberFromLabel(%r) raised %s: %s" % (label, type(ex).__name__, ex),
                          {"direction": "case", "part": "labels", "case": c})
            continue
        if num != c["num"]:
            rep.violation("label:to-number:%s" % cls, "getXSTypeNumberFromLabel(%r) = %r, specification %r" % (label, num, c["num"]),
                          {"direction": "case", "part": "labels", "case": c})
        if num in seen and seen[num] != label:
            rep.violation("label:collision:%s" % cls, "labels %r and %r share the number %r" % (seen[num], label, num),
                          {"direction": "case", "part": "labels", "case": c})
        seen[num] = label
        try:
            back = xsgm.getXSTypeLabelFromNumber(c["num"])
        except Exception as ex:  # noqa: BLE001
            back = "%s: %s" % (type(ex).__name__, str(ex)[:80])
        if back != c["back"]:
            rep.violation("label:round-trip:%s" % cls, "getXSTypeLabelFromNumber(%r) gives %r, not the label %r it is the number of" % (
                c["num"], back, c["back"]), {"direction": "case", "part": "labels", "case": c})
    # the same pair of functions behind the block parameters xsType / xsTypeNum (what a database round trip uses),
    # and the environment-group letter <-> number setters the group key is made of
    b = blocks.HexBlock("c20-labels", height=1.0)
    for c in cases[:: 1 if tier == "thorough" else 7]:
        n += 1
        try:
            b.p.xsType = c["label"]
            num = b.p.xsTypeNum
            b.p.xsType = "A"
            b.p.xsTypeNum = num
            got = b.p.xsType
        except Exception as ex:  # noqa: BLE001
            got = "%s: %s" % (type(ex).__name__, str(ex)[:80])
        if got != c["back"]:
            rep.violation("label:block-param-round-trip:%s" % label_class(c["label"]),
                          "b.p.xsType = %r; b.p.xsTypeNum = b.p.xsTypeNum restores %r" % (c["label"], got),
                          {"direction": "case", "part": "labels", "case": c})
    for e in envs:
        n += 1
        try:
            b.p.envGroupNum = e["env"]
            letter = b.p.envGroup
            b.p.envGroupNum = 0
            b.p.envGroup = e["letter"]
            back = b.p.envGroupNum
        except Exception as ex:  # noqa: BLE001
            letter, back = "%s: %s" % (type(ex).__name__, str(ex)[:80]), None
        if letter != e["letter"] or back != e["env"]:
            rep.violation("env:codec", "envGroupNum %r -> envGroup %r (specification %r), envGroup %r -> envGroupNum %r" % (
                e["env"], letter, e["letter"], e["letter"], back), {"direction": "case", "part": "env", "case": e})
    rep.add_replay("labels", n, n, "every admissible label (52 single letters, 2704 pairs) converted to its number and back by the "
                   "real functions and by the xsType/xsTypeNum block parameters; 52 environment-group numbers <-> letters")
    rep.sample({"kind": "label-case", "case": cases[len(cases) // 2]})


# ------------------------------------------------------------------------------------------------------------
# 2. one block collection: blocks with chosen values, blockCollectionFactory, createRepresentativeBlock
# ------------------------------------------------------------------------------------------------------------
KIND_TYPE = {"fuel": "fuel", "control": "control", "reflector": "reflector"}
FILTER_TYPES = {"all": None, "fuel": ["fuel"], "fuelcontrol": ["fuel", "control"]}
ALL_TYPES = ["fuel", "control", "reflector"]


def make_block(name, rec):
    """HexBlock with two solid Circle components of areas 2 and 3 (Custom material, no expansion) holding the record's values."""
    armi_ready()
    from armi.reactor import blocks, components

    b = blocks.HexBlock(name, height=float(rec["h"]))
    for ci, area in enumerate(COMP_AREA):
        t = float(rec["t"][ci])
        c = components.Circle("%s-c%d" % (name, ci), "Custom", Tinput=t, Thot=t, od=math.sqrt(4.0 * area / math.pi), id=0.0, mult=1)
        c.setType("fuel" if ci == 0 else ("duct" if rec.get("alt") else "clad"))
        c.p.numberDensities = {NUC[k]: float(rec["n"][ci][k]) for k in HOLDS[ci]}
        b.add(c)
    b.setType(KIND_TYPE[rec["kind"]])
    b.p.percentBu = float(rec["bu"])
    b.p.massHmBOL = float(rec["hm"])
    b.p.flux = float(rec["w"])
    warm(b)
    return b


def warm(b):
    """fill the caches of derived quantities (component p.volume, block area) so that the baseline fingerprint has them"""
    b.getVolume()
    b.getArea()
    for c in b:
        c.getVolume()
        c.getArea()


def fingerprint(b):
    """everything a block holds: its assigned parameters, its components' parameters, names, order, location"""
    def one(o):
        return (type(o).__name__, o.name, tuple((k, repr(v)) for k, v in sorted(o.p.items())))

    loc = b.spatialLocator
    return (one(b), tuple(one(c) + (repr(c.temperatureInC), repr(sorted(c.p.numberDensities.items()))) for c in b),
            None if loc is None else tuple(int(x) for x in loc.getCompleteIndices()) if hasattr(loc, "getCompleteIndices") else repr(loc))


def fingerprint_diff(f0, f1):
    if f0 == f1:
        return None
    if f0[0] != f1[0]:
        a, b = dict(f0[0][2]), dict(f1[0][2])
        ks = sorted(k for k in set(a) | set(b) if a.get(k) != b.get(k))
        return "block parameters %s changed: %s" % (ks, ["%s -> %s" % (a.get(k), b.get(k)) for k in ks][:3])
    if f0[1] != f1[1]:
        return "components changed"
    return "location changed"


class Pool:
    """Blocks keyed by (position, record); reused between cases because no case may change them (checked every time)."""

    def __init__(self, name_rev):
        self.name_rev = name_rev
        self.blocks = {}

    def get(self, pos, rec):
        key = (pos, json.dumps(rec, sort_keys=True))
        hit = self.blocks.get(key)
        if hit is None:
            name = "b%02d" % ((50 - pos) if self.name_rev else pos)
            b = make_block(name, rec)
            hit = self.blocks[key] = [b, fingerprint(b)]
        return key, hit[0], hit[1]

    def drop(self, key):
        self.blocks.pop(key, None)


def observe_rep(bc, newb, exp, members):
    """compare the new block with the specification's record; returns the first difference as (field, text) or None"""
    if any(newb is m for m in members):
        return "copy", "the representative block is one of the members, not a copy"
    for k, e in enumerate(exp["dens"]):
        got = newb.getNumberDensity(NUC[k])
        if not close(fr(e), got):
            return "dens", "homogenised density of %s: specification %r, observed %r" % (NUC[k], fr(e), float(got))
    comps = sorted(newb.getComponents())
    for ci, row in enumerate(exp["cdens"]):
        for k, e in enumerate(row):
            got = comps[ci].getNumberDensity(NUC[k])
            if not close(fr(e), got):
                return "cdens", "density of %s in component %d: specification %r, observed %r" % (NUC[k], ci + 1, fr(e), float(got))
    for ci, e in enumerate(exp["ctemp"]):
        got = comps[ci].temperatureInC
        if not close(fr(e), got):
            return "ctemp", "temperature of component %d: specification %r, observed %r" % (ci + 1, fr(e), float(got))
    for k, e in enumerate(exp["ntemp"]):
        got = bc.avgNucTemperatures.get(NUC[k])
        if got is None or not close(fr(e), got):
            return "ntemp", "temperature of nuclide %s: specification %r, observed %r" % (NUC[k], fr(e), got)
    if not close(fr(exp["bu"]), newb.p.percentBu):
        return "bu", "burnup: specification %r, observed %r" % (fr(exp["bu"]), float(newb.p.percentBu))
    return None


def run_case(case, pool):
    """Execute one (collection, option) case; returns None or (field, text)."""
    from armi.physics.neutronics import crossSectionGroupManager as xsgm
    from armi.physics.neutronics.crossSectionSettings import XSModelingOptions

    opt, exp = case["opt"], case["rep"]
    keys, members, prints = [], [], []
    for pos, rec in enumerate(case["ms"], 1):
        k, b, f = pool.get(pos, rec)
        keys.append(k)
        members.append(b)
        prints.append(f)
    xo = XSModelingOptions("AA", geometry="0D", blockRepresentation=opt["rep"], validBlockTypes=FILTER_TYPES[opt["filter"]],
                           averageByComponent=opt["byComp"])
    bc = xsgm.blockCollectionFactory(xo, list(NUC))
    bc.extend(members)
    out = None
    try:
        cands = bc.getCandidateBlocks()
        if exp["out"] == "none":
            if cands:
                out = ("candidates", "specification: no eligible member; getCandidateBlocks() returns %d" % len(cands))
        else:
            with model_weights(bool(exp["ctemp"]) and opt["rep"] != "Median"):
                try:
                    newb = bc.createRepresentativeBlock()
                    refused = None
                except ValueError as ex:
                    newb, refused = None, ex
            if exp["out"] == "refused":
                if refused is None:
                    out = ("refusal", "a mixture of zero and non-zero weighting factors was accepted")
            elif refused is not None:
                out = ("refusal", "createRepresentativeBlock raised ValueError: %s" % str(refused)[:200])
            else:
                out = observe_rep(bc, newb, exp, members)
                src = members[exp["src"] - 1]
                if out is None and newb.getHeight() != src.getHeight():
                    out = ("src", "the new block has height %r; member %d (height %r) is its source in the specification" % (
                        newb.getHeight(), exp["src"], src.getHeight()))
                if out is None and opt["rep"] == "Median" and newb.getName() != src.getName():
                    out = ("src", "median copy of %s, specification: member %d (%s)" % (newb.getName(), exp["src"], src.getName()))
    finally:
        for k, b, f in zip(keys, members, prints):
            d = fingerprint_diff(f, fingerprint(b))
            if d:
                pool.drop(k)
                if out is None or out[0] != "changed":
                    out = ("changed", "member %s was changed by createRepresentativeBlock: %s" % (b.getName(), d))
    return out


REP_QUICK_SAMPLE = {"dens": 1600, "temp": 1200, "burn": 1600, "kind": 1200, "tri": 2400}


def check_rep(rep, tier, seed):
    armi_ready()
    thorough = tier == "thorough"
    sfx = "_thorough" if thorough else ""
    if not _SELFTEST:
        # -coverage costs a factor 5 on these fold-heavy laws; non-vacuity is counted instead: every non-initial
        # state is a sequence, generated exactly once by AddMember, so the other generated states are
        # CreateRepresentative edges
        res = run_tlc("XsGroupsRep_mc", "XsGroupsRep_mc%s.cfg" % sfx, want_prints=False, coverage=False)
        rep.add_tlc("exhaustive:XsGroupsRep_mc%s.cfg" % sfx, res)
        if res.violation:
            rep.violation("tlc:rep:" + res.violation["name"], "TLC: %s violated in XsGroupsRep" % res.violation["name"],
                          {"direction": "tlc", "trace": res.violation["trace"][:20000]})
        elif res.distinct < 500 or res.generated - res.distinct < res.distinct:
            raise tlc.MachineryError("vacuous: XsGroupsRep_mc%s.cfg explored %d states / %d edges" % (sfx, res.distinct, res.generated))
    eres = run_tlc("XsGroupsRep_mc", "XsGroupsRep_emit%s.cfg" % sfx, workers=1, coverage=False)
    rep.add_tlc("cases:XsGroupsRep_emit%s.cfg" % sfx, eres)
    cases = [p for p in eres.prints if isinstance(p, dict) and "opt" in p]
    if not cases:
        raise tlc.MachineryError("no representative-block cases emitted")
    by_fam = {}
    for c in cases:
        by_fam.setdefault(c["fam"], []).append(c)
    rng = random.Random(seed * 104729 + 20)
    pool = Pool(name_rev=True)  # the emission configs use NameRev = TRUE
    n = nt = 0
    outcomes = {}
    for fam in sorted(by_fam):
        cs = by_fam[fam]
        cap = None if thorough else REP_QUICK_SAMPLE.get(fam, 1500)
        if cap is not None and len(cs) > cap:
            cs = rng.sample(cs, cap)
        for c in cs:
            try:
                bad = run_case(c, pool)
            except Exception as ex:  # noqa: BLE001  an exception escaping a legal call is a verdict
                import traceback

                bad = ("exception", "%s escaped: %s" % (type(ex).__name__, traceback.format_exc()[-600:]))
            n += 1
            outcomes[c["rep"]["out"]] = outcomes.get(c["rep"]["out"], 0) + 1
            if len(c["ms"]) > 1:
                nt += 1
            if bad:
                o = c["opt"]
                rep.violation("rep:%s:%s" % (o["rep"], bad[0]),
                              "createRepresentativeBlock (%s, valid block types %s, by component %s) on %d members: %s" % (
                                  o["rep"], o["filter"], o["byComp"], len(c["ms"]), bad[1]),
                              {"direction": "case", "part": "rep", "case": c, "name_rev": True})
    if len(pool.blocks) > 5000:
        pool.blocks.clear()
    rep.add_replay("representative-blocks", n, nt,
                   "every (collection, option) case printed by TLC %s executed on real HexBlocks through blockCollectionFactory + "
                   "createRepresentativeBlock; non-trivial = collections of two or more members" % (
                       "" if thorough else "(seeded sample of the %d printed cases)" % len(cases)))
    rep.extra["rep_outcomes"] = outcomes
    if min(outcomes.get(k, 0) for k in ("ok", "refused", "none")) == 0:
        raise tlc.MachineryError("vacuous: outcomes exercised %s" % outcomes)
    mid = by_fam["dens"][len(by_fam["dens"]) // 2]
    rep.sample({"kind": "rep-case", "case": mid})


_SELFTEST = False


def run(rep, tier, seed):
    for m in ("XsGroupsLabels_mc", "XsGroupsRep_mc"):
        tlc.sany(m, MODDIR)
    rep.exhaustive = True
    check_labels(rep, tier)
    check_rep(rep, tier, seed)


def replay(payload):
    armi_ready()
    print(json.dumps(payload.get("case"), indent=1)[:3000])
    if payload.get("part") == "rep":
        bad = run_case(payload["case"], Pool(payload.get("name_rev", True)))
        print("no divergence: the case conforms" if not bad else "%s: %s" % bad)
        return 1 if bad else 0
    return 0
