"""C20 -- XS groups partition the blocks; representative blocks are true averages.

Three specifications (spec/xs):
  XsGroupsLabels   label <-> number codec (every admissible label is one state/case)
  XsGroupsRep      one block collection and createRepresentativeBlock (XsGroupsAvg holds the exact-rational averages);
                   every (collection, option) edge TLC explores is one case executed on real blocks
  XsGroups         the CrossSectionGroupManager as a state machine (environment groups, grouping, representatives,
                   re-labelling of unrepresented groups); every explored edge is replayed on a real core, and seeded
                   random histories of the real manager are validated by TLC (XsGroups_trace)
Expected values always come from TLC (printed JSON); this file only builds, applies, projects and compares.
"""
import contextlib
import copy
import json
import math
import os
import random

from harness import common, tlc, tracecheck
from harness import replay as rp
from harness.armi_env import armi_ready

MODDIR = os.path.join(common.SPEC, "xs")

# nuclides 1..4 of the specifications (allNuclidesInProblem); the fourth is not among the nuclides the 1-D cylinder/slab options
# require to be present in all members or none (PU239 U238 U235 U234 FE56 NA23 O16), so members may differ in holding it
NUC = ["U235", "U238", "FE56", "MN55"]
# component areas and held nuclides (0-based) by number of components: McCompArea/McHolds and McCompArea3/McHolds3
GEOMETRY = {2: ([2.0, 3.0], [[0, 1], [1, 2]]), 3: ([1.0, 2.0, 4.0], [[0, 1], [1, 2], [2, 3]])}
COMP_FLAGS = {2: ["fuel", "clad"], 3: ["fuel", "clad", "duct"]}
AW = [2.0, 3.0, 5.0, 7.0]  # McAW: set on the real nuclides while by-component temperatures (mass weighted) are compared
RTOL = 1e-9  # a handful of double operations per average
ATOL = 1e-12  # averages that are exactly 0 in the model come out as sums of products with 0.0

_TLC_CACHE = {}


def run_tlc(module, cfg, **kw):
    """TLC's output does not depend on armi: cache it per cfg inside one process (selftest runs many mutants)."""
    key = (module, cfg, tuple(sorted(kw.items())))
    if key not in _TLC_CACHE:
        _TLC_CACHE[key] = tlc.run(module, cfg, MODDIR, timeout=3000, **kw)
    return _TLC_CACHE[key]


def fr(x):
    """a rational printed by TLC as [num, den]"""
    return x[0] / x[1]


def close(exp, got):
    try:
        got = float(got)
    except Exception:
        return False
    return abs(exp - got) <= RTOL * max(abs(exp), abs(got)) + ATOL


@contextlib.contextmanager
def model_weights(on=True):
    """Atomic weights of the four nuclides set to the model's integers (data, not code); restored afterwards."""
    armi_ready()
    from armi.nucDirectory import nuclideBases

    old = {}
    try:
        if on:
            for name, w in zip(NUC, AW):
                nb = nuclideBases.byName[name]
                old[name] = nb.weight
                nb.weight = w
        yield
    finally:
        for name, w in old.items():
            nuclideBases.byName[name].weight = w


# ------------------------------------------------------------------------------------------------------------
# 1. labels
# ------------------------------------------------------------------------------------------------------------
def label_class(label):
    """stable identifier of the input class of a label: U / l / UU / Ul / lU / ll"""
    return "".join("U" if ch.isupper() else "l" for ch in label)


def check_labels(rep, tier):
    armi_ready()
    from armi.physics.neutronics import crossSectionGroupManager as xsgm
    from armi.reactor import blocks

    # the domain is 2756 initial states without transitions: one TLC run checks the laws on every label and prints
    # the cases (thorough repeats it with 16 workers and coverage as a separate exhaustive run)
    if tier == "thorough" and not _SELFTEST:
        res = run_tlc("XsGroupsLabels_mc", "XsGroupsLabels_mc.cfg", want_prints=False)
        rep.add_tlc("exhaustive:XsGroupsLabels_mc.cfg", res, {"Letters": "1..52 (52 + 2704 labels)"})
        if res.violation:
            rep.violation("tlc:labels:" + res.violation["name"], "TLC: %s violated in XsGroupsLabels" % res.violation["name"],
                          {"direction": "tlc", "trace": res.violation["trace"][:20000]})
    eres = run_tlc("XsGroupsLabels_mc", "XsGroupsLabels_emit.cfg", workers=1, coverage=False)
    rep.add_tlc("exhaustive+cases:XsGroupsLabels_emit.cfg", eres, {"Letters": "1..52 (52 + 2704 labels)"})
    if eres.violation:
        rep.violation("tlc:labels:" + eres.violation["name"], "TLC: %s violated in XsGroupsLabels" % eres.violation["name"],
                      {"direction": "tlc", "trace": eres.violation["trace"][:20000]})
    cases = [p for p in eres.prints if isinstance(p, dict) and "label" in p]
    envs = [p for p in eres.prints if isinstance(p, dict) and "env" in p]
    if len(cases) != 52 + 52 * 52 or len(envs) != 52:
        raise tlc.MachineryError("label emission incomplete: %d labels, %d env groups" % (len(cases), len(envs)))
    seen = {}
    n = 0
    for c in cases:
        n += 1
        label = c["label"]
        cls = label_class(label)
        try:
            num = xsgm.getXSTypeNumberFromLabel(label)
        except Exception as ex:  # noqa: BLE001  a legal label that raises is a verdict
            rep.violation("label:to-number:%s" % cls, "getXSTypeNumberFromLabel(%r) raised %s: %s" % (label, type(ex).__name__, ex),
                          {"direction": "case", "part": "labels", "case": c})
            continue
        if num != c["num"]:
            rep.violation("label:to-number:%s" % cls, "getXSTypeNumberFromLabel(%r) = %r, specification %r" % (label, num, c["num"]),
                          {"direction": "case", "part": "labels", "case": c})
        if num in seen and seen[num] != label:
            rep.violation("label:collision:%s" % cls, "labels %r and %r share the number %r" % (seen[num], label, num),
                          {"direction": "case", "part": "labels", "case": c})
        seen[num] = label
        try:
            back = xsgm.getXSTypeLabelFromNumber(c["num"])
        except Exception as ex:  # noqa: BLE001
            back = "%s: %s" % (type(ex).__name__, str(ex)[:80])
        if back != c["back"]:
            rep.violation("label:round-trip:%s" % cls, "getXSTypeLabelFromNumber(%r) gives %r, not the label %r it is the number of" % (
                c["num"], back, c["back"]), {"direction": "case", "part": "labels", "case": c})
    # the same pair of functions behind the block parameters xsType / xsTypeNum (what a database round trip uses),
    # and the environment-group letter <-> number setters the group key is made of
    b = blocks.HexBlock("c20-labels", height=1.0)
    for c in cases[:: 1 if tier == "thorough" else 7]:
        n += 1
        try:
            b.p.xsType = c["label"]
            num = b.p.xsTypeNum
            b.p.xsType = "A"
            b.p.xsTypeNum = num
            got = b.p.xsType
        except Exception as ex:  # noqa: BLE001
            got = "%s: %s" % (type(ex).__name__, str(ex)[:80])
        if got != c["back"]:
            rep.violation("label:round-trip:%s" % label_class(c["label"]),
                          "b.p.xsType = %r; b.p.xsTypeNum = b.p.xsTypeNum restores %r" % (c["label"], got),
                          {"direction": "case", "part": "labels", "case": c})
    for e in envs:
        n += 1
        try:
            b.p.envGroupNum = e["env"]
            letter = b.p.envGroup
            b.p.envGroupNum = 0
            b.p.envGroup = e["letter"]
            back = b.p.envGroupNum
        except Exception as ex:  # noqa: BLE001
            letter, back = "%s: %s" % (type(ex).__name__, str(ex)[:80]), None
        if letter != e["letter"] or back != e["env"]:
            rep.violation("env:codec", "envGroupNum %r -> envGroup %r (specification %r), envGroup %r -> envGroupNum %r" % (
                e["env"], letter, e["letter"], e["letter"], back), {"direction": "case", "part": "env", "case": e})
    rep.add_replay("labels", n, n, "every admissible label (52 single letters, 2704 pairs) converted to its number and back by the "
                   "real functions and by the xsType/xsTypeNum block parameters; 52 environment-group numbers <-> letters")
    rep.sample({"kind": "label-case", "case": cases[len(cases) // 2]})


# ------------------------------------------------------------------------------------------------------------
# 2. one block collection: blocks with chosen values, blockCollectionFactory, createRepresentativeBlock
# ------------------------------------------------------------------------------------------------------------
KIND_TYPE = {"fuel": "fuel", "control": "control", "reflector": "reflector"}
FILTER_TYPES = {"all": None, "fuel": ["fuel"], "fuelcontrol": ["fuel", "control"]}
ALL_TYPES = ["fuel", "control", "reflector"]


def flux_of(rec):
    return float(rec["w"]) / float(rec.get("wd", 1))


def make_block(name, rec, shape="circle"):
    """HexBlock with two solid Circle components of areas 2 and 3 (Custom material, no expansion) holding the record's values."""
    armi_ready()
    from armi.reactor import blocks, components

    b = blocks.HexBlock(name, height=float(rec["h"]))
    nc = len(rec["t"])
    areas, holds = GEOMETRY[nc]
    # components are stored in the order rec["ord"] (1-based indices into the sorted order); default: sorted
    for pos in rec.get("ord") or range(1, nc + 1):
        ci = pos - 1
        t = float(rec["t"][ci])
        if shape == "rect":  # the slab option accepts rectangles only
            c = components.Rectangle("%s-c%d" % (name, ci), "Custom", Tinput=t, Thot=t, lengthOuter=areas[ci], widthOuter=1.0,
                                     lengthInner=0.0, widthInner=0.0, mult=1)
        else:
            c = components.Circle("%s-c%d" % (name, ci), "Custom", Tinput=t, Thot=t, od=math.sqrt(4.0 * areas[ci] / math.pi), id=0.0, mult=1)
        c.setType("bond" if ci == 1 and rec.get("alt") else COMP_FLAGS[nc][ci])
        # keys: the nuclides the component always holds, plus any other nuclide of positive density
        c.p.numberDensities = {NUC[k]: float(rec["n"][ci][k]) for k in range(len(NUC)) if k in holds[ci] or rec["n"][ci][k] > 0}
        b.add(c)
    if rec.get("lfp"):
        b.setLumpedFissionProducts(make_lfps())
    b.setType(KIND_TYPE[rec["kind"]])
    b.p.percentBu = float(rec["bu"])
    b.p.massHmBOL = float(rec["hm"])
    b.p.flux = flux_of(rec)
    warm(b)
    return b


def make_lfps():
    """a small lumped-fission-product collection (one lump with two fission products), built with the library's own classes"""
    from armi.nucDirectory import nuclideBases
    from armi.physics.neutronics.fissionProductModel import lumpedFissionProduct as lfpm

    coll = lfpm.LumpedFissionProductCollection()
    lump = lfpm.LumpedFissionProduct("LFP35")
    lump[nuclideBases.byName["XE135"]] = 1.2
    lump[nuclideBases.byName["CS137"]] = 0.8
    coll["LFP35"] = lump
    return coll


def lfp_print(b):
    coll = b.getLumpedFissionProductCollection()
    if coll is None:
        return None
    return tuple(sorted((name, tuple(sorted((nb.name, y) for nb, y in lump.yld.items()))) for name, lump in coll.items()))


def warm(b):
    """fill the caches of derived quantities (component p.volume, block area) so that the baseline fingerprint has them"""
    b.getVolume()
    b.getArea()
    for c in b:
        c.getVolume()
        c.getArea()


def _norm(v):
    if v is None or isinstance(v, (bool, int, float, str)):
        return v
    if isinstance(v, (list, tuple)):
        return tuple(_norm(x) for x in v)
    if isinstance(v, dict):
        return tuple(sorted((str(k), _norm(x)) for k, x in v.items()))
    if hasattr(v, "tobytes") and hasattr(v, "shape"):
        return (tuple(v.shape), v.tobytes())
    return repr(v)


def fingerprint(b):
    """everything a block holds: its assigned parameters, its components' parameters, names, order, location"""
    def one(o):
        # p.items() lists a parameter once its *definition* was assigned on any object of the class, so values that still
        # equal the definition's default are left out: the list must not depend on what happened to other blocks
        defs = o.p.paramDefs
        out = []
        for k, v in sorted(o.p.items()):
            v = _norm(v)
            try:
                if v == _norm(defs[k].default):
                    continue
            except Exception:  # noqa: BLE001  (parameters without a comparable default are kept)
                pass
            out.append((k, v))
        return (type(o).__name__, o.name, tuple(out))

    loc = b.spatialLocator
    return (one(b) + (lfp_print(b),), tuple(one(c) + (float(c.temperatureInC),) for c in b),
            None if loc is None else tuple(int(x) for x in loc.getCompleteIndices()) if hasattr(loc, "getCompleteIndices") else repr(loc))


def fingerprint_diff(f0, f1):
    if f0 == f1:
        return None
    if f0[0] != f1[0]:
        a, b = dict(f0[0][2]), dict(f1[0][2])
        ks = sorted(k for k in set(a) | set(b) if a.get(k) != b.get(k))
        return "block parameters %s changed: %s" % (ks, ["%s -> %s" % (a.get(k), b.get(k)) for k in ks][:3])
    if f0[1] != f1[1]:
        return "components changed"
    return "location changed"


def place_in_third_core(b, sym, assem_num):
    """Put the block (alone in an assembly) into a third-core periodic hex core: at the centre (symmetry factor 3), on a
    symmetry line with both edge positions filled (2) or inside (1).  The assembly number gives the block its name."""
    from armi.reactor import assemblies, blocks, blueprints, geometry, grids, reactors

    r = reactors.Reactor("c20sym", blueprints.Blueprints())
    core = reactors.Core("Core")
    r.add(core)
    core.spatialGrid = grids.HexGrid.fromPitch(16.0)
    core.spatialGrid.geomType = geometry.GeomType.HEX
    core.spatialGrid.symmetry = str(geometry.SymmetryType(geometry.DomainType.THIRD_CORE, geometry.BoundaryType.PERIODIC))
    core.spatialGrid.armiObject = core

    def put(block, num, ij):
        a = assemblies.HexAssembly("fuel", assemNum=num)
        a.spatialGrid = grids.AxialGrid.fromNCells(1)
        a.spatialGrid.armiObject = a
        a.add(block)
        a.calculateZCoords()
        core.add(a, core.spatialGrid[ij[0], ij[1], 0])

    put(b, assem_num, {3: (0, 0), 2: (2, -1), 1: (1, 0)}[sym])
    if sym == 2:
        put(blocks.HexBlock("edge", height=1.0), 900 + assem_num, (-1, 2))
    if b.getSymmetryFactor() != float(sym):
        raise tlc.MachineryError("placement gives symmetry factor %r, wanted %r" % (b.getSymmetryFactor(), sym))
    return r  # the caller keeps the reactor alive


class Pool:
    """Blocks keyed by (position, record); reused between cases because no case may change them (checked every time)."""

    def __init__(self, name_rev):
        self.name_rev = name_rev
        self.blocks = {}
        self.reactors = []

    def get(self, pos, rec, shape="circle", placed=False):
        key = (pos, shape, placed, json.dumps(rec, sort_keys=True))
        hit = self.blocks.get(key)
        if hit is None:
            rank = (50 - pos) if self.name_rev else pos
            b = make_block("b%02d" % rank, rec, shape)
            if placed:  # every member of a case with a symmetry-cut block sits in a core (the names come from the assemblies)
                self.reactors.append(place_in_third_core(b, rec.get("sym", 1), rank))
                # Core.add rescales mass-like parameters of symmetry-cut assemblies: the record's values are those in place
                b.p.percentBu, b.p.massHmBOL, b.p.flux = float(rec["bu"]), float(rec["hm"]), flux_of(rec)
                warm(b)
            hit = self.blocks[key] = [b, fingerprint(b)]
        return key, hit[0], hit[1]

    def drop(self, key):
        self.blocks.pop(key, None)


def observe_rep(bc, newb, exp, members):
    """compare the new block with the specification's record; returns the first difference as (field, text) or None"""
    if any(newb is m for m in members):
        return "copy", "the representative block is one of the members, not a copy"
    for k, e in enumerate(exp["dens"]):
        got = newb.getNumberDensity(NUC[k])
        if not close(fr(e), got):
            return "dens", "homogenised density of %s: specification %r, observed %r" % (NUC[k], fr(e), float(got))
    comps = sorted(newb.getComponents())
    for ci, row in enumerate(exp["cdens"]):
        for k, e in enumerate(row):
            got = comps[ci].getNumberDensity(NUC[k])
            if not close(fr(e), got):
                return "cdens", "density of %s in component %d: specification %r, observed %r" % (NUC[k], ci + 1, fr(e), float(got))
    for ci, e in enumerate(exp["ctemp"]):
        got = comps[ci].temperatureInC
        if not close(fr(e), got):
            return "ctemp", "temperature of component %d: specification %r, observed %r" % (ci + 1, fr(e), float(got))
    if not exp["ntemp"] and bc.avgNucTemperatures:
        return "ntemp", "specification: no nuclide temperatures for this option; observed %r" % (bc.avgNucTemperatures,)
    for k, e in enumerate(exp["ntemp"]):
        got = bc.avgNucTemperatures.get(NUC[k])
        if got is None or not close(fr(e), got):
            return "ntemp", "temperature of nuclide %s: specification %r, observed %r" % (NUC[k], fr(e), got)
    if not close(fr(exp["bu"]), newb.p.percentBu):
        return "bu", "burnup: specification %r, observed %r" % (fr(exp["bu"]), float(newb.p.percentBu))
    if (lfp_print(newb) is not None) != exp["lfp"]:
        return "lfp", "lumped fission products on the new block: %r, specification: %s" % (lfp_print(newb), exp["lfp"])
    return None


def run_case(case, pool):
    """Execute one (collection, option) case; returns None or (field, text)."""
    from armi.physics.neutronics import crossSectionGroupManager as xsgm
    from armi.physics.neutronics.crossSectionSettings import XSModelingOptions

    opt, exp = case["opt"], case["rep"]
    keys, members, prints = [], [], []
    placed = any(rec.get("sym", 1) != 1 for rec in case["ms"])
    for pos, rec in enumerate(case["ms"], 1):
        k, b, f = pool.get(pos, rec, "rect" if opt["rep"] == "ComponentAverage1DSlab" else "circle", placed)
        keys.append(k)
        members.append(b)
        prints.append(f)
    xo = XSModelingOptions("AA", geometry="0D", blockRepresentation=opt["rep"], validBlockTypes=FILTER_TYPES[opt["filter"]],
                           averageByComponent=opt["byComp"])
    bc = xsgm.blockCollectionFactory(xo, list(NUC))
    bc.extend(members)
    out = None
    try:
        cands = bc.getCandidateBlocks()
        if exp["out"] == "none":
            if cands:
                out = ("candidates", "specification: no eligible member; getCandidateBlocks() returns %d" % len(cands))
        else:
            with model_weights(bool(exp["ctemp"]) and opt["rep"] != "Median"):
                try:
                    newb = bc.createRepresentativeBlock()
                    refused = None
                except ValueError as ex:
                    newb, refused = None, ex
            if exp["out"] == "refused":
                if refused is None:
                    out = ("refusal", "a mixture of zero and non-zero weighting factors was accepted")
            elif refused is not None:
                out = ("refusal", "createRepresentativeBlock raised ValueError: %s" % str(refused)[:200])
            else:
                out = observe_rep(bc, newb, exp, members)
                src = members[exp["src"] - 1]
                if out is None and newb.getHeight() != src.getHeight():
                    out = ("src", "the new block has height %r; member %d (height %r) is its source in the specification" % (
                        newb.getHeight(), exp["src"], src.getHeight()))
                if out is None and opt["rep"] == "Median" and newb.getName() != src.getName():
                    out = ("src", "median copy of %s, specification: member %d (%s)" % (newb.getName(), exp["src"], src.getName()))
                if out is None and exp["lfp"] and lfp_print(newb) != lfp_print(src):
                    out = ("lfp", "lumped fission products %r differ from those of the source member %r" % (lfp_print(newb), lfp_print(src)))
                if out is None and exp["lfp"] and opt["rep"] == "Median" and (
                        newb.getLumpedFissionProductCollection() is src.getLumpedFissionProductCollection()):
                    out = ("lfp", "the median copy shares the lumped-fission-product collection of the member")
    finally:
        for k, b, f in zip(keys, members, prints):
            d = fingerprint_diff(f, fingerprint(b))
            if d:
                pool.drop(k)
                if out is None or out[0] != "changed":
                    out = ("changed", "member %s was changed by createRepresentativeBlock: %s" % (b.getName(), d))
    return out


REP_QUICK_SAMPLE = {"dens": 900, "temp": 600, "burn": 900, "kind": 600, "tri": 1100, "cyl": 900, "cyl3": 400, "lfp": 250, "ord": 250, "perm": 468, "sym": 900, "sim3": 600, "nucs": 800, "flux": 700}


def check_rep(rep, tier, seed):
    armi_ready()
    thorough = tier == "thorough"
    sfx = "_thorough" if thorough else ""
    if not _SELFTEST:
        # -coverage costs a factor 5 on these fold-heavy laws; non-vacuity is counted instead: every non-initial
        # state is a sequence, generated exactly once by AddMember, so the other generated states are
        # CreateRepresentative edges
        res = run_tlc("XsGroupsRep_mc", "XsGroupsRep_mc%s.cfg" % sfx, want_prints=False, coverage=False)
        rep.add_tlc("exhaustive:XsGroupsRep_mc%s.cfg" % sfx, res)
        if res.violation:
            rep.violation("tlc:rep:" + res.violation["name"], "TLC: %s violated in XsGroupsRep" % res.violation["name"],
                          {"direction": "tlc", "trace": res.violation["trace"][:20000]})
        elif res.distinct < 500 or res.generated - res.distinct < res.distinct:
            raise tlc.MachineryError("vacuous: XsGroupsRep_mc%s.cfg explored %d states / %d edges" % (sfx, res.distinct, res.generated))
    eres = run_tlc("XsGroupsRep_mc", "XsGroupsRep_emit%s.cfg" % sfx, workers=1, coverage=False)
    rep.add_tlc("cases:XsGroupsRep_emit%s.cfg" % sfx, eres)
    # three-component blocks stored in all six orders: other constants, hence its own run (laws and cases together)
    pres = run_tlc("XsGroupsRep_mc", "XsGroupsRep_perm.cfg", workers=1, coverage=False)
    rep.add_tlc("exhaustive+cases:XsGroupsRep_perm.cfg", pres)
    if pres.violation:
        rep.violation("tlc:rep:" + pres.violation["name"], "TLC: %s violated in XsGroupsRep (three components)" % pres.violation["name"],
                      {"direction": "tlc", "trace": pres.violation["trace"][:20000]})
    cases = [p for p in eres.prints + pres.prints if isinstance(p, dict) and "opt" in p]
    if not cases:
        raise tlc.MachineryError("no representative-block cases emitted")
    by_fam = {}
    for c in cases:
        by_fam.setdefault(c["fam"], []).append(c)
    rng = random.Random(seed * 104729 + 20)
    pool = Pool(name_rev=True)  # the emission configs use NameRev = TRUE
    n = nt = 0
    outcomes = {}
    for fam in sorted(by_fam):
        cs = by_fam[fam]
        cap = (60000 if thorough else REP_QUICK_SAMPLE.get(fam, 1500)) // (3 if _SELFTEST else 1)
        if cap is not None and len(cs) > cap:
            cs = rng.sample(cs, cap)
        for c in cs:
            try:
                bad = run_case(c, pool)
            except Exception as ex:  # noqa: BLE001  an exception escaping a legal call is a verdict
                import traceback

                bad = ("exception", "%s escaped from %s: %s" % (type(ex).__name__, traceback.extract_tb(ex.__traceback__)[-1].name, str(ex)[:300]))
            n += 1
            outcomes[c["rep"]["out"]] = outcomes.get(c["rep"]["out"], 0) + 1
            if len(c["ms"]) > 1:
                nt += 1
            if bad:
                o = c["opt"]
                rep.violation("rep:%s:%s" % (o["rep"], bad[0]),
                              "createRepresentativeBlock (%s, valid block types %s, by component %s) on %d members: %s" % (
                                  o["rep"], o["filter"], o["byComp"], len(c["ms"]), bad[1]),
                              {"direction": "case", "part": "rep", "case": c, "name_rev": True})
    if len(pool.blocks) > 5000:
        pool.blocks.clear()
    rep.add_replay("representative-blocks", n, nt,
                   "every (collection, option) case printed by TLC %s executed on real HexBlocks through blockCollectionFactory + "
                   "createRepresentativeBlock; non-trivial = collections of two or more members" % (
                       "" if thorough else "(seeded sample of the %d printed cases)" % len(cases)))
    rep.extra["rep_outcomes"] = outcomes
    if min(outcomes.get(k, 0) for k in ("ok", "refused", "none")) == 0:
        raise tlc.MachineryError("vacuous: outcomes exercised %s" % outcomes)
    mid = by_fam["dens"][len(by_fam["dens"]) // 2]
    rep.sample({"kind": "rep-case", "case": mid})


# ------------------------------------------------------------------------------------------------------------
# 3. the manager: a real Reactor/Core with one assembly of generated blocks, a real CrossSectionGroupManager
# ------------------------------------------------------------------------------------------------------------
REFUSAL_TEXT = "mixture of zero and non-zero weighting factors"
BOOKKEEPING = ("envGroup", "envGroupNum")  # refreshed by the manager-level calls by specification
TYPE_PARAMS = ("xsType", "xsTypeNum")  # re-assigned on the listed blocks by createRepresentativeBlocksUsingExistingBlocks


def block_fingerprint(b, skip=BOOKKEEPING):
    f = fingerprint(b)
    head = f[0]
    return ((head[0], head[1], tuple(kv for kv in head[2] if kv[0] not in skip), head[3]), f[1], f[2])


def without(fp, skip):
    head = fp[0]
    return ((head[0], head[1], tuple(kv for kv in head[2] if kv[0] not in skip), head[3]), fp[1], fp[2])


def w_dirty(ad, name):
    return name in ad._dirty


class ManagerAdapter:
    def __init__(self, scenarios):
        armi_ready()
        self.scn = scenarios
        self._cs = {}
        self._cskeys = {}
        self._dirty = set()
        self._worlds = {}

    def settings(self, name):
        """case settings of a scenario (built once: the manager only reads them and applies idempotent defaults)"""
        if name not in self._cs:
            from armi import settings

            s = self.scn[name]
            ctl = {}
            for c in s["ctl"]:
                o = c["opt"]
                ctl[c["id"]] = {"geometry": "1D cylinder" if o["rep"] == "ComponentAverage1DCylinder" else "0D",
                                "blockRepresentation": o["rep"],
                                "validBlockTypes": ALL_TYPES if o["filter"] == "all" else FILTER_TYPES[o["filter"]],
                                "averageByComponent": o["byComp"],
                                "xsTempIsotope": NUC[c["iso"] - 1] if c.get("iso", 2) else ""}
            self._cs[name] = settings.Settings().modified(newSettings={
                "buGroups": list(s["bub"]), "tempGroups": list(s["tb"]), "xsBlockRepresentation": s["grep"],
                "disableBlockTypeExclusionInXsGeneration": s["gfilter"] == "all", "crossSectionControl": ctl})
            self._cs[name]["crossSectionControl"].setDefaults(s["grep"], s["gfilter"] == "all")  # what interactBOL does, done once
            self._cskeys[name] = {k: copy.deepcopy(v) for k, v in self._cs[name]["crossSectionControl"].items()}
        return self._cs[name]

    def build(self, name, dyn):
        """A world for the initial state (scenario, dyn).  Reactors are kept per initial state and re-used: the dynamic
        values (burnup, fuel temperature, flux, environment group) are put back and the complete fingerprint must then
        equal the one taken when the reactor was new; otherwise (something else was changed) it is rebuilt."""
        from armi.physics.neutronics import crossSectionGroupManager as xsgm

        key = (name, json.dumps(dyn))
        hit = self._worlds.get(key)
        xs_settings = self.settings(name)["crossSectionControl"]
        if set(xs_settings.keys()) != set(self._cskeys[name]) or w_dirty(self, name):
            # a previous behaviour added or overwrote keys through createRepresentativeBlocksUsingExistingBlocks
            dict.clear(xs_settings)
            for k, v in self._cskeys[name].items():
                dict.__setitem__(xs_settings, k, copy.deepcopy(v))
            self._dirty.discard(name)
        if hit is not None:
            r, blocks, base = hit
            for b, d, xs in zip(blocks, dyn, self.scn[name]["xs"]):
                b.p.percentBu, b.p.flux = float(d[0]), float(d[2])
                sorted(b.getComponents())[0].temperatureInC = float(d[1])
                b.p.envGroup = "A"
                b.p.xsType = xs
            if [fingerprint(b) for b in blocks] != base or list(r.core.getBlocks()) != blocks:
                del self._worlds[key]
                hit = None
        if hit is None:
            r = self.fresh(name, dyn)
            blocks = r.core.getBlocks()
            for b in blocks:
                warm(b)
                b.p.envGroup = "A"
            self._worlds[key] = (r, blocks, [fingerprint(b) for b in blocks])
        csm = xsgm.CrossSectionGroupManager(r, self.settings(name))
        csm.interactBOL()
        w = {"name": name, "scn": self.scn[name], "r": r, "csm": csm, "blocks": blocks, "err": "", "groups": None, "changed": None,
             "fp": [block_fingerprint(b) for b in blocks], "ret": {}, "orig": {}, "colls": {}}
        orig = csm.makeCrossSectionGroups

        def spy():  # observation only: keep the collections the manager works with
            g = orig()
            w["groups"] = g
            return g

        csm.makeCrossSectionGroups = spy
        return w

    def fresh(self, name, dyn):
        from armi.reactor import assemblies, blueprints, geometry, grids, reactors

        s = self.scn[name]
        r = reactors.Reactor("c20", blueprints.Blueprints())
        core = reactors.Core("Core")
        r.add(core)
        core.spatialGrid = grids.HexGrid.fromPitch(16.0)
        core.spatialGrid.geomType = geometry.GeomType.HEX
        core.spatialGrid.symmetry = str(geometry.SymmetryType(geometry.DomainType.FULL_CORE, geometry.BoundaryType.NO_SYMMETRY))
        core.spatialGrid.armiObject = core
        a = assemblies.HexAssembly("fuel", assemNum=1)
        a.spatialGrid = grids.AxialGrid.fromNCells(len(dyn))
        a.spatialGrid.armiObject = a
        for i, (rec0, d) in enumerate(zip(s["blk"], dyn)):
            rec = dict(rec0)
            rec["bu"], rec["w"] = d[0], d[2]
            rec["t"] = [d[1], rec0["t"][1]]
            b = make_block("b%d" % i, rec)
            b.p.xsType = s["xs"][i]
            a.add(b)
        a.calculateZCoords()
        core.add(a, core.spatialGrid[0, 0, 0])
        r.blueprints.allNuclidesInProblem = list(NUC)
        return r

    def apply(self, w, a):
        n = a["n"]
        w["err"] = ""
        blocks, csm = w["blocks"], w["csm"]
        if n in ("Burn", "Heat", "Flux"):
            b = blocks[a["i"] - 1]
            if n == "Burn":
                b.p.percentBu = float(a["v"])
            elif n == "Heat":
                sorted(b.getComponents())[0].temperatureInC = float(a["v"])
            else:
                b.p.flux = float(a["v"])
            w["fp"][a["i"] - 1] = block_fingerprint(b)
        else:
            before = w["fp"]
            try:
                if n == "Disable":
                    csm.disableEnvGroupUpdates()
                elif n == "Enable":
                    csm.enableEnvGroupUpdates()
                elif n == "Make":
                    csm.makeCrossSectionGroups()
                elif n == "Use":
                    self._dirty.add(w["name"])
                    listed = [blocks[i - 1] for i in a["l"]]
                    out = csm.createRepresentativeBlocksUsingExistingBlocks(listed, csm.representativeBlocks)
                    w["colls"], w["ret"], w["orig"] = ({}, {}, {}) if out is None else (dict(out[0]), dict(out[1]), dict(out[2]))
                    for b in listed:  # the caller's part of the workflow: every listed block goes to the collection of its new key
                        if b.getMicroSuffix() in w["colls"]:
                            w["colls"][b.getMicroSuffix()].append(b)
                elif n == "UpdCore":
                    csm.updateNuclideTemperatures()
                elif n == "UpdGrp":
                    csm.updateNuclideTemperatures(w["groups"])
                elif n == "UpdNew":
                    csm.updateNuclideTemperatures(w["colls"])
                elif n == "Create":
                    with model_weights(True):
                        try:
                            csm.createRepresentativeBlocks()
                        except ValueError as ex:
                            if REFUSAL_TEXT not in str(ex):
                                raise
                            w["err"] = "ValueError"
                    if not w["err"]:
                        # which block each new representative was made from: the named member (median: a copy keeps its
                        # name) or the first candidate of the collection (averages copy it and rename the copy)
                        pos = {id(b): i + 1 for i, b in enumerate(blocks)}
                        names = {b.getName(): i + 1 for i, b in enumerate(blocks)}
                        w["src"] = {}
                        for xsid, rb in csm.representativeBlocks.items():
                            cands = w["groups"][xsid].getCandidateBlocks()
                            w["src"][xsid] = names.get(rb.getName()) or (pos.get(id(source_of(w["groups"][xsid], cands)), 0) if cands else 0)
                else:
                    raise AssertionError("unknown action " + n)
            finally:
                after = w["fp"] = [block_fingerprint(b) for b in blocks]
                for i, (b, f0, f1) in enumerate(zip(blocks, before, after)):
                    if n == "Use" and (i + 1) in a["l"]:
                        f0, f1 = without(f0, TYPE_PARAMS), without(f1, TYPE_PARAMS)
                    d = fingerprint_diff(f0, f1)
                    if d:
                        w["changed"] = "%s changed block %s: %s" % (n, b.getName(), d)
            if list(w["r"].core.getBlocks()) != blocks:
                w["changed"] = "%s changed the list of blocks of the core" % n
        return w["err"]

    def project(self, w, discrete=False):
        from armi.physics.neutronics import crossSectionGroupManager as xsgm

        blocks, csm = w["blocks"], w["csm"]
        pos = {id(b): i + 1 for i, b in enumerate(blocks)}
        names = {b.getName(): i + 1 for i, b in enumerate(blocks)}
        cls = {v: k for k, v in xsgm.BLOCK_COLLECTIONS.items()}

        def rep_obs(xsid, rb):
            comps = sorted(rb.getComponents())
            return {"id": xsid, "name": rb.getName(), "height": float(rb.getHeight()), "named": names.get(rb.getName(), 0),
                    "xs": rb.p.xsType, "dens": [float(rb.getNumberDensity(nuc)) for nuc in NUC],
                    "cdens": [[float(c.getNumberDensity(nuc)) for nuc in NUC] for c in comps],
                    "ctemp": [float(c.temperatureInC) for c in comps], "bu": float(rb.p.percentBu)}

        def coll_obs(xsid, coll):
            vt = getattr(coll, "_validRepresentativeBlockTypes", None)
            vt = None if vt is None else sorted(str(f).split(".")[-1].lower() for f in vt)
            filt = {None: "all", ("fuel",): "fuel", ("control", "fuel"): "fuelcontrol", ("control", "fuel", "reflector"): "all"}.get(
                None if vt is None else tuple(vt), str(vt))
            return {"id": xsid, "mem": [pos.get(id(b), 0) for b in coll], "rep": cls.get(type(coll), type(coll).__name__),
                    "filter": filt, "byComp": bool(coll.averageByComponent)}

        reps = [rep_obs(k, rb) for k, rb in csm.representativeBlocks.items()]
        ret = sorted((dict(rep_obs(k, rb), orig=w["orig"].get(k)) for k, rb in w["ret"].items()), key=lambda r: r["id"])
        temps = [{"id": k, "nt": [None if t.get(nuc) is None else float(t[nuc]) for nuc in NUC]}
                 for k, t in sorted(csm.avgNucTemperatures.items())]
        return {"envn": [int(b.p.envGroupNum) for b in blocks], "envl": [b.p.envGroup for b in blocks],
                "xs": [b.p.xsType for b in blocks], "reps": reps, "temps": temps, "ret": ret,
                "colls": sorted((coll_obs(k, c) for k, c in w["colls"].items()), key=lambda c: c["id"]),
                "ctl": sorted(csm.cs["crossSectionControl"].keys()),
                "unrep": list(csm._unrepresentedXSIDs), "grp": [coll_obs(k, c) for k, c in (w["groups"] or {}).items()],
                "enabled": bool(csm._envGroupUpdatesEnabled), "err": w["err"]}


def diff_values(e, g, what):
    """exact values of one representative block against the projection of the real one"""
    for k, x in enumerate(e["dens"]):
        if not close(fr(x), g["dens"][k]):
            return ".%s.dens: %s %s specification %r, observed %r" % (what, e["id"], NUC[k], fr(x), g["dens"][k])
    for ci, row in enumerate(e["cdens"]):
        for k, x in enumerate(row):
            if not close(fr(x), g["cdens"][ci][k]):
                return ".%s.cdens: %s component %d %s specification %r, observed %r" % (what, e["id"], ci + 1, NUC[k], fr(x), g["cdens"][ci][k])
    for ci, x in enumerate(e["ctemp"]):
        if not close(fr(x), g["ctemp"][ci]):
            return ".%s.ctemp: %s component %d specification %r, observed %r" % (what, e["id"], ci + 1, fr(x), g["ctemp"][ci])
    if not close(fr(e["bu"]), g["bu"]):
        return ".%s.bu: %s specification %r, observed %r" % (what, e["id"], fr(e["bu"]), g["bu"])
    return None


def diff_manager(exp, got, scn):
    """first difference between the specification's observation and the projection of the real manager, or None"""
    for k in ("envn", "envl", "xs", "enabled", "err"):
        if exp[k] != got[k]:
            return ".%s: specification %r, observed %r" % (k, exp[k], got[k])
    if exp["unrep"] != ["?"] and exp["unrep"] != got["unrep"]:
        return ".unrep: specification %r, observed %r" % (exp["unrep"], got["unrep"])
    for what in ("grp", "colls"):
        eg = [(g["id"], g["mem"], g["rep"], g["filter"], g["byComp"]) for g in sorted(exp[what], key=lambda c: c["id"])]
        gg = [(g["id"], g["mem"], g["rep"], g["filter"], g["byComp"]) for g in got[what]]
        if what == "grp":
            eg = [(g["id"], g["mem"], g["rep"], g["filter"], g["byComp"]) for g in exp[what]]
        if eg != gg:
            return ".%s: specification %r, observed %r" % (what, eg, gg)
    if sorted(exp["ctl"]) != got["ctl"]:
        return ".ctl: settings keys, specification %r, observed %r" % (sorted(exp["ctl"]), got["ctl"])
    if [r["id"] for r in exp["reps"]] != [r["id"] for r in got["reps"]]:
        return ".reps.id: specification %r, observed %r" % ([r["id"] for r in exp["reps"]], [r["id"] for r in got["reps"]])
    for e, g in zip(exp["reps"], got["reps"]):
        src = e["src"]
        if g["height"] != float(scn["blk"][src - 1]["h"]):
            return ".reps.src: %s has height %r, its source block %d has %r" % (e["id"], g["height"], src, scn["blk"][src - 1]["h"])
        if "AVG_" not in g["name"] and g["named"] != src:
            return ".reps.src: %s is a copy of block %r, specification: block %d" % (e["id"], g["name"], src)
        d = diff_values(e, g, "reps")
        if d:
            return d
    eret = sorted(exp["ret"], key=lambda r: r["id"])
    if [(r["id"], r["orig"]) for r in eret] != [(r["id"], r["orig"]) for r in got["ret"]]:
        return ".ret.id: new key <- original key, specification %r, observed %r" % (
            [(r["id"], r["orig"]) for r in eret], [(r["id"], r["orig"]) for r in got["ret"]])
    for e, g in zip(eret, got["ret"]):
        if g["xs"] != e["id"][0]:
            return ".ret.xs: the copy for %s has xsType %r" % (e["id"], g["xs"])
        d = diff_values(e, g, "ret")
        if d:
            return d
    if exp["temps"] != ["?"]:
        if [t["id"] for t in exp["temps"]] != [t["id"] for t in got["temps"]]:
            return ".temps.id: specification %r, observed %r" % ([t["id"] for t in exp["temps"]], [t["id"] for t in got["temps"]])
        for e, g in zip(exp["temps"], got["temps"]):
            for k, x in enumerate(e["nt"]):
                if g["nt"][k] is None or not close(fr(x), g["nt"][k]):
                    return ".temps.nt: %s %s specification %r, observed %r" % (e["id"], NUC[k], fr(x), g["nt"][k])
    return None


def run_behaviour(ad, edge):
    """one emitted edge = the behaviour path[0] (initial values), path[1:] (actions); the observation after the last
    action is compared.  Returns None or a divergence record."""
    path = edge["path"]
    w = ad.build(edge["scn"], path[0]["dyn"])
    last = len(path) - 1
    for k, a in enumerate(path[1:], 1):
        try:
            ad.apply(w, a)
            got = ad.project(w) if k == last else None
        except Exception as ex:  # noqa: BLE001  an exception escaping a legal call is a verdict
            import traceback

            where = traceback.extract_tb(ex.__traceback__)[-1].name
            return {"at": k, "action": a, "first_difference": ".exception: %s escaped from the real code in %s: %s" % (
                type(ex).__name__, where, str(ex)[:200]), "where": where, "trace": traceback.format_exc()[-1500:]}
        if w["changed"]:
            return {"at": k, "action": a, "first_difference": ".blocks: " + w["changed"]}
    d = diff_manager(edge["obs"], got, ad.scn[edge["scn"]])
    if d:
        return {"at": last, "action": path[-1], "first_difference": d, "expected": edge["obs"], "observed": got}
    return None


def mgr_key(scn, d):
    fd = d["first_difference"]
    field = fd.split(":")[0]
    if field == ".exception":
        field = ".exception.%s.%s" % (fd.split(":")[1].split()[0], d.get("where", "?"))
    # representatives are only written by createRepresentativeBlocks: a difference in them is attributed to that call
    # even when it is (still) seen after a later action
    # ... likewise block types, returned copies/collections and settings keys are only written by the Use workflow
    owner = "Create" if field.startswith(".reps") else "Use" if field.split(".")[1] in ("ret", "xs", "colls", "ctl") else d["action"]["n"]
    return "mgr:%s:%s:%s" % (scn, owner, field)


MGR_QUICK_EDGES = 700
MGR_CALLS = ("Make", "Create", "Use", "UpdCore", "UpdGrp", "UpdNew")


def check_manager(rep, tier, seed):
    armi_ready()
    thorough = tier == "thorough"
    if thorough and not _SELFTEST:
        # deeper than the emission config; -coverage costs a factor > 10 on this specification, the actions taken are
        # counted from the emitted edges below instead (same Next, shallower bound)
        res = run_tlc("XsGroups_mc", "XsGroups_mc.cfg", want_prints=False, coverage=False)
        rep.add_tlc("exhaustive:XsGroups_mc.cfg", res)
        if res.violation:
            rep.violation("tlc:mgr:" + res.violation["name"], "TLC: %s violated in XsGroups" % res.violation["name"],
                          {"direction": "tlc", "trace": res.violation["trace"][:20000]})
    cfg = "XsGroups_emit%s.cfg" % ("_thorough" if thorough else "")
    eres = run_tlc("XsGroups_mc", cfg, workers=1, coverage=False)
    rep.add_tlc("exhaustive+edges:" + cfg, eres)
    if eres.violation:
        rep.violation("tlc:mgr:" + eres.violation["name"], "TLC: %s violated in XsGroups" % eres.violation["name"],
                      {"direction": "tlc", "trace": eres.violation["trace"][:20000]})
    scns = {}
    for p in eres.prints:
        if isinstance(p, dict) and "scenario" in p:
            scns.setdefault(p["scenario"], p)
    edges = [p for p in eres.prints if isinstance(p, dict) and "path" in p]
    if not edges or not scns:
        raise tlc.MachineryError("no manager edges emitted")
    acts = {}
    for e in edges:
        acts[e["path"][-1]["n"]] = acts.get(e["path"][-1]["n"], 0) + 1
    missing = [a for a in ("Burn", "Heat", "Flux", "Disable", "Enable", "Make", "Create", "Use", "UpdCore", "UpdGrp", "UpdNew") if not acts.get(a)]
    if missing or not any(e["obs"]["err"] for e in edges):
        raise tlc.MachineryError("vacuous: manager actions never explored: %s (refusals: %s)" % (missing, any(e["obs"]["err"] for e in edges)))
    rep.extra["manager_edges"] = acts
    ad = ManagerAdapter(scns)
    rng = random.Random(seed * 7919 + 20)
    todo = edges
    if _SELFTEST:
        calls = [e for e in edges if e["path"][-1]["n"] in MGR_CALLS]
        keep = [e for e in calls if e["scn"] == "exist"]
        todo = rng.sample(keep, min(len(keep), 200)) + rng.sample([e for e in calls if e["scn"] != "exist"], 400)
    elif not thorough and len(edges) > MGR_QUICK_EDGES:
        # environment edits are exercised by the longer behaviours anyway: keep every edge that ends with a manager call
        # (the small workflow scenario, which holds the longest behaviours, gets its own share)
        calls = [e for e in edges if e["path"][-1]["n"] in MGR_CALLS]
        keep = [e for e in calls if e["scn"] == "exist"]
        rest = [e for e in calls if e["scn"] != "exist"]
        keep = keep if len(keep) <= 300 else rng.sample(keep, 300)
        todo = keep + (rest if len(rest) <= MGR_QUICK_EDGES else rng.sample(rest, MGR_QUICK_EDGES))
    n = nt = 0
    for e in todo:
        d = run_behaviour(ad, e)
        n += 1
        nt += 1 if e["path"][-1]["n"] in MGR_CALLS else 0
        if d:
            rep.violation(mgr_key(e["scn"], d), "real CrossSectionGroupManager diverges from XsGroups (scenario %s) after %s: %s" % (
                e["scn"], json.dumps([a["n"] for a in e["path"][1:]]), d["first_difference"]),
                dict(d, direction="replay", part="mgr", edge=e, scenario=scns[e["scn"]]))
    rep.add_replay("manager-edges", n, nt,
                   "every explored edge of XsGroups %sis executed as a complete behaviour (initial values, actions) on a real "
                   "Reactor/Core/CrossSectionGroupManager and the observation after it compared; non-trivial = ends with "
                   "makeCrossSectionGroups / createRepresentativeBlocks" % ("" if thorough else "that ends with a manager call (seeded sample above %d) " % MGR_QUICK_EDGES))
    mid = [e for e in edges if e["path"][-1]["n"] == "Create" and e["obs"]["reps"]]
    rep.sample({"kind": "manager-edge", "scn": mid[len(mid) // 2]["scn"], "path": mid[len(mid) // 2]["path"],
                "expected_envl": mid[len(mid) // 2]["obs"]["envl"], "expected_reps": [r["id"] for r in mid[len(mid) // 2]["obs"]["reps"]]})
    return ad, scns


TRACE_BU = [0, 1, 3, 4, 7, 10, 11, 40]
TRACE_T1 = [300, 400, 500, 700, 800]  # never on a temperature bound (450, 600): the real temperature is a float quotient
TRACE_W = [0, 0, 1, 2, 3]


def source_of(coll, cands):
    """the member an averaging collection copies its new block from, as the collection itself tells"""
    return coll._selectCandidateBlock() if hasattr(coll, "_selectCandidateBlock") else cands[0]


def discrete(w, got):
    """the part of the projection that XsGroups_trace compares (DObs)"""
    return {"envn": got["envn"], "xs": got["xs"],
            "ret": [{"id": k, "orig": w["orig"][k]} for k in w["ret"]],
            "colls": [{"id": k, "mem": [w["blocks"].index(b) + 1 for b in c]} for k, c in w["colls"].items()],
            "reps": [{"id": r["id"], "src": w.get("src", {}).get(r["id"], 0)} for r in got["reps"]],
            "unrep": got["unrep"] if not got["err"] else ["?"],
            "grp": [{"id": g["id"], "mem": g["mem"]} for g in got["grp"]],
            "enabled": got["enabled"], "err": got["err"]}


def manager_traces(ad, scns, ntraces, nev, seed):
    """seeded random histories on the real manager; every event is logged with the discrete observation after it"""
    rng = random.Random(seed * 31 + 2020)
    traces = []
    names = sorted(scns)
    for t in range(ntraces):
        name = names[t % len(names)]
        nb = len(scns[name]["blk"])
        dyn = [[rng.choice(TRACE_BU), rng.choice(TRACE_T1), rng.choice(TRACE_W)] for _ in range(nb)]
        ad._worlds.pop((name, json.dumps(dyn)), None)
        w = ad.build(name, dyn)
        cur = [list(d) for d in dyn]
        ev = []
        for _ in range(nev):
            kind = rng.choice(["Burn", "Burn", "Burn", "Heat", "Flux", "Disable", "Enable", "Make", "Make", "Create", "Create", "Create", "Create", "Use"])
            if kind == "Use" and (name == "two" or not w["csm"].representativeBlocks):
                kind = "Create"  # the workflow needs representatives and one-letter types
            a = {"n": kind}
            if kind == "Use":
                a["l"] = sorted(rng.sample(range(1, nb + 1), rng.randint(1, nb)))
            if kind in ("Burn", "Heat", "Flux"):
                col, vals = {"Burn": (0, TRACE_BU), "Heat": (1, TRACE_T1), "Flux": (2, TRACE_W)}[kind]
                i = rng.randrange(nb)
                v = rng.choice([x for x in vals if x != cur[i][col]])
                cur[i][col] = v
                a.update(i=i + 1, v=v)
            try:
                ad.apply(w, a)
                post = discrete(w, ad.project(w))
            except Exception as ex:  # noqa: BLE001  an escaping exception ends the history; TLC rejects the event
                import traceback

                ev.append({"a": a, "post": {"exception": "%s in %s: %s" % (type(ex).__name__, traceback.extract_tb(ex.__traceback__)[-1].name, str(ex)[:160])}})
                break
            if w["changed"]:
                ev.append({"a": a, "post": {"changed": w["changed"]}})
                break
            ev.append({"a": a, "post": post})
        ad._worlds.pop((name, json.dumps(dyn)), None)
        traces.append({"id": "%s%d" % (name, t), "scn": name, "dyn": dyn, "ev": ev})
    return traces


def check_traces(rep, tier, seed, ad, scns):
    thorough = tier == "thorough"
    traces = manager_traces(ad, scns, 240 if thorough else 24 if _SELFTEST else 60, 24 if thorough else 14, seed)
    bad, stats = tracecheck.validate("XsGroups_trace", "XsGroups_trace.cfg", MODDIR, traces, timeout=3000)
    rep.add_tlc("trace-validation:XsGroups_trace.cfg", stats["tlc"])
    rep.add_traces("manager-histories", len(traces), sum(len(t["ev"]) for t in traces),
                   "seeded random histories (burnup/temperature/flux edits, disable/enable, makeCrossSectionGroups, "
                   "createRepresentativeBlocks) on real cores of the six scenarios with free initial values; every event with its "
                   "discrete observation must be a step of XsGroups")
    rep.sample({"kind": "trace", "id": traces[0]["id"], "dyn": traces[0]["dyn"], "events": traces[0]["ev"][:3]})
    for b in bad:
        tr = b["trace"]
        k = b["matched"]
        nxt = tr["ev"][k] if k < len(tr["ev"]) else {}
        post = nxt.get("post", {})
        what = "exception" if "exception" in post else "changed" if "changed" in post else "obs"
        rep.violation("trace:%s:%s:%s" % (tr.get("scn", "?"), nxt.get("a", {}).get("n", b.get("invariant", "?")), what),
                      "recorded manager history %s is not a behaviour of XsGroups at event %d (%s): %s" % (
                          tr["id"], k + 1, json.dumps(nxt.get("a")), json.dumps(post if what != "obs" else b.get("mismatch", ""))[:700]),
                      {"direction": "trace", "part": "mgr", "trace": tr, "matched": k, "tlc": b.get("tlc"), "mismatch": b.get("mismatch")})


_SELFTEST = False


def run(rep, tier, seed):
    # (XsGroups_trace extends XsGroups_mc, XsGroups, XsGroupsAvg, XsGroupsDefs: one SANY run covers the chain)
    for m in ("XsGroupsLabels_mc", "XsGroupsRep_mc", "XsGroups_trace"):
        tlc.sany(m, MODDIR)
    rep.exhaustive = True
    check_labels(rep, tier)
    check_rep(rep, tier, seed)
    ad, scns = check_manager(rep, tier, seed)
    check_traces(rep, tier, seed, ad, scns)
    rep.extra["tolerances"] = {"rtol": RTOL, "atol": ATOL, "why": "each average is a handful of double operations; model zeros are sums of products with 0.0"}
    rep.assume(
        "admissible type labels: the 52 letters of _ALLOWABLE_XS_TYPE_LIST and all 52*52 pairs of them (Block.getMicroSuffix notes)",
        "weight of a member = (flux or 1) * volume for FluxWeightedAverage, volume otherwise; mixed zero/non-zero flux among the candidates is refused",
        "nuclide temperature: atoms-weighted over the components holding the nuclide; a held nuclide without atoms anywhere gets the weight*volume mean (1e-50 trace rule)",
        "averaged burnup: weights massHmBOL * (weight / volume), over the candidates; 0 without heavy metal",
        "median: candidate at 0-based position n div 2 of the candidates sorted by (burnup*weight, name)",
        "manager level: envGroupNum/envGroup are bookkeeping that createRepresentativeBlocks/makeCrossSectionGroups refresh and re-label by specification; "
        "'never changes the blocks' is checked on all other parameters there and on every parameter at collection level (derived-value caches "
        "such as component p.volume are filled before the baseline fingerprint is taken)",
        "a core uses one-letter types (with environment groups) or two-letter types (single environment group), not both; two-letter groups are never re-labelled",
        "temperature-group bounds are never hit exactly (the block temperature is a float quotient); burnup bounds are hit exactly",
        "blocks: HexBlock with two solid Custom-material Circle components (areas 2 and 3); atomic weights of U235/U238/FE56/MN55 set in-process to 2/3/5/7 "
        "while representatives are created by component (mass-weighted component temperature); everything else is weight-free",
        "1-D cylinder option: copy of the candidate with the median block-average temperature, per-component averages with volume weights; "
        "1-D slab option: the same on blocks of Rectangle components stored in one order, no lattice component, no nuclide temperatures",
        "environment group: the temperature isotope comes from the settings found for the block's current key (its own, else the lowest lower "
        "letter of the type, else the default U238); no isotope -> temperature group 0",
        "lumped fission products: a member may carry a collection; the new block carries the one of its source (median: a duplicate)",
        "flux values are fractions w/wd (0, 1/4, 1/2, 3/4, 1, 8): only a zero is replaced by 1; members may hold different nuclide sets "
        "(a component holds its fixed nuclides plus any other of positive density); block-level averaging puts a nuclide the copied first candidate "
        "does not hold into every component (composites.updateNumberDensities)",
        "component storage order: blocks may store their components in any order (two components: both orders; three components: all six)",
        "createRepresentativeBlocksUsingExistingBlocks re-assigns xsType of the listed blocks and adds settings keys by specification; the action "
        "includes the caller's filling of the returned collections with the listed blocks; updateNuclideTemperatures is only taken when no median "
        "collection lacks candidates (IndexError in the code; the statement does not define such temperatures)",
        "symmetry-cut members: blocks placed alone in assemblies of a third-core periodic core (centre: factor 3; both edge positions filled: 2); "
        "percentBu/massHmBOL/flux are set after placement (Core.add rescales mass-like parameters of the centre assembly)",
        "not modelled: blueprint-only blocks (_getMissingBlueprintBlocks), pre-generated cross sections, the duct-heterogeneous cylinder "
        "variant, slab blocks with a lattice component or reversed component order, averaging of lumped-fission-product yields",
    )


def replay(payload):
    armi_ready()
    part = payload.get("part")
    if part == "rep":
        print(json.dumps(payload["case"], indent=1)[:3000])
        bad = run_case(payload["case"], Pool(payload.get("name_rev", True)))
        print("no divergence: the case conforms" if not bad else "%s: %s" % bad)
        return 1 if bad else 0
    if part == "mgr" and payload.get("direction") == "replay":
        e = payload["edge"]
        print("scenario %s, behaviour %s" % (e["scn"], json.dumps(e["path"])))
        d = run_behaviour(ManagerAdapter({e["scn"]: payload["scenario"]}), e)
        if d:
            print(json.dumps({k: v for k, v in d.items() if k != "first_difference"}, indent=1, default=str)[:4000])
            print("divergence at step %d: %s" % (d["at"], d["first_difference"]))
        else:
            print("no divergence: the behaviour conforms")
        return 1 if d else 0
    if part == "labels":
        from armi.physics.neutronics import crossSectionGroupManager as xsgm

        c = payload["case"]
        num = xsgm.getXSTypeNumberFromLabel(c["label"])
        try:
            back = xsgm.getXSTypeLabelFromNumber(num)
        except Exception as ex:  # noqa: BLE001
            back = "%s: %s" % (type(ex).__name__, ex)
        print("label %r -> %r (specification %r) -> %r (specification %r)" % (c["label"], num, c["num"], back, c["back"]))
        return 0 if (num, back) == (c["num"], c["back"]) else 1
    print("replay of direction=%s part=%s: see the payload (TLC trace / recorded trace with the first rejected event)" % (
        payload.get("direction"), part))
    return 0


def selftest():
    """In-process mutants of the anchored code; each must be detected by the cases, the replayed edges or the traces."""
    global _SELFTEST
    from harness.report import Report
    from harness.selftest import patched, run_mutants

    armi_ready()
    import numpy as np

    from armi.physics.neutronics import crossSectionGroupManager as xsgm
    from armi.physics.neutronics import crossSectionSettings as xss
    from armi.reactor import blocks as blocksmod

    _SELFTEST = True
    BC, AVG, MED, MGR = xsgm.BlockCollection, xsgm.AverageBlockCollection, xsgm.MedianBlockCollection, xsgm.CrossSectionGroupManager

    def detect():
        rep = Report("C20", "quick", 0)
        run(rep, "quick", 0)
        return [v["key"] for v in rep.violations]

    def weight_no_volume(self, block):
        return 1.0 if not self.weightingParam else (block.p[self.weightingParam] or 1.0)

    def weight_volume_twice(self, block):
        vol = block.getVolume() or 1.0
        w = 1.0 if not self.weightingParam else (block.p[self.weightingParam] or 1.0)
        return w * vol * vol

    def weight_flux_ignored(self, block):
        return block.getVolume() or 1.0

    def candidates_all(self):
        return list(self)

    def median_lower(self):
        info = sorted((b.p.percentBu * self.getWeight(b), b.getName(), b) for b in self.getCandidateBlocks())
        return info[(len(info) - 1) // 2][-1]

    def median_unweighted(self):
        info = sorted((b.p.percentBu, b.getName(), b) for b in self.getCandidateBlocks())
        return info[len(info) // 2][-1]

    def avg_by_count(self):
        nuclides = self.allNuclidesInProblem
        blocks = self.getCandidateBlocks()
        weights = np.array([self.getWeight(b) for b in blocks])
        weights /= len(weights)  # the slip: normalised by the number of members instead of the total weight
        ndens = weights.dot([b.getNuclideNumberDensities(nuclides) for b in blocks])
        return dict(zip(nuclides, ndens))

    def nuctemp_unweighted(self):
        nvt = np.zeros(len(self.allNuclidesInProblem))
        nv = np.zeros(len(self.allNuclidesInProblem))
        for block in self.getCandidateBlocks():
            a, b = xsgm.getBlockNuclideTemperatureAvgTerms(block, self.allNuclidesInProblem)
            nvt += a
            nv += b
        return nvt, nv

    def burnup_volume_weighted(self):
        tot = wb = 0.0
        for b in self.getCandidateBlocks():
            w = self.getWeight(b)
            tot += w
            wb += w * b.p.percentBu
        return 0.0 if tot == 0.0 else wb / tot

    def comp_temp_not_mass_weighted(self, compIndex):
        blocks = self.getCandidateBlocks()
        weights = np.array([self.getWeight(b) / b.getHeight() for b in blocks])
        weights /= weights.sum()
        comps = [sorted(b.getComponents())[compIndex] for b in blocks]
        return weights.dot(np.array([c.temperatureInC for c in comps]))

    def comp_temp_volume_twice(self, compIndex):
        blocks = self.getCandidateBlocks()
        weights = np.array([self.getWeight(b) for b in blocks])  # not divided by the height: volume counted twice
        weights /= weights.sum()
        comps = [sorted(b.getComponents())[compIndex] for b in blocks]
        m = sum(w * c.getMass() for w, c in zip(weights, comps))
        if m == 0.0:
            return np.mean(np.array([c.temperatureInC for c in comps]))
        return weights.dot(np.array([c.temperatureInC * c.getMass() for c in comps])) / m

    def comp_dens_volume_twice(self, compIndex):
        nuclides = self.allNuclidesInProblem
        blocks = self.getCandidateBlocks()
        comps = [sorted(b.getComponents())[compIndex] for b in blocks]
        weights = np.array([self.getWeight(b) * c.getVolume() for b, c in zip(blocks, comps)])
        weights /= weights.sum()
        return dict(zip(nuclides, weights.dot([c.getNuclideNumberDensities(nuclides) for c in comps])))

    def similarity_always(self):
        return True

    def weight_check_all_members(self):
        if self.weightingParam is None:
            return
        weights = [b.p[self.weightingParam] for b in self]
        if any(weights) and not all(weights):
            raise ValueError("{0} has a mixture of zero and non-zero weighting factors (`{1}`)".format(self, self.weightingParam))

    orig_terms = xsgm.getBlockNuclideTemperatureAvgTerms

    def temp_terms_no_trace(block, allNucNames):
        vol = block.getVolume()
        comps, fracs = zip(*block.getVolumeFractions())
        nd = np.array([[c.p.numberDensities.get(n, 0.0) for n in allNucNames] for c in comps])
        nv = nd.T * np.array(fracs) * vol
        return sum((nv * np.array([c.temperatureInC for c in comps])).T), sum(nv.T)

    CYL, SLAB = xsgm.CylindricalComponentsAverageBlockCollection, xsgm.SlabComponentsAverageBlockCollection

    def env_stale_temp_group(self, blockList):
        """seed 2: tempGroupVal initialised once, outside the per-block loop"""
        if not self._envGroupUpdatesEnabled:
            return
        numBuGroups = len(self._buGroupBounds)
        if numBuGroups == 1 and len(self._tempGroupBounds) == 1:
            return
        buGroupVal = tempGroupVal = 0
        for block in blockList:
            bu = block.p.percentBu
            for buIndex, upperBu in enumerate(self._buGroupBounds):
                if bu <= upperBu:
                    buGroupVal = buIndex
                    isotope = self._initializeXsID(block.getMicroSuffix()).xsTempIsotope
                    if isotope and len(self._tempGroupBounds) > 1:
                        tempC = xsgm.getBlockNuclideTemperature(block, isotope)
                        for tempIndex, upperTemp in enumerate(self._tempGroupBounds):
                            if tempC <= upperTemp:
                                tempGroupVal = tempIndex
                                break
                    block.p.envGroupNum = tempGroupVal * numBuGroups + buGroupVal
                    break

    def make_weights_over_all(base):
        def mutant(self):
            """seed 3: bWeights over every member, zipped with the candidates' components"""
            repBlock = self._getNewBlock()
            bWeights = [self.getWeight(b) for b in self]
            repBlock.p.percentBu = self._calcWeightedBurnup()
            componentsInOrder = self._orderComponentsInGroup(repBlock)
            for c, allSimilarComponents in zip(sorted(repBlock) if base is CYL else repBlock, componentsInOrder):
                allNucsNames, densities = self._getAverageComponentNucs(allSimilarComponents, bWeights)
                for nuc, aDensity in zip(allNucsNames, densities):
                    c.setNumberDensity(nuc, aDensity)
            if base is CYL:
                self.calcAvgNuclideTemperatures()
                return repBlock
            return self._removeLatticeComponents(repBlock)
        return mutant

    def comp_dens_unsorted(self, compIndex):
        """seed 5: members' components picked by storage index, the new block's by sorted index"""
        nuclides = self.allNuclidesInProblem
        blocks = self.getCandidateBlocks()
        weights = np.array([self.getWeight(b) for b in blocks])
        weights /= weights.sum()
        comps = [b.getComponents()[compIndex] for b in blocks]
        return dict(zip(nuclides, weights.dot([c.getNuclideNumberDensities(nuclides) for c in comps])))

    def cyl_select_first(self):
        return self.getCandidateBlocks()[0]

    def modified_keys_not_values(self, blockList, originalRepresentativeBlocks):
        """round 2 seed 1: the new types already handed out are not excluded"""
        import collections as c
        import copy as cp
        from armi.physics.neutronics.const import CONF_CROSS_SECTION

        types, newReprs, origOfNew = c.OrderedDict(), c.OrderedDict(), c.OrderedDict()
        for b in blockList:
            origXSID = b.getMicroSuffix()
            if origXSID not in originalRepresentativeBlocks:
                continue
            if origXSID[0] not in types:
                types[origXSID[0]] = self.getNextAvailableXsTypes(excludedXSTypes=types.keys())[0]
            origOfNew[types[origXSID[0]] + origXSID[1]] = origXSID
        for newXSID, origXSID in origOfNew.items():
            newB = cp.deepcopy(originalRepresentativeBlocks[origXSID])
            newB.p.xsType = newXSID[0]
            newB.name = "AVG_{}".format(newXSID)
            newReprs[newXSID] = newB
            for b in blockList:
                if b.getMicroSuffix() == origXSID:
                    b.p.xsType = newXSID[0]
            self.cs[CONF_CROSS_SECTION][newXSID] = cp.deepcopy(self.cs[CONF_CROSS_SECTION][origXSID])
            self.cs[CONF_CROSS_SECTION][newXSID].xsID = newXSID
        return newReprs, origOfNew

    orig_use = MGR.createRepresentativeBlocksUsingExistingBlocks

    def new_collections_lose_filter(self, blockList, originalRepresentativeBlocks):
        """round 2 seed 5: the valid block types do not reach the new collections"""
        out = orig_use(self, blockList, originalRepresentativeBlocks)
        if out is not None:
            for coll in out[0].values():
                coll.validRepresentativeBlockTypes = coll._validRepresentativeBlockTypes
                coll._validRepresentativeBlockTypes = None
        return out

    def update_temps_only_empty(self, blockCollectionByXsGroup=None):
        """round 2 seed 4: collections that already have temperatures are not recomputed"""
        self.avgNucTemperatures = {}
        colls = blockCollectionByXsGroup or self.makeCrossSectionGroups()
        for xsID, collection in colls.items():
            if not collection.avgNucTemperatures:
                collection.calcAvgNuclideTemperatures()
            self.avgNucTemperatures[xsID] = collection.avgNucTemperatures

    def burnup_divides_by_height(self):
        """round 2 seed 2: the volume is taken out of the weight by dividing by the height"""
        tot = wb = 0.0
        for b in self.getCandidateBlocks():
            w = b.p.massHmBOL * self.getWeight(b) / b.getHeight()
            tot += w
            wb += w * b.p.percentBu
        return 0.0 if tot == 0.0 else wb / tot

    def similarity_first_only(self):
        """round 3 seed 1: only the first candidate is compared with the reference (last) one"""
        cFlags = {}
        for b in self.getCandidateBlocks():
            cFlags[b] = [c.p.flags for c in sorted(b.getComponents())]
        refFlags = cFlags[b]
        for b, compFlags in cFlags.items():
            for c, refC in zip(compFlags, refFlags):
                if c != refC:
                    return False
            else:
                return True

    def avg_dens_first_block_nuclides(self):
        """round 3 seed 4: the nuclide list of the first candidate instead of allNuclidesInProblem"""
        blocks = self.getCandidateBlocks()
        nuclides = blocks[0].getNuclides()
        weights = np.array([self.getWeight(b) for b in blocks])
        weights /= weights.sum()
        return dict(zip(nuclides, weights.dot([b.getNuclideNumberDensities(nuclides) for b in blocks])))

    def weight_clamped(self, block):
        """round 3 seed 5: max(value, 1.0) instead of replacing a zero only"""
        vol = block.getVolume() or 1.0
        return (1.0 if not self.weightingParam else max(block.p[self.weightingParam], 1.0)) * vol

    def new_block_no_copy(self):
        return self.getCandidateBlocks()[0]

    def no_weight_check(self):
        return None

    orig_update = MGR._updateEnvironmentGroups

    def env_strict_bound(self, blockList):
        saved = self._buGroupBounds
        self._buGroupBounds = [b - 1e-9 for b in saved]  # bu <= upper  becomes  bu < upper
        try:
            orig_update(self, blockList)
        finally:
            self._buGroupBounds = saved

    def env_formula_swapped(self, blockList):
        orig_update(self, blockList)
        nb, nt = len(self._buGroupBounds), len(self._tempGroupBounds)
        if self._envGroupUpdatesEnabled and not (nb == 1 and nt == 1):
            for b in blockList:
                t, u = divmod(b.p.envGroupNum, nb)
                b.p.envGroupNum = u * nt + t

    def alt_last(self, missingXsType):
        out = None
        for otherXsID in self.representativeBlocks:
            if otherXsID[0] == missingXsType:
                out = otherXsID[1]
        return out

    def no_relabel(self, blockCollectionsByXsGroup):
        return None

    orig_getitem = xss.XSSettings.__getitem__

    def settings_inherit_any(self, xsID):
        if xsID in self:
            return dict.__getitem__(self, xsID)
        same = [o for o in self.values() if o.xsType == xsID[0]]
        return sorted(same, key=lambda o: o.envGroup)[0] if same else self._getDefault(xsID)

    def number_sum(label):
        return sum(ord(c) for c in label) if len(label) > 1 else ord(label)

    def label_first_only(number):
        return chr(number) if number <= ord("z") else chr(int(str(number)[: 3 if str(number)[0] == "1" else 2]))

    def suffix_no_env(self):
        return self.p.xsType + "A" if len(self.p.xsType) == 1 else self.p.xsType

    def group_first_wins(self, blockCollectionsByXsGroup, blockList):
        self._updateEnvironmentGroups(blockList)
        for b in blockList:
            xsID = b.getMicroSuffix()
            if xsID not in blockCollectionsByXsGroup:
                blockCollectionsByXsGroup[xsID] = xsgm.blockCollectionFactory(self._initializeXsID(xsID), self.r.blueprints.allNuclidesInProblem)
            if len(blockCollectionsByXsGroup[xsID]) < 2:
                blockCollectionsByXsGroup[xsID].append(b)
        return blockCollectionsByXsGroup

    P = patched
    mutants = [
        ("getWeight without the volume (weights = flux only / plain mean)", lambda: P(BC, "getWeight", weight_no_volume)),
        ("getWeight applies the volume twice", lambda: P(BC, "getWeight", weight_volume_twice)),
        ("getWeight ignores the weighting parameter", lambda: P(BC, "getWeight", weight_flux_ignored)),
        ("getCandidateBlocks returns every member (ineligible included)", lambda: P(BC, "getCandidateBlocks", candidates_all)),
        ("_getMedianBlock takes the lower median (index off by one)", lambda: P(MED, "_getMedianBlock", median_lower)),
        ("_getMedianBlock sorts by unweighted burnup", lambda: P(MED, "_getMedianBlock", median_unweighted)),
        ("_getAverageNumberDensities normalises by the member count", lambda: P(AVG, "_getAverageNumberDensities", avg_by_count)),
        ("_getNucTempHelper ignores the block weights", lambda: P(AVG, "_getNucTempHelper", nuctemp_unweighted)),
        ("_calcWeightedBurnup weights by volume, not heavy metal", lambda: P(BC, "_calcWeightedBurnup", burnup_volume_weighted)),
        ("_getAverageComponentTemperature not mass weighted", lambda: P(AVG, "_getAverageComponentTemperature", comp_temp_not_mass_weighted)),
        ("_getAverageComponentTemperature keeps the volume in the block weight", lambda: P(AVG, "_getAverageComponentTemperature", comp_temp_volume_twice)),
        ("_getAverageComponentNumberDensities weights by component volume too", lambda: P(AVG, "_getAverageComponentNumberDensities", comp_dens_volume_twice)),
        ("_checkBlockSimilarity always true (by component despite different flags)", lambda: P(AVG, "_checkBlockSimilarity", similarity_always)),
        ("_checkValidWeightingFactors looks at all members, not the candidates", lambda: P(BC, "_checkValidWeightingFactors", weight_check_all_members)),
        ("getBlockNuclideTemperatureAvgTerms without the trace for zero densities", lambda: P(xsgm, "getBlockNuclideTemperatureAvgTerms", temp_terms_no_trace)),
        ("seed 2: _updateEnvironmentGroups keeps the previous block's temperature group", lambda: P(MGR, "_updateEnvironmentGroups", env_stale_temp_group)),
        ("seed 3: 1-D cylinder weights taken over all members", lambda: P(CYL, "_makeRepresentativeBlock", make_weights_over_all(CYL))),
        ("1-D slab weights taken over all members", lambda: P(SLAB, "_makeRepresentativeBlock", make_weights_over_all(SLAB))),
        ("seed 5: _getAverageComponentNumberDensities uses the storage order of the members", lambda: P(AVG, "_getAverageComponentNumberDensities", comp_dens_unsorted)),
        ("1-D cylinder copies the first candidate, not the median-temperature one", lambda: P(CYL, "_selectCandidateBlock", cyl_select_first)),
        ("round 2 seed 1: _getModifiedReprBlocks does not exclude the new types already issued", lambda: P(MGR, "_getModifiedReprBlocks", modified_keys_not_values)),
        ("round 2 seed 2: _calcWeightedBurnup divides by the height instead of the volume", lambda: P(BC, "_calcWeightedBurnup", burnup_divides_by_height)),
        ("round 2 seed 4: updateNuclideTemperatures skips collections that have temperatures", lambda: P(MGR, "updateNuclideTemperatures", update_temps_only_empty)),
        ("round 2 seed 5: new collections of the Use workflow lose the valid block types", lambda: P(MGR, "createRepresentativeBlocksUsingExistingBlocks", new_collections_lose_filter)),
        ("round 3 seed 1: _checkBlockSimilarity compares only the first candidate", lambda: P(AVG, "_checkBlockSimilarity", similarity_first_only)),
        ("round 3 seed 4: block-level averaging over the first candidate's nuclides only", lambda: P(AVG, "_getAverageNumberDensities", avg_dens_first_block_nuclides)),
        ("round 3 seed 5: getWeight clamps the weighting parameter at 1.0", lambda: P(BC, "getWeight", weight_clamped)),
        ("_getNewBlock returns the first candidate itself (core block modified)", lambda: P(BC, "_getNewBlock", new_block_no_copy)),
        ("_checkValidWeightingFactors accepts mixed zero/non-zero flux", lambda: P(BC, "_checkValidWeightingFactors", no_weight_check)),
        ("_updateEnvironmentGroups: bu < upper instead of <=", lambda: P(MGR, "_updateEnvironmentGroups", env_strict_bound)),
        ("_updateEnvironmentGroups: number = buGroup * numTemp + tempGroup", lambda: P(MGR, "_updateEnvironmentGroups", env_formula_swapped)),
        ("_getAlternateEnvGroup returns the last represented group", lambda: P(MGR, "_getAlternateEnvGroup", alt_last)),
        ("_modifyUnrepresentedXSIDs does nothing", lambda: P(MGR, "_modifyUnrepresentedXSIDs", no_relabel)),
        ("XSSettings.__getitem__ inherits from any group of the type", lambda: P(xss.XSSettings, "__getitem__", settings_inherit_any)),
        ("getXSTypeNumberFromLabel adds the character codes (collisions)", lambda: P(xsgm, "getXSTypeNumberFromLabel", number_sum)),
        ("getXSTypeLabelFromNumber drops the second letter", lambda: P(xsgm, "getXSTypeLabelFromNumber", label_first_only)),
        ("Block.getMicroSuffix ignores the environment group", lambda: P(blocksmod.Block, "getMicroSuffix", suffix_no_env)),
        ("_addXsGroupsFromBlocks drops the third block of a group", lambda: P(MGR, "_addXsGroupsFromBlocks", group_first_wins)),
    ]
    try:
        return run_mutants(mutants, detect)
    finally:
        _SELFTEST = False
