"""C07 -- grid indices, ring/position, labels, locators and coordinates are consistent bijections.

Four specifications under spec/grid (all checked exhaustively by TLC, then bound to the real code):

  hex     HexLattice(_mc)   walk over all cells within N rings x 2 orientations + counting cases
  cart    CartLattice(_mc)  walk over all cells within R rings x 2 centre variants + counting cases
  nested  Nested(_mc)       every nesting of 5 grid kinds up to three deep on real Composite objects
  reduce  Reduce(_mc)       one grid object (built from floats, from ints, or by the constructor with int unit steps):
                            changePitch / offset / backUp / restoreBackup / rebuild-from-reduce() histories, a reduce()
                            tuple and a twin grid taken earlier must stay untouched; incl. axial and theta-R-Z bounds grids

For every part: (1) exhaustive TLC run of the invariants; (2) emission run (one JSON line per explored edge and per
distinct state, expected observations evaluated by TLC); (3) every edge (s, a, t) is executed on the real armi
objects as path(s);a and the complete observation of t is compared field by field.  The adapters only build,
apply, read and compare -- every expected value is a number/string printed by the specification.  Exact
coordinates of the specs (integers in lattice units resp. a + b*sqrt(3) in units of 0.01 cm) are turned into cm
by the unit conversions below; nothing else is computed here.
"""
import json
import math
import os
import random
import subprocess
import time
from concurrent.futures import ThreadPoolExecutor

from harness import common, tlc
from harness import replay as rp
from harness.armi_env import armi_ready

MODDIR = os.path.join(common.SPEC, "grid")

# ---- tolerances (constants of the adapters) -------------------------------------------------------------------
RTOL = 1e-9  # coordinates are a handful of double operations (dot product, sum of <= 4 nested offsets)
ATOL_REL = 1e-9  # absolute part = ATOL_REL * (largest length scale of the case): sums that cancel to zero
U = 0.01  # cm per length unit of GridGeom-based specs (Nested, Reduce)
SQRT3 = math.sqrt(3.0)
EIGHTH = math.pi / 4.0  # angle unit of theta-R-Z bounds


def near(a, b, scale):
    a, b = float(a), float(b)
    return abs(a - b) <= RTOL * max(abs(a), abs(b)) + ATOL_REL * scale


def vec_near(exp, got, scale):
    try:
        got = [float(x) for x in got]
    except Exception:
        return False
    return len(exp) == len(got) and all(near(a, b, scale) for a, b in zip(exp, got))


def ints(seq):
    """numpy integers -> python ints (anything else is left alone so a wrong type shows up in the comparison)"""
    out = []
    for x in seq:
        try:
            out.append(int(x) if float(x) == int(x) else x)
        except Exception:
            out.append(x)
    return out


def call(f, *a, **k):
    """value or the name of the exception class (refusals are part of the observation)"""
    try:
        return f(*a, **k)
    except (ValueError, IndexError, NotImplementedError, TypeError, KeyError, AttributeError, ZeroDivisionError) as ex:
        return type(ex).__name__


class Cmp:
    """collects (field, message) differences of one observation"""

    def __init__(self):
        self.d = []

    def eq(self, field, exp, *gots):
        for k, got in enumerate(gots):
            if isinstance(got, tuple):
                got = list(got)
            if isinstance(got, list):
                got = _plain(got)
            if got != exp or (isinstance(exp, bool) != isinstance(got, bool)):
                self.d.append((field, "expected %r, observed %r (source %d)" % (exp, got, k)))
                return

    def vec(self, field, exp, scale, *gots):
        for k, got in enumerate(gots):
            if isinstance(got, str) or not vec_near(exp, got, scale):
                self.d.append((field, "expected %r, observed %r (source %d)" % (exp, _plain(got), k)))
                return

    def num(self, field, exp, scale, *gots):
        for k, got in enumerate(gots):
            if isinstance(got, str) or not near(exp, got, scale):
                self.d.append((field, "expected %r, observed %r (source %d)" % (exp, got, k)))
                return

    def true(self, field, cond, msg):
        if not cond:
            self.d.append((field, msg))


def _plain(x):
    if isinstance(x, (list, tuple)):
        return [_plain(v) for v in x]
    if hasattr(x, "tolist"):
        return _plain(x.tolist())
    if isinstance(x, bool) or x is None or isinstance(x, str):
        return x
    try:
        f = float(x)
        return int(f) if f == int(f) and not isinstance(x, float) else f
    except Exception:
        return repr(x)


# ------------------------------------------------------------------------------------------------------------
# hex lattice
# ------------------------------------------------------------------------------------------------------------
class HexAdapter:
    part = "hex"
    module = "HexLattice_mc"
    actions = ("Step", "Advance", "BadPosAny", "Count")
    # (pitch cm, offset cm): fromPitch() where there is no offset, the plain constructor otherwise
    VARIANTS = [(1.0, None), (16.79, (0.5, -2.25, 3.0)), (0.3, (100.0, 0.0, -7.0))]

    def __init__(self):
        armi_ready()
        from armi.reactor import grids
        from armi.utils import hexagon

        self.grids, self.hexagon = grids, hexagon

    def unit(self, name, pitch):
        return {"halfpitch": pitch / 2.0, "halfside": pitch / (2.0 * SQRT3)}[name]

    def build(self, root):
        HexGrid = self.grids.HexGrid
        corners = root["o"] == "corners"
        gs = []
        for pitch, off in self.VARIANTS:
            if off is None:
                g = HexGrid.fromPitch(pitch, numRings=3, cornersUp=corners)
            else:
                g = HexGrid(unitSteps=HexGrid._getRawUnitSteps(pitch, corners),
                            unitStepLimits=((-3, 3), (-3, 3), (0, 1)), offset=off)
            gs.append((g, pitch, off or (0.0, 0.0, 0.0)))
        return {"o": root["o"], "gs": gs, "c": tuple(root["c"]), "n": root["n"], "err": ""}

    def apply(self, w, a):
        w["err"] = ""
        i, j = w["c"]
        n = a["n"]
        if n == "Step":
            res = {tuple(ints(g.getNeighboringCellIndices(i, j, 0)[a["d"] - 1][:2])) for g, _, _ in w["gs"]}
            w["c"] = res.pop() if len(res) == 1 else ("grids disagree", sorted(map(str, res)))
        elif n == "Advance":
            res = set()
            for g, _, _ in w["gs"]:
                r, p = g.getRingPos((i, j))
                nxt = (r, p + 1) if p < g.getPositionsInRing(r) else (r + 1, 1)
                res.add(tuple(ints(g.getIndicesFromRingAndPos(*nxt))))
                res.add(tuple(ints(g.getLocatorFromRingAndPos(nxt[0], nxt[1]).indices[:2])))
            w["c"] = res.pop() if len(res) == 1 else ("grids disagree", sorted(map(str, res)))
        elif n == "BadPos":
            g = w["gs"][0][0]
            nloc = len(g)
            r1 = call(g.getIndicesFromRingAndPos, a["r"], a["p"])
            r2 = call(g.getLocatorFromRingAndPos, a["r"], a["p"])
            w["err"] = r1 if isinstance(r1, str) and r1 == r2 else "no refusal: %r / %r" % (r1, r2)
            if len(g) != nloc:
                w["err"] += " (grid gained a location)"
        elif n == "Count":
            w["n"] += 1
        else:
            raise AssertionError(n)

    def state(self, w):
        return {"o": w["o"], "c": list(w["c"]), "n": w["n"]}

    def check(self, w, exp):
        c = Cmp()
        hexagon, grids = self.hexagon, self.grids
        if "count" in exp:
            n = exp["count"]["n"]
            g = w["gs"][0][0]
            c.eq("count.rings", exp["count"]["rings"], hexagon.numRingsToHoldNumCells(n), g.getMinimumRings(n),
                 grids.HexGrid.getMinimumRings(n))
            return c.d
        e = exp["cell"]
        i, j = w["c"]
        k = e["k"]
        for g, pitch, off in w["gs"]:
            loc = g[i, j, k]
            rp_real = call(g.getRingPos, (i, j))
            c.eq("ring", e["ring"], *[x[0] if not isinstance(x, str) else x for x in (
                rp_real, call(g.getRingPos, (i, j, k)), call(grids.HexGrid.indicesToRingPos, i, j), call(loc.getRingPos))])
            c.eq("pos", e["pos"], *[x[1] if not isinstance(x, str) else x for x in (
                rp_real, call(g.getRingPos, (i, j, k)), call(grids.HexGrid.indicesToRingPos, i, j), call(loc.getRingPos))])
            c.eq("inring", e["inring"], call(g.getPositionsInRing, e["ring"]), call(hexagon.numPositionsInRing, e["ring"]))
            c.eq("upto", e["upto"], call(hexagon.totalPositionsUpToRing, e["ring"]))
            nb = g.getNeighboringCellIndices(i, j, k)
            c.eq("nb", e["nb"], [ints(x[:2]) for x in nb])
            c.true("nb", all(x[2] == k for x in nb), "neighbours do not keep the axial index")
            # routes back to the indices: (ring,pos) -> indices, label -> numbers -> indices, locator
            lab2, lab3 = call(g.getLabel, (i, j)), call(g.getLabel, (i, j, k))
            c.eq("label2", e["label2"], lab2)
            c.eq("label3", e["label3"], lab3)
            n2, n3 = call(grids.locatorLabelToIndices, e["label2"]), call(grids.locatorLabelToIndices, e["label3"])
            c.eq("nums2", e["nums2"] + [None], n2)
            c.eq("nums3", e["nums3"], n3)
            routes = [call(g.getIndicesFromRingAndPos, e["ring"], e["pos"])]
            if not isinstance(n3, str):
                routes.append(call(g.getIndicesFromRingAndPos, n3[0], n3[1]))
            lrp = call(g.getLocatorFromRingAndPos, e["ring"], e["pos"], k)
            routes.append(lrp if isinstance(lrp, str) else lrp.indices[:2])
            c.eq("c", e["c"], *[r if isinstance(r, str) else ints(r) for r in routes])
            # the locator object
            c.eq("loc", e["loc"], ints((loc.i, loc.j, loc.k)), ints(loc.indices), ints(call(loc.getCompleteIndices)))
            c.true("loc", loc.grid is g and g[i, j, k] is loc and lrp is loc and loc == (i, j, k),
                   "grid[i,j,k] / getLocatorFromRingAndPos do not give one locator object per cell")
            # coordinates: lattice integer x unit + offset
            ux, uy = self.unit(e["xu"], pitch), self.unit(e["yu"], pitch)
            centre = [e["xy"][0] * ux + off[0], e["xy"][1] * uy + off[1], off[2]]
            base = [e["base2"][0] * ux / 2.0 + off[0], e["base2"][1] * uy / 2.0 + off[1], off[2]]
            top = [e["top2"][0] * ux / 2.0 + off[0], e["top2"][1] * uy / 2.0 + off[1], off[2]]
            scale = pitch * (1 + abs(i) + abs(j)) + max(abs(x) for x in off)
            c.vec("xy", centre, scale, call(g.getCoordinates, (i, j, k)), call(g.getCoordinates, (i, j, 0)),
                  call(loc.getLocalCoordinates), call(loc.getGlobalCoordinates))
            c.vec("base2", base, scale, call(g.getCellBase, (i, j, k)), call(loc.getGlobalCellBase))
            c.vec("top2", top, scale, call(g.getCellTop, (i, j, k)), call(loc.getGlobalCellTop))
            xyz = call(g.getCoordinates, (i, j, k))
            if not isinstance(xyz, str):
                d2 = (xyz[0] - off[0]) ** 2 + (xyz[1] - off[1]) ** 2
                c.num("d2", e["d2"] * (pitch / (2.0 * SQRT3)) ** 2, scale * scale, d2)
            c.num("pitch", pitch, pitch, g.pitch)
            c.eq("orientation", w["o"] == "corners", bool(g.cornersUp))
        return c.d


# ------------------------------------------------------------------------------------------------------------
# Cartesian lattice
# ------------------------------------------------------------------------------------------------------------
class CartAdapter:
    part = "cart"
    module = "CartLattice_mc"
    actions = ("Step", "NoInverse", "Count")
    VARIANTS = [(1.0, 1.0), (21.0, 21.4), (0.126, 0.3)]

    def __init__(self):
        armi_ready()
        from armi.reactor import grids

        self.grids = grids

    def build(self, root):
        gs = [(self.grids.CartesianGrid.fromRectangle(wd, ht, numRings=3, isOffset=(root["v"] == "offset")), wd, ht)
              for wd, ht in self.VARIANTS]
        return {"v": root["v"], "gs": gs, "c": tuple(root["c"]), "n": root["n"], "err": ""}

    def apply(self, w, a):
        w["err"] = ""
        i, j = w["c"]
        n = a["n"]
        if n == "Step":
            res = {tuple(ints(g.getNeighboringCellIndices(i, j, 0)[a["d"] - 1][:2])) for g, _, _ in w["gs"]}
            w["c"] = res.pop() if len(res) == 1 else ("grids disagree", sorted(map(str, res)))
        elif n == "NoInverse":
            g = w["gs"][0][0]
            r1 = call(g.getIndicesFromRingAndPos, a["r"], a["p"])
            r2 = call(g.getLocatorFromRingAndPos, a["r"], a["p"])
            w["err"] = r1 if isinstance(r1, str) and r1 == r2 else "no refusal: %r / %r" % (r1, r2)
        elif n == "Count":
            w["n"] += 1
        else:
            raise AssertionError(n)

    def state(self, w):
        return {"v": w["v"], "c": list(w["c"]), "n": w["n"]}

    def check(self, w, exp):
        c = Cmp()
        grids = self.grids
        n = exp["count"]["n"]
        c.eq("count.rings", exp["count"]["rings"], *[call(g.getMinimumRings, n) for g, _, _ in w["gs"]])
        if w["n"] != 1:
            return c.d
        e = exp["cell"]
        i, j = w["c"]
        k = e["loc"][2]
        for g, wd, ht in w["gs"]:
            loc = g[i, j, k]
            rps = [call(g.getRingPos, (i, j)), call(g.getRingPos, (i, j, k)), call(loc.getRingPos)]
            c.eq("ring", e["ring"], *[x if isinstance(x, str) else x[0] for x in rps])
            c.eq("pos", e["pos"], *[x if isinstance(x, str) else x[1] for x in rps])
            c.true("ring", all(isinstance(x, str) or (type(x[0]) is int and type(x[1]) is int) for x in rps),
                   "ring/position are not python ints: %r" % (rps,))
            c.eq("inring", e["inring"], call(g.getPositionsInRing, e["ring"]))
            nb = g.getNeighboringCellIndices(i, j, k)
            c.eq("nb", e["nb"], [ints(x[:2]) for x in nb])
            c.eq("label2", e["label2"], call(g.getLabel, (i, j)))
            c.eq("label3", e["label3"], call(g.getLabel, (i, j, k)))
            c.eq("nums2", e["nums2"] + [None], call(grids.locatorLabelToIndices, e["label2"]))
            c.eq("nums3", e["nums3"], call(grids.locatorLabelToIndices, e["label3"]))
            c.eq("loc", e["loc"], ints((loc.i, loc.j, loc.k)), ints(loc.indices), ints(call(loc.getCompleteIndices)))
            c.true("loc", loc.grid is g and g[i, j, k] is loc and loc == (i, j, k), "grid[i,j,k] is not one locator per cell")
            scale = max(wd, ht) * (2 + abs(i) + abs(j))
            hx, hy = wd / 2.0, ht / 2.0  # half-cell units of CartLattice
            c.vec("centre", [e["centre"][0] * hx, e["centre"][1] * hy, 0.0], scale, call(g.getCoordinates, (i, j, k)),
                  call(loc.getLocalCoordinates), call(loc.getGlobalCoordinates))
            c.vec("base", [e["base"][0] * hx, e["base"][1] * hy, 0.0], scale, call(g.getCellBase, (i, j, k)),
                  call(loc.getGlobalCellBase))
            c.vec("top", [e["top"][0] * hx, e["top"][1] * hy, 0.0], scale, call(g.getCellTop, (i, j, k)),
                  call(loc.getGlobalCellTop))
            c.vec("pitch", [wd, ht], scale, call(lambda: g.pitch))
        return c.d


# ------------------------------------------------------------------------------------------------------------
# grid objects described by GridGeom records (Nested, Reduce)
# ------------------------------------------------------------------------------------------------------------
def qv(q):
    """a + b*sqrt(3) in units U -> cm"""
    return (q[0] + q[1] * SQRT3) * U


def vec_cm(v3):
    return [qv(q) for q in v3]


def _whole_cm(units):
    cm = units * U
    assert abs(cm - round(cm)) < 1e-12, "construction with ints needs a whole number of cm: %r units" % units
    return int(round(cm))


def make_grid(grids, d, armi_object=None):
    """the real grid a GridGeom descriptor denotes (factories of the public API).  d["how"] is the construction route:
    "factory" = float arguments, "ints" = the same factory called with python ints, "ctor" = the class constructor
    with whole-number unit steps given as python ints (an integer numpy array inside the grid)."""
    import numpy as np

    how = d.get("how", "factory")
    off = [x * U for x in d["off"]]
    if d["kind"] == "hex":
        pitch = _whole_cm(d["p"][0]) if how == "ints" else d["p"][0] * U
        g = grids.HexGrid.fromPitch(pitch, numRings=d["rings"], armiObject=armi_object,
                                    cornersUp=(d["var"] == "corners"), symmetry=d["sym"])
        if any(off):
            g.offset = np.array(off)
    elif d["kind"] == "cart" and how == "ctor":
        wd, ht, r = _whole_cm(d["p"][0]), _whole_cm(d["p"][1]), d["rings"]
        offset = None
        if d["var"] == "offset":  # what fromRectangle(isOffset=True) passes, as ints where they are whole
            offset = tuple(int(x) if float(x) == int(x) else x for x in (wd / 2.0, ht / 2.0, 0.0))
        g = grids.CartesianGrid(unitSteps=((wd, 0, 0), (0, ht, 0), (0, 0, 0)), unitStepLimits=((-r, r), (-r, r), (0, 1)),
                                offset=offset, symmetry=d["sym"], armiObject=armi_object)
    elif d["kind"] == "cart":
        wd, ht = (_whole_cm(d["p"][0]), _whole_cm(d["p"][1])) if how == "ints" else (d["p"][0] * U, d["p"][1] * U)
        g = grids.CartesianGrid.fromRectangle(wd, ht, numRings=d["rings"], symmetry=d["sym"],
                                              isOffset=(d["var"] == "offset"), armiObject=armi_object)
    elif d["kind"] == "ax" and d["var"] == "unit":
        g = grids.AxialGrid.fromNCells(len(d["zb"]) - 1, armiObject=armi_object)  # the public factory: 1 cm cells
        if any(off):
            g.offset = np.array(off)
    elif d["kind"] == "ax":
        g = grids.AxialGrid(bounds=(None, None, np.array([z * U for z in d["zb"]], dtype=np.float64)),
                            armiObject=armi_object, offset=off if any(off) else None)
    elif d["kind"] == "trz":
        g = grids.ThetaRZGrid(bounds=(np.array([t * EIGHTH for t in d["tb"]]), np.array([r * U for r in d["rb"]]),
                                      np.array([z * U for z in d["zb"]])),
                              armiObject=armi_object, offset=off if any(off) else None)
    else:
        raise AssertionError(d["kind"])
    if d["geom"]:
        g.geomType = d["geom"]
    return g


def grid_scale(d):
    s = max([abs(x) for x in d["p"]] + [abs(x) for x in d["off"]] + [abs(x) for x in d["zb"]] + [abs(x) for x in d["rb"]] + [1])
    return s * U * 8


class NestedAdapter:
    part = "nested"
    module = "Nested_mc"
    actions = ("Descend", "MoveAny", "Ascend", "BadIndex")
    # BadIndex asks the innermost AXIAL grid for a negative index (theta-R-Z is never innermost below level 1 ... it can
    # be innermost at depth 1, where the spec does not enable BadIndex because its kind is "trz")

    def __init__(self):
        armi_ready()
        from armi.reactor import composites, grids

        self.grids, self.composites = grids, composites

    def build(self, root):
        assert root["chain"] == []
        C = self.composites.Composite
        reactor, core = C("reactor"), C("core")
        if root["rooted"]:
            reactor.add(core)
        core.spatialLocator = self.grids.CoordinateLocation(*vec_cm(root["coreAt"]), None)
        return {"reactor": reactor, "objs": [core], "grids": [], "desc": [], "err": ""}

    def apply(self, w, a):
        w["err"] = ""
        n = a["n"]
        if n == "Descend":
            owner = w["objs"][-1]
            g = make_grid(self.grids, a["grid"], owner)
            owner.spatialGrid = g
            child = self.composites.Composite("o%d" % len(w["objs"]))
            owner.add(child)
            child.spatialLocator = g[tuple(a["idx"])]
            w["objs"].append(child)
            w["grids"].append(g)
            w["desc"].append(a["grid"])
        elif n == "Move":
            w["objs"][a["l"]].moveTo(w["grids"][a["l"] - 1][tuple(a["idx"])])
        elif n == "Ascend":
            child = w["objs"].pop()
            w["objs"][-1].remove(child)
            w["objs"][-1].spatialGrid = None
            w["grids"].pop()
            w["desc"].pop()
        elif n == "BadIndex":
            g = w["grids"][-1]
            r = [call(g.getCoordinates, (0, 0, -1)), call(g.getCellBase, (0, 0, -1)), call(g.getCellTop, (0, 0, -2))]
            w["err"] = r[0] if all(isinstance(x, str) and x == r[0] for x in r) else "no refusal: %r" % (_plain(r),)
        else:
            raise AssertionError(n)

    def state(self, w):
        return {"depth": len(w["grids"])}

    def check(self, w, exp):
        c = Cmp()
        lv = exp["levels"]
        c.eq("depth", len(lv), len(w["grids"]))
        if len(lv) != len(w["grids"]):
            return c.d
        scale = sum(grid_scale(d) for d in w["desc"]) + 20.0
        for l, e in enumerate(lv, start=1):
            f = "levels.%s" % ("%d" % l)
            obj, g = w["objs"][l], w["grids"][l - 1]
            loc = obj.spatialLocator
            c.true(f + ".idx", loc.grid is g and g.armiObject is w["objs"][l - 1], "locator / grid / owner links are broken")
            c.eq(f + ".parented", e["parented"], loc.parentLocation is not None)
            c.true(f + ".parented", loc.parentLocation is None or loc.parentLocation is w["objs"][l - 1].spatialLocator,
                   "parentLocation is not the locator of the grid's owner")
            c.eq(f + ".idx", e["idx"], ints((loc.i, loc.j, loc.k)))
            c.vec(f + ".local", vec_cm(e["local"]), scale, call(loc.getLocalCoordinates), call(g.getCoordinates, tuple(e["idx"])),
                  call(loc.getLocalCoordinates, nativeCoords=False))
            c.vec(f + ".global", vec_cm(e["global"]), scale, call(loc.getGlobalCoordinates))
            ang = lambda v3, a: [v3[0] + a * EIGHTH, v3[1], v3[2]]  # noqa: E731  angle part of theta-R-Z native vectors
            c.vec(f + ".gnative", ang(vec_cm(e["gnative"]), e["gnativeAng"]), scale,
                  call(loc.getGlobalCoordinates, nativeCoords=True), call(loc.getGlobalCoordinates, True))
            c.vec(f + ".gbase", ang(vec_cm(e["gbase"]), e["gbaseAng"]), scale, call(loc.getGlobalCellBase))
            c.vec(f + ".gtop", ang(vec_cm(e["gtop"]), e["gtopAng"]), scale, call(loc.getGlobalCellTop))
            ci = call(loc.getCompleteIndices)
            c.eq(f + ".complete", e["complete"], ci if isinstance(ci, str) else ints(ci))
            rpos = call(loc.getRingPos)
            c.eq(f + ".ringpos", e["ringpos"], [] if rpos == "ValueError" else (rpos if isinstance(rpos, str) else ints(rpos)))
            pl = loc.parentLocation
            c.eq(f + ".addvalid", e["addvalid"],
                 bool(pl is not None and pl.grid is not None and self.grids.addingIsValid(loc.grid, pl.grid)))
            c.eq(f + ".axial", e["axial"], bool(g.isAxialOnly))
            c.eq(f + ".label", e["label"], call(g.getLabel, tuple(e["idx"])))
        return c.d


KIND_CLASS = {"hex": "HexGrid", "cart": "CartesianGrid", "ax": "AxialGrid", "trz": "ThetaRZGrid"}


class ReduceAdapter:
    part = "reduce"
    module = "Reduce_mc"
    actions = ("ChangePitch", "SetOffset", "BackUp", "RestoreBackup", "Snapshot", "Rebuild", "NoPitch")

    def __init__(self):
        armi_ready()
        from armi.reactor import grids

        self.grids = grids

    def build(self, root):
        assert root["stack"] == [] and root["taken"] == []
        return {"g": make_grid(self.grids, root["g"]), "d": root["g"], "taken": None, "err": ""}

    def apply(self, w, a):
        import numpy as np

        w["err"] = ""
        g = w["g"]
        n = a["n"]
        if n == "ChangePitch":
            if w["d"]["kind"] == "hex":
                g.changePitch(a["p"][0] * U)
            else:
                g.changePitch(a["p"][0] * U, a["p"][1] * U)
        elif n == "SetOffset":
            g.offset = np.array([x * U for x in a["off"]])
        elif n == "BackUp":
            g.backUp()
        elif n == "RestoreBackup":
            g.restoreBackup()
        elif n == "Snapshot":
            args = g.reduce()
            w["taken"] = (type(g), args, type(g)(*args))  # the stored tuple and a twin built from it
        elif n == "Rebuild":
            args = g.reduce()
            new = type(g)(*args)
            again = new.reduce()
            if _plain_args(again) != _plain_args(args):
                w["err"] = "reduce() of the rebuilt grid differs from the arguments it was built from"
            hash(args)  # documented: "The return value should be hashable"
            w["g"] = new
        elif n == "NoPitch":
            r = call(lambda: g.pitch())
            w["err"] = r if isinstance(r, str) else "no refusal: %r" % (r,)
        else:
            raise AssertionError(n)

    def state(self, w):
        return {}

    def check(self, w, exp):
        c = Cmp()
        self.check_grid(c, w["g"], exp["grid"], "")
        c.eq("taken", len(exp["taken"]), 0 if w["taken"] is None else 1)
        if exp["taken"] and w["taken"] is not None:
            cls, args, twin = w["taken"]
            # state taken earlier must still describe the grid as it was then
            self.check_grid(c, twin, exp["taken"][0], "taken.twin.")
            self.check_grid(c, cls(*args), exp["taken"][0], "taken.args.")
        return c.d

    def check_grid(self, c, g, e, pre):
        kind = e["kind"]
        scale = max([abs(x) for x in e["pitch"]] + [abs(x) for x in e["offset"]] + [1] +
                    [abs(x) for b in e["bounds"] for x in b]) * U * 8
        c.eq(pre + "kind", KIND_CLASS[kind], type(g).__name__)
        red = g.reduce()
        if kind == "hex":
            c.eq(pre + "var", e["var"], "corners" if g.cornersUp else "flats")
            c.num(pre + "pitch", e["pitch"][0] * U, scale, call(lambda: g.pitch))
        elif kind == "cart":
            c.eq(pre + "var", e["var"], "centred" if g._isThroughCenter() else "offset")
            c.vec(pre + "pitch", [x * U for x in e["pitch"]], scale, call(lambda: g.pitch))
        c.vec(pre + "offset", [x * U for x in e["offset"]], scale, g.offset)
        c.eq(pre + "reducedOffsetIsNone", e["reducedOffsetIsNone"], red.offset is None)
        if red.offset is not None:
            c.vec(pre + "offset", [x * U for x in e["offset"]], scale, red.offset)
        ang = [EIGHTH if kind == "trz" else U, U, U]
        for dim, (eb, gb, rb) in enumerate(zip(e["bounds"], g.getBounds(), red.bounds)):
            if not eb:
                c.true(pre + "bounds", gb is None and rb is None, "dimension %d should be step-defined" % dim)
            else:
                c.vec(pre + "bounds", [x * ang[dim] for x in eb], scale, gb, rb)
        c.eq(pre + "limits", e["limits"], [ints(x) for x in g.getIndexBounds()])
        c.eq(pre + "nloc", e["nloc"], len(g))
        c.eq(pre + "sym", e["sym"], red.symmetry, g._symmetry)
        c.eq(pre + "geom", e["geom"], red.geomType, g._geomType)
        if e["sym"]:
            c.eq(pre + "sym", e["sym"], str(g.symmetry))
        if e["geom"]:
            c.eq(pre + "geom", e["geom"], str(g.geomType))
        c.eq(pre + "axial", e["axial"], bool(g.isAxialOnly))
        for t, ce in enumerate(e["cells"]):
            idx = tuple(ce["idx"])
            f = pre + "cells.%d" % t
            loc = g[idx]
            conv = (lambda v3: [v3[0][0] * EIGHTH, qv(v3[1]), qv(v3[2])]) if kind == "trz" else vec_cm
            c.vec(f + ".centre", conv(ce["centre"]), scale, call(g.getCoordinates, idx, nativeCoords=True),
                  call(loc.getLocalCoordinates, nativeCoords=True))
            c.vec(f + ".xyz", vec_cm(ce["xyz"]), scale, call(g.getCoordinates, idx), call(loc.getGlobalCoordinates))
            c.vec(f + ".base", conv(ce["base"]), scale, call(g.getCellBase, idx), call(loc.getGlobalCellBase))
            c.vec(f + ".top", conv(ce["top"]), scale, call(g.getCellTop, idx), call(loc.getGlobalCellTop))
            rpos = call(g.getRingPos, idx)
            c.eq(f + ".rp", ce["rp"], [] if rpos == "ValueError" else (rpos if isinstance(rpos, str) else ints(rpos)))
            c.eq(f + ".label", ce["label"], call(g.getLabel, idx))
            c.eq(f + ".nums", ce["nums"], call(self.grids.locatorLabelToIndices, ce["label"]))
            c.eq(f + ".idx", ce["idx"], ints(loc.indices), ints(call(loc.getCompleteIndices)))
            if kind in ("hex", "trz"):
                back = call(g.getIndicesFromRingAndPos, *ce["rp"])
                c.eq(f + ".rp", ce["idx"][:2], back if isinstance(back, str) else ints(back))


class ReduceStackAdapter(ReduceAdapter):
    """thorough only: the smaller pitch set with a backUp stack of depth 2 (nested backUp/restoreBackup)"""
    part = "reduce2"


def _plain_args(args):
    return json.dumps(_plain(list(args)), sort_keys=True)


ADAPTERS = {"hex": HexAdapter, "cart": CartAdapter, "nested": NestedAdapter, "reduce": ReduceAdapter,
            "reduce2": ReduceStackAdapter}
CFG = {  # part -> (exhaustive cfg, emission cfg) per tier
    "quick": {"hex": ("HexLattice_mc.cfg", "HexLattice_emit.cfg"), "cart": ("CartLattice_mc.cfg", "CartLattice_emit.cfg"),
              "nested": ("Nested_mc.cfg", "Nested_emit.cfg"), "reduce": ("Reduce_mc.cfg", "Reduce_emit.cfg")},
    "thorough": {"hex": ("HexLattice_mc_thorough.cfg", "HexLattice_emit_thorough.cfg"),
                 "cart": ("CartLattice_mc_thorough.cfg", "CartLattice_emit_thorough.cfg"),
                 "nested": ("Nested_mc_thorough.cfg", "Nested_emit_thorough.cfg"),
                 "reduce": ("Reduce_mc_thorough.cfg", "Reduce_emit_thorough.cfg"),
                 "reduce2": ("Reduce_mc_stack2.cfg", "Reduce_emit_stack2.cfg")},
}
PARTS = {"quick": ["hex", "cart", "nested", "reduce"], "thorough": ["hex", "cart", "nested", "reduce", "reduce2"]}
MAX_EDGES = {"quick": {"hex": None, "cart": None, "nested": 8000, "reduce": 6000},
             "thorough": {"hex": None, "cart": None, "nested": 40000, "reduce": None, "reduce2": 20000}}


# ------------------------------------------------------------------------------------------------------------
# engine: emitted graph -> real executions
# ------------------------------------------------------------------------------------------------------------
def load_graph(eres):
    obs = {rp.skey(p["st"]): p["obs"] for p in eres.prints if isinstance(p, dict) and "st" in p}
    edges = [p for p in eres.prints if isinstance(p, dict) and "act" in p]
    for e in edges:
        e["obs"] = obs.get(rp.skey(e["to"]))
    edges = [e for e in edges if e["obs"] is not None]
    return rp.Graph(edges), obs


def violation_key(part, act, field, world_state, exp, msg):
    import re

    raw = field
    field = re.sub(r"\.\d+", "", field)
    # one input class / call site: locatorLabelToIndices on a Cartesian label that contains a negative index
    # (fixed in /repo by 37a4095; the key stays so that a regression maps to the recorded finding)
    if part == "cart" and field in ("nums2", "nums3") and "ValueError" in msg and min(exp["cell"]["c"]) < 0:
        return "replay:cart:label-to-indices:negative-index"
    if (part.startswith("reduce") and raw.endswith(".nums") and "ValueError" in msg and exp["grid"]["kind"] == "cart"
            and re.search(r"expected \[[^\]]*-\d", msg)):
        return "replay:cart:label-to-indices:negative-index"
    return "replay:%s:%s:%s" % (part, act, field)


def replay_part(ad, graph, obs, max_edges=None, rng=None, stop_after=40):
    """Every root state, then every edge (s,a,t) as path(s);a on fresh real objects.  Returns (n, nontrivial, divs)."""
    divs = []
    n = nontrivial = 0

    def run(root, steps, exp, err_exp):
        """the real code raising where the specification has a successful step is a divergence, not a harness failure
        (AssertionError is reserved for the harness' own sanity checks)"""
        w = ad.build(root)
        last = {"n": "Init"}
        try:
            for s in steps:
                last = s["act"]
                ad.apply(w, s["act"])
        except AssertionError:
            raise
        except Exception as ex:
            return w, last, [("raised", "real code raised %s: %s" % (type(ex).__name__, str(ex)[:200]))]
        out = []
        if err_exp is not None and w["err"] != err_exp:
            out.append(("err", "expected refusal %r, observed %r" % (err_exp, w["err"])))
        try:
            out += ad.check(w, exp)
        except AssertionError:
            raise
        except Exception as ex:
            out.append(("raised", "real code raised %s while being observed: %s" % (type(ex).__name__, str(ex)[:200])))
        return w, last, out

    for fk, e in graph.roots.items():
        w, last, out = run(e["from"], [], obs[fk], None)
        n += 1
        for field, msg in out:
            divs.append({"part": ad.part, "action": last, "field": field, "message": msg, "root": e["from"],
                         "behaviour": [], "expected": obs[fk], "key": violation_key(ad.part, "Init", field, None, obs[fk], msg)})
    edges = graph.edges
    if max_edges is not None and len(edges) > max_edges:
        edges = (rng or random.Random(0)).sample(edges, max_edges)
    for e in edges:
        pre = graph.path.get(e["_fk"])
        if pre is None:
            continue
        root = pre[0]["from"] if pre else e["from"]
        w, last, out = run(root, pre + [e], e["obs"], e["err"])
        n += 1
        if e["_fk"] != e["_tk"]:
            nontrivial += 1
        for field, msg in out:
            divs.append({"part": ad.part, "action": e["act"], "field": field, "message": msg, "root": root,
                         "behaviour": [s["act"] for s in pre] + [e["act"]], "expected": e["obs"], "expected_err": e["err"],
                         "key": violation_key(ad.part, e["act"]["n"], field, None, e["obs"], msg)})
        if len({d["key"] for d in divs}) >= stop_after:
            break
    return n, nontrivial, divs


def run_tlc_jobs(tier, parts):
    """the exhaustive and the emission run of every part, concurrently (independent JVMs)"""
    jobs = {}
    with ThreadPoolExecutor(max_workers=4) as ex:
        for part in parts:
            ad = ADAPTERS[part]
            mc, em = CFG[tier][part]
            jobs[(part, "mc")] = ex.submit(tlc.run, ad.module, mc, MODDIR, workers=4, want_prints=False, timeout=3000)
            jobs[(part, "emit")] = ex.submit(tlc.run, ad.module, em, MODDIR, workers=1, coverage=False, timeout=3000)
    return {k: f.result() for k, f in jobs.items()}


# ------------------------------------------------------------------------------------------------------------
# unbounded stage (thorough only): Apalache proves IndInv of HexSpiral inductive, i.e. the closed forms of HexCore
# (the operators TLC evaluates in HexLattice_mc and the replay binds to the real code) agree with the walk around
# the rings for EVERY ring.  Not finishing (timeout / OOM / tool missing) is recorded as "not completed" and is
# neither a violation nor a machinery failure.
# ------------------------------------------------------------------------------------------------------------
APALACHE_TIMEOUT = 600
APALACHE_JOBS = [
    ("base", "Init => IndInv", ["--init=Init", "--inv=IndInv", "--length=0"]),
    ("step", "IndInv /\\ Next => IndInv'", ["--init=IndInit", "--inv=IndInv", "--length=1"]),
    ("progress", "IndInv => the closed-form successor is a SpiralStep (the walk never sticks)",
     ["--init=IndInit", "--inv=Progress", "--length=0"]),
]


def _itf_int(v):
    return int(v["#bigint"]) if isinstance(v, dict) else int(v)


def run_apalache():
    wd = common.workdir("apalache")
    tlc.stage(MODDIR, wd)
    out = []
    for name, claim, args in APALACHE_JOBS:
        odir = os.path.join(wd, "out-" + name)
        cmd = ["timeout", str(APALACHE_TIMEOUT), "apalache-mc", "check"] + args + ["--out-dir=" + odir, "HexSpiral_apa.tla"]
        shown = "apalache-mc check %s HexSpiral_apa.tla   (in spec/grid, under timeout %d)" % (" ".join(args), APALACHE_TIMEOUT)
        t0 = time.time()
        try:
            p = subprocess.run(cmd, cwd=wd, stdout=subprocess.PIPE, stderr=subprocess.STDOUT, timeout=APALACHE_TIMEOUT + 60)
            text, rc = p.stdout.decode("utf-8", "replace"), p.returncode
        except (OSError, subprocess.TimeoutExpired) as ex:
            text, rc = "%s: %s" % (type(ex).__name__, ex), -1
        r = {"name": name, "claim": claim, "command": shown, "rc": rc, "wall_s": round(time.time() - t0, 1)}
        if rc == 0 and "The outcome is: NoError" in text:
            r["outcome"] = "proved"
        elif "The outcome is: Error" in text and "invariant" in text and "violated" in text:
            r["outcome"] = "counterexample"
            r["states"] = []
            for root, _, files in os.walk(odir):
                for f in files:
                    if f.endswith("violation1.itf.json") and not r["states"]:
                        with open(os.path.join(root, f)) as fh:
                            itf = json.load(fh)
                        r["states"] = [{k: _itf_int(st[k]) for k in ("ring", "pos", "ci", "cj")} for st in itf["states"]]
        else:
            r["outcome"] = "not completed"
            r["tail"] = "\n".join(text.splitlines()[-6:])[-1200:]
        out.append(r)
    return out


def _real_agrees_with_walk_state(st):
    """does the REAL code relate (ring,pos) and (ci,cj) of this state to each other?"""
    armi_ready()
    from armi.reactor import grids

    H = grids.HexGrid
    a = call(H.getIndicesFromRingAndPos, st["ring"], st["pos"])
    b = call(H.indicesToRingPos, st["ci"], st["cj"])
    return (not isinstance(a, str) and tuple(ints(a)) == (st["ci"], st["cj"])
            and not isinstance(b, str) and tuple(ints(b)) == (st["ring"], st["pos"])
            and 1 <= st["pos"] <= H.getPositionsInRing(st["ring"]))


def report_apalache(rep, results):
    rep.extra["proof"] = {
        "apalache:IndInv": {
            "module": "spec/grid/HexSpiral_apa.tla (EXTENDS HexSpiral EXTENDS HexCore; HexLattice EXTENDS HexCore)",
            "claim": "for every ring: CodeFromRingPos(ring,pos) = (i,j) without raising, CodeRingPos(i,j) = (ring,pos), "
                     "1 <= pos <= CodeNumInRing(ring), ring = max(|i|,|j|,|i+j|)+1 along the counter-clockwise walk",
            "outcome": ("proved (inductive invariant: base + step; progress: %s)" % results[2]["outcome"])
            if results[0]["outcome"] == results[1]["outcome"] == "proved"
            else "counterexample" if any(r["outcome"] == "counterexample" for r in results[:2]) else "not completed",
            "runs": results,
        }
    }
    for r in results:
        if r["outcome"] != "counterexample":
            continue
        sts = r.get("states") or []
        # the step counterexample is <pre-state, post-state>: a genuine disagreement of armi iff the real code relates
        # the pre-state's numbers (it is a legitimate state of the walk) but not the post-state's
        if r["name"] == "step" and len(sts) >= 2 and _real_agrees_with_walk_state(sts[-2]) \
                and not _real_agrees_with_walk_state(sts[-1]):
            rep.violation("apalache:IndInv:step", "Apalache: the hex ring/position arithmetic leaves the walk at %r -> %r "
                          "and the real code agrees with the closed forms there" % (sts[-2], sts[-1]),
                          {"direction": "apalache", "states": sts, "command": r["command"]})
        else:
            raise tlc.MachineryError("Apalache counterexample in %s that the real code does not confirm (specification "
                                     "problem): %r" % (r["name"], sts))


def run(rep, tier, seed):
    tier = "thorough" if tier == "thorough" else "quick"
    parts = PARTS[tier]
    for part in parts:
        tlc.sany(ADAPTERS[part].module, MODDIR)
    tlc.sany("HexSpiral_mc", MODDIR)
    pool = ThreadPoolExecutor(max_workers=2)
    apa = pool.submit(run_apalache) if tier == "thorough" else None
    spiral = pool.submit(tlc.run, "HexSpiral_mc", "HexSpiral_mc.cfg", MODDIR, workers=2, want_prints=False, timeout=3000)
    results = run_tlc_jobs(tier, parts)
    sres = spiral.result()
    rep.add_tlc("exhaustive:spiral:HexSpiral_mc.cfg", sres)
    if sres.violation:
        rep.violation("tlc:spiral:%s" % sres.violation["name"], "TLC: %s violated in HexSpiral_mc" % sres.violation["name"],
                      {"direction": "tlc", "trace": sres.violation["trace"][:20000]})
    if sres.coverage.get("Next", (0, 0))[1] == 0:
        raise tlc.MachineryError("vacuous (spiral): Next never taken")
    if apa is not None:
        report_apalache(rep, apa.result())
    pool.shutdown()
    rng = random.Random(seed)
    for part in parts:
        ad = ADAPTERS[part]()
        res = results[(part, "mc")]
        rep.add_tlc("exhaustive:%s:%s" % (part, CFG[tier][part][0]), res)
        if res.violation:
            rep.violation("tlc:%s:%s" % (part, res.violation["name"]),
                          "TLC: %s violated in %s" % (res.violation["name"], ad.module),
                          {"direction": "tlc", "trace": res.violation["trace"][:20000]})
        never = [a for a in ad.actions if res.coverage.get(a, (0, 0))[1] == 0]
        if never:
            raise tlc.MachineryError("vacuous (%s): actions never taken: %s" % (part, never))
        eres = results[(part, "emit")]
        rep.add_tlc("edges:%s:%s" % (part, CFG[tier][part][1]), eres)
        graph, obs = load_graph(eres)
        if not graph.edges or not graph.roots:
            raise tlc.MachineryError("no edges emitted for %s" % part)
        if len(obs) < res.distinct:
            raise tlc.MachineryError("%s: %d observations for %d distinct states" % (part, len(obs), res.distinct))
        n, nt, divs = replay_part(ad, graph, obs, MAX_EDGES[tier][part], rng)
        rep.add_replay("%s-edges" % part, n, nt,
                       "every edge (s,a,t) of TLC's state graph (sampled only where stated) is executed as path(s);a on fresh "
                       "real armi grids/locators and the whole observation of t is compared; non-trivial = changes the state")
        rep.extra.setdefault("states_checked", {})[part] = graph.states()
        seen = set()
        for d in divs:
            if d["key"] in seen:
                rep.violation(d["key"], "")
                continue
            seen.add(d["key"])
            rep.violation(d["key"], "real %s diverges from %s after %s: %s: %s" % (
                part, ad.module, json.dumps(d["action"]), d["field"], d["message"]), dict(d, direction="replay"))
        e = graph.edges[len(graph.edges) // 2]
        rep.sample({"part": part, "path": [s["act"] for s in graph.path[e["_fk"]]][-4:], "act": e["act"],
                    "expected_obs": _trim(e["obs"])})
    rep.exhaustive = True
    sampled = {p: MAX_EDGES[tier][p] for p in parts if MAX_EDGES[tier][p] is not None}
    rep.note("edges replayed: all, except a seeded sample in %s (all root states and, through the BFS paths, every kind "
             "of object are still visited)" % (sampled or "no part"))
    rep.assume(
        "tolerance: |a-b| <= 1e-9*max(|a|,|b|) + 1e-9*(length scale of the case): a handful of double operations, sums that cancel",
        "hex lattice units: x,y = lattice integer * (pitch/2 or pitch/(2*sqrt(3))) + offset; GridGeom units: (a + b*sqrt(3)) * 0.01 cm",
        "Cartesian grids: (ring,position)->indices is documented as not implemented; the forward numbering is checked to be a "
        "bijection onto 1..PositionsInRing and the refusal to be clean",
        "Cartesian getMinimumRings is checked for n >= 1 (the statement's exactness clause is about hex grids; hex is checked from n = 0)",
        "bounds grids: cells 0..len(bounds)-2 (the extra location at index len(bounds)-1 that getIndexBounds admits is not a cell)",
        "nested grids: hex/Cartesian (both variants)/axial kinds at every level, depth <= 3, root object at (5,-3,10) cm",
    )


def _trim(o):
    s = json.dumps(o)
    return o if len(s) < 1500 else s[:1500] + "..."


# ------------------------------------------------------------------------------------------------------------
def replay(payload):
    if payload.get("direction") != "replay":
        print("replay of direction=%s: see payload (TLC trace)" % payload.get("direction"))
        return 0
    ad = ADAPTERS[payload["part"]]()
    w = ad.build(payload["root"])
    for a in payload["behaviour"]:
        ad.apply(w, a)
    out = ad.check(w, payload["expected"])
    if payload.get("expected_err") is not None and w["err"] != payload["expected_err"]:
        out.append(("err", "expected refusal %r, observed %r" % (payload["expected_err"], w["err"])))
    for field, msg in out:
        print("%s: %s" % (field, msg))
    if not out:
        print("no divergence: behaviour conforms")
    return 1 if out else 0


# ------------------------------------------------------------------------------------------------------------
# binding demonstration: in-process mutants of the anchored functions
# ------------------------------------------------------------------------------------------------------------
def _mutants():
    armi_ready()
    import numpy as np

    from armi.reactor import grids
    from armi.reactor.grids import cartesian, hexagonal, locations, structuredGrid, thetarz
    from armi.reactor.grids import grid as gridmod
    from armi.utils import hexagon

    HexGrid, Cart, SG = hexagonal.HexGrid, cartesian.CartesianGrid, structuredGrid.StructuredGrid
    IL = locations.IndexLocation
    M = []

    def mutant(name, parts, obj, attr, make, static=False):
        M.append((name, parts, obj, attr, make, static))

    # 1 edge arithmetic: '>' for '>=' in the first edge branch of indicesToRingPos (cells (a, 0) fall through)
    def m1(orig):
        def f(i, j):
            if i > 0 and j > 0:
                edge, ring, offset = 0, i + j + 1, j
            elif i <= 0 and j > -i:
                edge, ring, offset = 1, j + 1, -i
            elif i < 0 and j > 0:
                edge, ring, offset = 2, -i + 1, -j - i
            elif i < 0:
                edge, ring, offset = 3, -i - j + 1, -j
            elif i >= 0 and j < -i:
                edge, ring, offset = 4, -j + 1, i
            else:
                edge, ring, offset = 5, i + 1, i + j
            return ring, 1 + edge * (ring - 1) + offset
        return f
    mutant("HexGrid.indicesToRingPos: 'j > 0' for 'j >= 0' in the first edge branch", ["hex"], HexGrid, "indicesToRingPos", m1, True)

    # 2 corners-up unit steps: sign of dx/dj lost
    def m2(orig):
        def f(pitch, cornersUp=False):
            us = orig(pitch, cornersUp)
            if cornersUp:
                return ((us[0][0], -us[0][1], 0), us[1], us[2])
            return us
        return f
    mutant("hex _getRawUnitSteps: corners-up dx/dj sign", ["hex", "nested", "reduce"], HexGrid, "_getRawUnitSteps", m2, True)

    # 3 ring counting off by one at ring boundaries
    def m3(orig):
        def f(n):
            if n == 0:
                return 0
            return int(math.ceil(0.5 * (1 + math.sqrt(1 + 4 * n // 3))))
        return f
    mutant("hexagon.numRingsToHoldNumCells: n instead of n-1", ["hex"], hexagon, "numRingsToHoldNumCells", m3)

    # 4 complete indices always add the parent's
    def m4(orig):
        def f(self):
            pl = self.parentLocation
            idx = self.indices
            if pl is not None and pl.grid is not None:
                idx += pl.indices
            return tuple(idx)
        return f
    mutant("IndexLocation.getCompleteIndices: adds pin-grid indices too", ["nested"], IL, "getCompleteIndices", m4)

    # 5 reduce drops the offset
    def m5(orig):
        def f(self):
            r = orig(self)
            return r._replace(offset=None)
        return f
    mutant("StructuredGrid.reduce: offset dropped", ["reduce"], SG, "reduce", m5)

    # 6 neighbours listed clockwise
    def m6(orig):
        def f(self, i, j=0, k=0):
            r = orig(self, i, j, k)
            return [r[0]] + r[1:][::-1]
        return f
    mutant("HexGrid.getNeighboringCellIndices: clockwise", ["hex"], HexGrid, "getNeighboringCellIndices", m6)

    # 7 ring/pos -> indices: one edge formula
    def m7(orig):
        def f(ring, position):
            i, j, edge = orig(ring, position)
            if edge == 4 and ring > 2:
                return i + 1, j, edge
            return i, j, edge
        return f
    mutant("HexGrid._indicesAndEdgeFromRingAndPos: edge 4 shifted", ["hex"], HexGrid, "_indicesAndEdgeFromRingAndPos", m7, True)

    # 8 Cartesian ring/pos region 3 mirrored
    def m8(orig):
        def f(self, indices):
            i, j = indices[0:2]
            r, p = orig(self, indices)
            split = self._isThroughCenter()
            jj = j if split else j + 0.5
            ring = (r - 1) if split else (r - 1) + 0.5
            if ring and jj == -ring and abs(i if split else i + 0.5) != ring:
                n = self.getPositionsInRing(r)
                return r, int(5 * ring - (i if split else i + 0.5)) % n + 1
            return r, p
        return f
    mutant("CartesianGrid.getRingPos: region 3 counts the wrong way", ["cart"], Cart, "getRingPos", m8)

    # 9 Cartesian minimum rings off by one
    def m9(orig):
        def f(self, n):
            tot = 0
            ring = 0
            for ring in range(1, 10000):
                tot += self.getPositionsInRing(ring)
                if tot > n:
                    break
            return ring
        return f
    mutant("CartesianGrid.getMinimumRings: > for >=", ["cart"], Cart, "getMinimumRings", m9)

    # 10 bounds centroid is the lower bound
    def m10(orig):
        def f(index, bounds):
            if index < 0:
                raise IndexError("Bounds-defined indices may not be negative.")
            return bounds[index]
        return f
    mutant("StructuredGrid._centroidByBounds: no midpoint", ["nested", "reduce"], SG, "_centroidByBounds", m10, True)

    # 11 global coordinates forget the parent
    def m11(orig):
        def f(self, nativeCoords=False):
            pl = self.parentLocation
            if pl is not None and pl.grid is not None and pl.parentLocation is not None:
                return self.getLocalCoordinates(nativeCoords=nativeCoords) + pl.getLocalCoordinates(nativeCoords=nativeCoords)
            return orig(self, nativeCoords=nativeCoords)
        return f
    mutant("IndexLocation.getGlobalCoordinates: stops after one parent", ["nested"], IL, "getGlobalCoordinates", m11)

    # 12 Cartesian changePitch keeps the old offset
    def m12(orig):
        def f(self, xw, yw):
            off = self._offset
            orig(self, xw, yw)
            self._offset = off
        return f
    mutant("CartesianGrid.changePitch: offset not rescaled", ["reduce"], Cart, "changePitch", m12)

    # 13 hex changePitch loses the orientation
    def m13(orig):
        def f(self, newPitchCm):
            unitSteps = np.array(HexGrid._getRawUnitSteps(newPitchCm, False))
            self._unitSteps = unitSteps[self._stepDims]
        return f
    mutant("HexGrid.changePitch: always flats-up", ["reduce"], HexGrid, "changePitch", m13)

    # 14 label format
    def m14(orig):
        def f(indices):
            i, j = indices[:2]
            label = f"{i:02d}-{j:03d}"
            if len(indices) == 3:
                label += f"-{indices[2]:03d}"
            return label
        return f
    mutant("Grid.getLabel: 2-digit first field", ["hex", "cart"], gridmod.Grid, "getLabel", m14, True)

    # 15 cell base of step grids
    def m15(orig):
        def f(self, indices):
            return self._centroidBySteps(indices - 1)
        return f
    mutant("StructuredGrid._meshBaseBySteps: full step instead of half", ["hex", "cart"], SG, "_meshBaseBySteps", m15)

    # 16 positions in ring
    mutant("hexagon.numPositionsInRing: 6*ring", ["hex"], hexagon, "numPositionsInRing",
           lambda orig: (lambda ring: ring * 6 if ring != 1 else 1))

    # 17 theta-R-Z ring/pos swapped
    mutant("ThetaRZGrid.getRingPos: swapped", ["reduce"], thetarz.ThetaRZGrid, "getRingPos",
           lambda orig: (lambda self, indices: (indices[0] + 1, indices[1] + 1)))

    # 18 label parser
    def m18(orig):
        def f(label):
            t = orig(label)
            return (t[1], t[0], t[2])
        return f
    mutant("grids.locatorLabelToIndices: fields swapped", ["hex"], grids, "locatorLabelToIndices", m18)

    # 19 addingIsValid too generous
    mutant("locations.addingIsValid: any axial grid adds", ["nested"], locations, "addingIsValid",
           lambda orig: (lambda myGrid, parentGrid: myGrid.isAxialOnly))

    # 21 axial factory: one bound short
    def m21(orig):
        def f(cls, numCells, armiObject=None):
            return cls(bounds=(None, None, np.arange(numCells, dtype=np.float64)), armiObject=armiObject)
        return f
    mutant("AxialGrid.fromNCells: numCells bounds instead of numCells + 1", ["reduce"], grids.AxialGrid, "fromNCells", m21, "class")

    # 22 theta-R-Z x/y swapped
    def m22(orig):
        def f(self, indices, nativeCoords=False):
            r = orig(self, indices, nativeCoords=nativeCoords)
            return r if nativeCoords else np.array((r[1], r[0], r[2]))
        return f
    mutant("ThetaRZGrid.getCoordinates: x and y swapped", ["reduce"], thetarz.ThetaRZGrid, "getCoordinates", m22)

    # 23 cell top of step grids uses the centre
    def m23(orig):
        def f(self, indices):
            return self.getCoordinates(indices)
        return f
    mutant("StructuredGrid.getCellTop: returns the centre", ["hex", "cart"], SG, "getCellTop", m23)

    # 24 parentLocation ignores whether the grid's owner is itself placed in something
    def m24(orig):
        def f(self):
            grid = self.grid
            if grid is not None and grid.armiObject is not None:
                return grid.armiObject.spatialLocator
            return None
        return f
    mutant("IndexLocation.parentLocation: 'owner has a parent' test dropped", ["nested"], IL, "parentLocation", m24, "property")

    # 25 (second seeding round, missed then) Cartesian changePitch writes the new widths into the existing array:
    #    an integer array truncates them, and the array is shared with what backUp() saved
    def m25(orig):
        def f(self, xw, yw):
            xwOld = self._unitSteps[0][0]
            ywOld = self._unitSteps[1][1]
            self._unitSteps[0][0] = xw
            self._unitSteps[1][1] = yw
            self._offset = np.array((self._offset[0] * xw / xwOld, self._offset[1] * yw / ywOld, 0.0))
        return f
    mutant("CartesianGrid.changePitch: new widths written in place", ["reduce"], Cart, "changePitch", m25)

    # 26 the same for hex grids (only the aliasing with backUp() can show: hex unit steps are never integers)
    def m26(orig):
        def f(self, newPitchCm):
            self._unitSteps[...] = np.array(HexGrid._getRawUnitSteps(newPitchCm, self.cornersUp))[self._stepDims]
        return f
    mutant("HexGrid.changePitch: unit steps overwritten in place", ["reduce"], HexGrid, "changePitch", m26)

    # 27 the offset setter writes into the existing array (shared with backUp() state)
    def m27(orig):
        def f(self, offset):
            self._offset[...] = offset
        return f
    mutant("StructuredGrid.offset setter: in place", ["reduce"], SG, "offset", m27, "setter")

    # 28 restoreBackup forgets the offset
    def m28(orig):
        def f(self):
            self._unitSteps, self._bounds, _off, self._backup = self._backup
        return f
    mutant("StructuredGrid.restoreBackup: offset not restored", ["reduce"], SG, "restoreBackup", m28)

    # 29 (third seeding round) axial-only decided on the number of CELLS: a one-cell axial grid is no longer axial-only
    def m29(orig):
        def f(self, *a, **k):
            orig(self, *a, **k)
            (_ii, iLen), (_ji, jLen), (_ki, kLen) = self.getIndexBounds()
            if self._bounds[2] is not None:
                kLen -= 1
            self._isAxialOnly = iLen == jLen == 1 and kLen > 1
        return f
    mutant("StructuredGrid.__init__: axial-only needs more than one cell", ["nested"], SG, "__init__", m29)

    # 30 (third round) nativeCoords not forwarded to the parent locator
    def m30(orig):
        def f(self, nativeCoords=False):
            pl = self.parentLocation
            if pl:
                return self.getLocalCoordinates(nativeCoords=nativeCoords) + pl.getGlobalCoordinates()
            return self.getLocalCoordinates(nativeCoords=nativeCoords)
        return f
    mutant("IndexLocation.getGlobalCoordinates: nativeCoords not passed up", ["nested"], IL, "getGlobalCoordinates", m30)

    # 31 (third round) a pitch change below 1e-4 relative is skipped
    def m31(orig):
        def f(self, newPitchCm):
            if math.isclose(newPitchCm, self.pitch, rel_tol=1e-4):
                return
            orig(self, newPitchCm)
        return f
    mutant("HexGrid.changePitch: small changes skipped", ["reduce"], HexGrid, "changePitch", m31)

    # 20 global cell base uses the parent's centre
    def m20(orig):
        def f(self):
            pl = self.parentLocation
            if pl:
                return pl.getGlobalCoordinates() + self.grid.getCellBase(self.indices)
            return self.grid.getCellBase(self.indices)
        return f
    mutant("IndexLocation.getGlobalCellBase: parent's centre + own base", ["nested"], IL, "getGlobalCellBase", m20)
    return M


def selftest():
    """prints one caught/MISSED line per mutant; 0 iff all are caught.  Uses the quick emission configs."""
    parts = ["hex", "cart", "nested", "reduce"]
    graphs = {}
    for part in parts:
        ad = ADAPTERS[part]
        tlc.sany(ad.module, MODDIR)
    with ThreadPoolExecutor(max_workers=4) as ex:
        futs = {part: ex.submit(tlc.run, ADAPTERS[part].module, CFG["quick"][part][1], MODDIR, workers=1, coverage=False,
                                timeout=3000) for part in parts}
    for part in parts:
        graphs[part] = load_graph(futs[part].result())
    ads = {part: ADAPTERS[part]() for part in parts}
    limit = {"hex": None, "cart": None, "nested": 3000, "reduce": 4000}
    base = {}
    for part in parts:
        _, _, divs = replay_part(ads[part], graphs[part][0], graphs[part][1], limit[part], random.Random(0))
        base[part] = {d["key"] for d in divs}
        print("baseline %-7s keys=%s" % (part, sorted(base[part])))
    missed = 0
    for name, mparts, obj, attr, make, static in _mutants():
        orig_attr = obj.__dict__[attr] if isinstance(obj, type) else getattr(obj, attr)
        orig = orig_attr.__func__ if isinstance(orig_attr, (staticmethod, classmethod)) else orig_attr
        new = make(orig) if static not in ("property", "setter") else None
        if static == "property":
            new = property(make(orig_attr.fget))
        if static == "setter":
            new = orig_attr.setter(make(orig_attr.fset))
        setattr(obj, attr, classmethod(new) if static == "class" else new if static in ("property", "setter") else
                staticmethod(new) if static else new)
        try:
            found = []
            for part in mparts:
                try:
                    _, _, divs = replay_part(ads[part], graphs[part][0], graphs[part][1], limit[part], random.Random(0),
                                             stop_after=len(base[part]) + 3)
                    found += sorted({d["key"] for d in divs} - base[part])
                except Exception as ex:  # a mutant that makes the real code crash is detected as well
                    found.append("crash:%s:%s" % (part, type(ex).__name__))
        finally:
            setattr(obj, attr, orig_attr)
        if found:
            print("caught  %-70s %s" % (name, found[:3]))
        else:
            missed += 1
            print("MISSED  %s" % name)
    return 1 if missed else 0
