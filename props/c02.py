"""C02 -- mass, volume and number densities are accounted consistently at every level.

spec/inventory/Inventory.tla     the accounting rules of composites.py / component.py / blocks.py / assemblies.py /
                                 densityTools.py over exact rationals; clauses of the property as invariants and step
                                 properties, checked by TLC on three trees (one block, third core, third core with edge assemblies)
spec/inventory/AreaCache.tla     Block.getArea(cold) cache and Assembly.getVolume built on it (suspect S11)
spec -> code   every state and edge TLC explores is emitted (expected result of every query, from TLC) and executed on real
               core > HexAssembly > HexBlock > component trees, in four shape families, atomic weights set to the model's
               integers; second pass with the real weights on the weight-free observables; densityTools called once per
               emitted composition
code -> spec   seeded random edit histories on the real trees, validated by TLC event by event (Inventory_trace)
"""
import concurrent.futures
import contextlib
import json
import os
import random
import re
import threading
import warnings
from fractions import Fraction

from harness import common, tlc, tracecheck
from harness import gen_blocks as gb
from harness import replay as rp
from harness.armi_env import armi_ready

MODDIR = os.path.join(common.SPEC, "inventory")
NAMES = {"a": "U235", "b": "U238", "c": "NA23", "d": "U236",  # d: an isotope of the element that does not occur naturally
         "e": "LFP35", "x": "XE135"}  # e: a lumped fission product (trees WithLump), x: one of its constituents (never in the state)
ABSENT = ["PU239", "AM241"]  # nuclides nobody holds (selections that must select nothing)
ORDER = ["a", "b", "c", "d"]
SELS = {"a": "U235", "b": "U238", "c": "NA23", "E": "U", "Lac": ["U235", "NA23"], "LEc": ["U", "NA23"], "all": None,
        "none": [], "absent": ABSENT[0], "absentList": ABSENT}
# a handful of double operations per query: rtol 1e-9; absolute floor for differences of O(1) numbers (removeMass) and for
# TRACE_NUMBER_DENSITY = 1e-50 that clearNumberDensities writes where the model says 0
RTOL, ATOL = 1e-9, 1e-12
WEIGHT_FREE_ACTIONS = {"SetN", "UpdateN", "SetNs", "Scale", "Clear", "SetHeight", "AdjustDensity"}
LSRC = 600  # cfg constant LSrc: mass-fraction edits start from states with a small common denominator
WEIGHT_FREE_OBS = ("vol", "nucs", "nd", "atoms", "exp")
LMAX, VMAX = 20000, 100  # the model's bound on magnitudes (cfg constants LMax / VMax); the trace driver stays inside it
_SELFTEST = False
_TLC_CACHE = {}
_TLC_LOCK = threading.Lock()


# ------------------------------------------------------------------------------------------------------------
# helpers
# ------------------------------------------------------------------------------------------------------------
def fl(x):
    """TLC prints rationals as [num, den]; everything else is structure."""
    if isinstance(x, list):
        if len(x) == 2 and all(isinstance(i, int) and not isinstance(i, bool) for i in x):
            return x[0] / x[1]
        return [fl(i) for i in x]
    if isinstance(x, dict):
        return {k: fl(v) for k, v in x.items()}
    return x


@contextlib.contextmanager
def weights(w):
    """Run the real code with the atomic weights of the three nuclides set to the model's integers (data, not code)."""
    armi_ready()
    from armi.nucDirectory import nuclideBases

    old = {}
    try:
        if w:
            for k, v in w.items():
                nb = nuclideBases.byName[NAMES[k]]
                old[k] = nb.weight
                nb.weight = float(v)
        yield
    finally:
        for k, v in old.items():
            nuclideBases.byName[NAMES[k]].weight = v


def units():
    armi_ready()
    from armi.utils import units as u

    return u.MOLES_PER_CC_TO_ATOMS_PER_BARN_CM, u.CM2_PER_BARN


def constants_of(cfg):
    """the CONSTANTS lines of a cfg, for evidence"""
    try:
        with open(os.path.join(MODDIR, cfg)) as f:
            return " ".join(ln.strip()[len("CONSTANTS"):].strip() for ln in f if ln.startswith("CONSTANTS"))
    except OSError:
        return ""


def run_tlc(module, cfg, env, **kw):
    """TLC's output does not depend on armi: cache it per (cfg, env) inside one process (selftest runs many mutants)."""
    key = (module, cfg, tuple(sorted(env.items())), tuple(sorted(kw.items())))
    with _TLC_LOCK:
        job = _TLC_CACHE.get(key)
        if job is None:
            job = _TLC_CACHE[key] = {"lock": threading.Lock()}
    with job["lock"]:  # a prefetching thread may be computing this very run: wait for it instead of starting a second JVM
        if "res" not in job and "exc" not in job:
            try:
                job["res"] = tlc.run(module, cfg, MODDIR, env=env, timeout=3000, **kw)
            except BaseException as ex:  # noqa: BLE001  re-raised in the thread that asks for the result
                job["exc"] = ex
    if "exc" in job:
        raise job["exc"]
    return job["res"]


def prefetch(pool, jobs):
    """TLC's runs do not depend on armi or on each other: start them all at once (the consumers below find them in the cache)."""
    for module, cfg, env, kw in jobs:
        pool.submit(_quiet, run_tlc, module, cfg, env, **kw)


def _quiet(fn, *a, **kw):
    try:
        return fn(*a, **kw)
    except BaseException:  # noqa: BLE001  kept in the cache entry, raised where the result is consumed
        return None


def violations_of(res):
    """all clauses TLC reports violated in a -continue run: {name: first error trace}"""
    out = {}
    lines = res.out.splitlines()
    for i, ln in enumerate(lines):
        m = re.match(r"Error: (?:Invariant|Action property) (\S+) is violated", ln)
        if m and m.group(1) not in out:
            out[m.group(1)] = "\n".join(lines[i: i + 60])
    return out


# ------------------------------------------------------------------------------------------------------------
# adapter: real core > HexAssembly > HexBlock > component trees
# ------------------------------------------------------------------------------------------------------------
class InvAdapter:
    def __init__(self, tree, families, weight_free=False, narrow=False):
        self.tree, self.families, self.weight_free = tree, list(families), weight_free
        # narrow (quick tier): after an edit at x every query is compared at x, below x and above x; elsewhere only the components'
        # own densities and keys (the rest of those nodes is compared on the edges that edit them or their relatives)
        self.narrow = narrow
        self.order = list(tree.get("nucs") or self.order)  # the nuclides of this tree's model (five with a lumped fission product)
        self.lump = bool(tree.get("withLump"))
        self.worlds = {}
        self.count = 0
        self.K, self.CM2 = units()
        nl, nb, na = tree["nleaf"], tree["nblk"], tree["nasm"]
        self.nnode = nl + nb + na + 1
        par = tree["parent"]
        self.near = {}
        for x in range(1, self.nnode + 1):
            up, y = set(), x
            while y < self.nnode:
                y = par[y - 1]
                up.add(y)
            down, todo = set(), [x]
            while todo:
                y = todo.pop()
                down.add(y)
                todo += [c for c in range(1, self.nnode) if par[c - 1] == y]
            self.near[x] = up | down
        self.kind = {}
        for x in range(1, self.nnode + 1):
            self.kind[x] = "leaf" if x <= nl else "blk" if x <= nl + nb else "asm" if x <= nl + nb + na else "core"

    def world(self, fam):
        if fam not in self.worlds:
            self.worlds[fam] = gb.build_tree(self.tree, fam)
        return self.worlds[fam]

    def build(self, root):
        fam = self.families[self.count % len(self.families)]
        self.count += 1
        w = self.world(fam)
        N = fl(root["N"])
        H = [[NAMES[self.order[i]] for i in range(len(self.order)) if hb[i]] for hb in root["H"]]
        for i, b in enumerate(w.blocks):  # geometry first (a height change clears the block's caches)
            h = float(root["hgt"][i]) if "hgt" in root else float(self.tree["height"][str(b)])
            if w.node[b].getHeight() != h:
                w.node[b].setHeight(h)
        gb.set_composition(w, [{NAMES[k]: v for k, v in n.items()} for n in N], H)
        w.err = ""
        w.last_x = None
        return w

    def apply(self, w, a):
        o = w.node[a["x"]] if "x" in a else None
        n = a["n"]
        w.err = ""
        w.last_x = a.get("x")
        K = self.K
        try:
            m = a.get("m") if isinstance(a.get("m"), dict) else {}  # (TLC prints the empty map as an empty array)
            if n == "SetN":
                o.setNumberDensity(NAMES[a["nuc"]], fl(a["v"]))
            elif n == "UpdateN":
                o.updateNumberDensities({NAMES[k]: fl(v) for k, v in m.items()})
            elif n == "SetNs":
                o.setNumberDensities({NAMES[k]: fl(v) for k, v in m.items()})
            elif n == "Scale":
                try:
                    o.changeNDensByFactor(fl(a["f"]))
                except AttributeError as ex:
                    # modelled (design switch ScaleRaises of Inventory.tla): raised after the densities were set because the
                    # object's parameter collection has no detailedNDens / pinNDens
                    if "NDens" not in str(ex):
                        raise
                    w.err = "AttributeError"
                    return w.err
            elif n == "Clear":
                o.clearNumberDensities()
            elif n == "AddMass":
                o.addMass(NAMES[a["nuc"]], fl(a["m"]) / K)
            elif n == "RemoveMass":
                o.removeMass(NAMES[a["nuc"]], fl(a["m"]) / K)
            elif n == "SetMass":
                o.setMass(NAMES[a["nuc"]], fl(a["m"]) / K)
            elif n == "SetMassFracs":
                o.setMassFracs({NAMES[k]: fl(v) for k, v in a["m"].items()})
            elif n == "AddMasses":  # dict order = the model's entry order (a, b, c)
                o.addMasses({NAMES[k]: fl(a["m"][k]) / K for k in self.order if k in a["m"]})
            elif n == "SetMasses":
                o.setMasses({NAMES[k]: fl(a["m"][k]) / K for k in self.order if k in a["m"]})
            elif n == "SetHeight":
                if a["cons"]:
                    o.setHeight(float(a["h"]), conserveMass=True, adjustList=[NAMES[k] for k, on in zip(self.order, a["adj"]) if on])
                else:
                    o.setHeight(float(a["h"]))
            elif n == "AdjustDensity":
                o.adjustDensity(fl(a["f"]), [NAMES[k] for k, on in zip(self.order, a["adj"]) if on])
            elif n == "AdjustEnrich":
                o.adjustMassEnrichment(fl(a["f"]))
            elif n == "AdjustMF":
                kw = {"val": fl(a["v"])}
                kw["elementToAdjust" if a["adj"] == "E" else "nuclideToAdjust"] = "U" if a["adj"] == "E" else NAMES[a["adj"]]
                if a["hold"]:
                    kw["elementToHoldConstant" if a["hold"] == "E" else "nuclideToHoldConstant"] = "U" if a["hold"] == "E" else NAMES[a["hold"]]
                try:
                    o.adjustMassFrac(**kw)
                except RuntimeError as ex:  # modelled refusal: nothing here to adjust ("Failed to adjust mass fraction.")
                    if "adjust mass fraction" not in str(ex):
                        raise
                    w.err = "RuntimeError"
            else:
                raise AssertionError("unknown action " + n)
        except ValueError:
            # the refusals the specification models: "nuclide does not exist in any children", "mass density is zero"
            w.err = "ValueError"
        return w.err

    def node_obs(self, o):
        K = self.K
        names = [NAMES[k] for k in self.order]
        nd = [float(o.getNumberDensity(n)) for n in names]
        alt = [float(v) for v in o.getNuclideNumberDensities(names)]
        dct = o.getNumberDensities()
        alt2 = [float(dct.get(n, 0.0)) for n in names]
        if rp.diff(nd, alt, rtol=RTOL, atol=ATOL) or rp.diff(nd, alt2, rtol=RTOL, atol=ATOL):
            nd = {"inconsistent": {"getNumberDensity": nd, "getNuclideNumberDensities": alt, "getNumberDensities": alt2}}
        else:
            nd = dict(zip(self.order, nd))
        q = {"vol": float(o.getVolume()),
             "nucs": [n in o.getNuclides() for n in names],
             "nd": nd,
             "atoms": {k: float(o.getNumberOfAtoms(NAMES[k])) * self.CM2 for k in self.order}}
        if self.lump:
            ex = o.getNumberDensities(expandFissionProducts=True)
            q["exp"] = {k: float(ex.get(NAMES[k], 0.0)) for k in [k for k in self.order if k != "e"] + ["x"]}
            if NAMES["e"] in ex:
                q["exp"]["lump still listed"] = float(ex[NAMES["e"]])
        if self.weight_free:
            return q
        q["mass"] = {s: float(o.getMass(list(spec) if isinstance(spec, list) else spec) if spec is not None else o.getMass()) * K
                     for s, spec in SELS.items()}
        q["hm"] = float(o.getHMMass()) * K
        ms = o.getMasses()
        q["masses"] = {k: float(ms.get(NAMES[k], 0.0)) * K for k in self.order}
        if getattr(o, "p", None) is not None and "numberDensities" in o.p and not any(o.p.numberDensities.values()):
            # a component whose composition is all-zero: Component.density() defers to the material -- outside the property (see the
            # header of Inventory.tla), never compared; the deferral itself is exercised by empty_density_probe()
            q["dens"] = "material"
        else:
            q["dens"] = float(o.density()) * K
        mf = o.getMassFracs()
        q["mf"] = {k: float(mf.get(NAMES[k], 0.0)) for k in self.order}
        one = {k: float(o.getMassFrac(NAMES[k])) for k in self.order}
        if rp.diff(q["mf"], one, rtol=RTOL, atol=ATOL):
            q["mf"] = {"inconsistent": {"getMassFracs": q["mf"], "getMassFrac": one}}
        if q["dens"] != "material" and "numberDensities" in o.p:
            with warnings.catch_warnings():  # 0/0 on numpy floats where the element is absent (not compared there)
                warnings.simplefilter("ignore")
                q["enr"] = float(o.getMassEnrichment())  # components only: share of the enriched nuclide within its element
        return q

    def far_obs(self, o, x):
        if self.kind[x] != "leaf":
            return {}
        d = o.p.numberDensities
        return {"nucs": [NAMES[k] in d for k in self.order], "nd": {k: float(d.get(NAMES[k], 0.0)) for k in self.order}}

    def project(self, w):
        near = self.near.get(w.last_x) if self.narrow and w.last_x is not None else None
        return {"err": w.err, "q": [self.node_obs(w.node[x]) if near is None or x in near else self.far_obs(w.node[x], x)
                                    for x in range(1, self.nnode + 1)]}

    def expected(self, obs, err, act=None):
        """The specification's observation as floats; -1 marks what the header of Inventory.tla declares not compared."""
        q = []
        near = self.near.get(act.get("x")) if self.narrow and act and act.get("x") is not None else None
        for x, o in enumerate(fl(obs), start=1):
            o = dict(o)
            if near is not None and x not in near:
                q.append({k: o[k] for k in ("nucs", "nd")} if self.kind[x] == "leaf" else {})
                continue
            o.pop("evol", None)
            if o["dens"] == -1.0:
                del o["dens"]
            if any(v == -1.0 for v in o["mf"].values()):
                del o["mf"]
            if o.get("enr") == -1.0:
                del o["enr"]
            if not o.get("exp"):
                o.pop("exp", None)
            if self.weight_free:
                o = {k: o[k] for k in WEIGHT_FREE_OBS if k in o}
            q.append(o)
        return {"err": err, "q": q}


def graph_of(res, ad, weight_free=False):
    obs = {rp.skey(p["st"]): p["obs"] for p in res.prints if isinstance(p, dict) and "st" in p}
    edges = []
    for p in res.prints:
        if isinstance(p, dict) and "act" in p and rp.skey(p["to"]) in obs:
            e = dict(p)
            e["obs"] = ad.expected(obs[rp.skey(p["to"])], p["err"], p["act"])
            edges.append(e)
    g = rp.Graph(edges)
    if weight_free:
        g.edges = [e for e in g.edges if all(s["act"]["n"] in WEIGHT_FREE_ACTIONS for s in g.path.get(e["_fk"], []) + [e])]
    return g, obs


def tree_of(res):
    for p in res.prints:
        if isinstance(p, dict) and "tree" in p:
            return p["tree"]
    raise tlc.MachineryError("the specification did not print its tree")


def key_of(d, ad, prefix="replay"):
    """stable identifier of the failing call site / input class: action @ kind of edited node : kind of queried node . query"""
    a = d["action"]
    first = d["first_difference"].split(":")[0]
    m = re.match(r"\.q\[(\d+)\]\.(\w+)", first)
    where = "%s.%s" % (ad.kind.get(int(m.group(1)) + 1, "?"), m.group(2)) if m else first.strip(".") or "?"
    return "%s:%s@%s:%s" % (prefix, a.get("n"), ad.kind.get(a.get("x"), "-"), where)


# ------------------------------------------------------------------------------------------------------------
# densityTools: the pure conversion functions, called once per emitted composition
# ------------------------------------------------------------------------------------------------------------
def density_tools_cases(states, K, order=None):
    """states: the specification's observations; every expected value is the specification's."""
    from armi.utils import densityTools as dt

    order = order or ORDER

    n = 0
    bad = []

    def chk(fn, exp, got, case):
        nonlocal n
        n += 1
        d = rp.diff(exp, got, rtol=RTOL, atol=ATOL)
        if d and len(bad) < 10:
            bad.append({"function": fn, "case": case, "first_difference": d, "expected": exp, "observed": got})

    seen = set()
    for obs in states:
        for o in fl(obs):
            case = (tuple(o["nd"][k] for k in order), o["evol"])
            if case in seen:  # the functions are pure: one call per distinct (composition, volume)
                continue
            seen.add(case)
            v = {NAMES[k]: o["nd"][k] for k in order}
            if o["dens"] != -1.0:
                chk("calculateMassDensity", o["dens"], float(dt.calculateMassDensity(dict(v))) * K, v)
            if all(x != -1.0 for x in o["mf"].values()):
                mf = dt.getMassFractions(dict(v))
                chk("getMassFractions", o["mf"], {k: float(mf[NAMES[k]]) for k in order}, v)
                back = dt.getNDensFromMasses(o["dens"] / K, {NAMES[k]: o["mf"][k] for k in order})
                chk("getNDensFromMasses", o["nd"], {k: float(back[NAMES[k]]) for k in order}, {"rho": o["dens"], "mf": o["mf"]})
                chk("massFractionsSumToOne", 1.0, float(sum(mf.values())), v)
            for k in order:
                chk("getMassInGrams", o["masses"][k], float(dt.getMassInGrams(NAMES[k], o["evol"], o["nd"][k])) * K,
                    {"nuc": k, "vol": o["evol"], "nd": o["nd"][k]})
                chk("calculateNumberDensity", o["nd"][k], float(dt.calculateNumberDensity(NAMES[k], o["masses"][k] / K, o["evol"])),
                    {"nuc": k, "vol": o["evol"], "mass": o["masses"][k]})
    return n, bad


# ------------------------------------------------------------------------------------------------------------
# Block.getArea cache (AreaCache.tla)
# ------------------------------------------------------------------------------------------------------------
class AreaAdapter:
    """One HexAssembly with one HexBlock of hot steel components (hot and cold cross-sections differ)."""

    def make(self):
        armi_ready()
        from armi.reactor import assemblies, grids

        a = assemblies.HexAssembly("fuel", assemNum=1)
        a.spatialGrid = grids.AxialGrid.fromNCells(1)
        a.spatialGrid.armiObject = a
        b = gb.make_block("b", [2.0, 3.0], 2.0, "hot")
        a.add(b)
        a.calculateZCoords()
        return a, b

    def build(self, root):
        w = gb.World()
        # what a fresh block answers to its first question is the reference for "the hot area" / "the cold area"
        w.hot = self.make()[1].getArea()
        w.cold = self.make()[1].getArea(cold=True)
        if abs(w.hot - w.cold) < 1e-6 * w.hot:
            raise tlc.MachineryError("hot and cold areas of the probe block do not differ")
        w.a, w.b = self.make()
        w.last = {"n": "Init"}
        return w

    def kind(self, w, val):
        if abs(val - w.hot) <= 1e-12 * w.hot:
            return "hot"
        if abs(val - w.cold) <= 1e-12 * w.cold:
            return "cold"
        return "other(%r)" % val

    def apply(self, w, a):
        n = a["n"]
        if n == "Ask":
            w.last = {"n": n, "kind": a["kind"], "ans": self.kind(w, w.b.getArea(cold=(a["kind"] == "cold")))}
        elif n == "AsmVolume":
            w.last = {"n": n, "ans": self.kind(w, w.a.getVolume() / w.a.getTotalHeight())}
        elif n == "BlkVolume":
            w.last = {"n": n, "ans": self.kind(w, w.b.getVolume() / w.b.getHeight())}
        elif n == "Invalidate":
            w.b.clearCache()
            w.last = {"n": n}
        else:
            raise AssertionError(n)
        return ""

    def project(self, w):
        return {"act": w.last}


REPRO_AREA = """\
import armi; armi.isConfigured() or armi.configure(permissive=True)
from armi.reactor import assemblies, blocks, components, grids
b = blocks.HexBlock("b", height=2.0)
b.add(components.Circle("c", "HT9", Tinput=25.0, Thot=450.0, od=1.0, id=0.0, mult=1))
a = assemblies.HexAssembly("fuel", assemNum=1)
a.spatialGrid = grids.AxialGrid.fromNCells(1); a.spatialGrid.armiObject = a
a.add(b); a.calculateZCoords()
hot, cold, want = b.getArea(), b.getArea(cold=True), sum(c.getArea(cold=True) for c in b)
print("getArea() =", hot, " then getArea(cold=True) =", cold, " sum of the components' cold areas =", want)
b.clearCache(); b.getArea(cold=True)
print("after clearCache(); getArea(cold=True):  assembly.getVolume() =", a.getVolume(), " sum of block volumes =", sum(x.getVolume() for x in a))
defect = abs(cold - want) > 1e-12 or abs(a.getVolume() - sum(x.getVolume() for x in a)) > 1e-12
"""
REPRO_SCALE = """\
import armi; armi.isConfigured() or armi.configure(permissive=True)
from armi.reactor import blocks, components
b = blocks.HexBlock("b", height=2.0)
b.add(components.Circle("fuel", "UZr", Tinput=25.0, Thot=450.0, od=1.0, id=0.0, mult=1))
before = b.getNumberDensity("U235")
try:
    b.changeNDensByFactor(2.0)
    defect = False
except AttributeError as ex:
    print("Block.changeNDensByFactor(2.0) raised AttributeError:", ex)
    defect = True
print("U235 number density before", before, "after", b.getNumberDensity("U235"))
"""
REPRO_CUTLEAF = """\
import armi; armi.isConfigured() or armi.configure(permissive=True)
from armi.reactor import assemblies, blocks, blueprints, components, geometry, grids, reactors
r = reactors.Reactor("r", blueprints.Blueprints()); core = reactors.Core("Core"); r.add(core)
core.spatialGrid = grids.HexGrid.fromPitch(16.0); core.spatialGrid.geomType = geometry.GeomType.HEX
core.spatialGrid.symmetry = str(geometry.SymmetryType(geometry.DomainType.THIRD_CORE, geometry.BoundaryType.PERIODIC))
core.spatialGrid.armiObject = core
a = assemblies.HexAssembly("fuel", assemNum=1); a.spatialGrid = grids.AxialGrid.fromNCells(1); a.spatialGrid.armiObject = a
b = blocks.HexBlock("b", height=1.0)
c = components.Circle("fuel", "UZr", Tinput=25.0, Thot=25.0, od=1.0, id=0.0, mult=1)
b.add(c); a.add(b); a.calculateZCoords(); core.add(a, core.spatialGrid[0, 0, 0])      # centre of a third core: symmetry factor 3
print("symmetry factor", b.getSymmetryFactor())
print("component getMass('U235') =", c.getMass("U235"), " getMasses()['U235'] =", c.getMasses()["U235"])
c.setMass("U235", 6.0)
print("after setMass('U235', 6.0): getMass('U235') =", c.getMass("U235"))
defect = abs(c.getMass("U235") - 6.0) > 1e-9 or abs(c.getMasses()["U235"] - c.getMass("U235")) > 1e-9
"""


# ------------------------------------------------------------------------------------------------------------
# placement: the symmetry factor as state (Placement.tla)
# ------------------------------------------------------------------------------------------------------------
class PlacementAdapter:
    """A fresh third core + spent fuel pool with three one-block assemblies per behaviour (the operations are destructive)."""
    NUC = "U235"

    def build(self, root):
        w = gb.build_placement()
        w.ids = dict(w.A)  # model id -> assembly (4 = the edge copy, once it exists)
        return w

    def query(self, w):
        """the reads of the model's Query action, in its order: core density, core volume, every assembly's volume"""
        core = w.core
        out = {"coreND": float(core.getNumberDensity(self.NUC)) if len(core) else 0.0, "coreVol": float(core.getVolume())}
        out["vol"] = {k: float(a.getVolume()) for k, a in w.ids.items()}
        return out

    def apply(self, w, a):
        n, core = a["n"], w.core
        loc = lambda p: core.spatialGrid[w.loc[p][0], w.loc[p][1], 0]  # noqa: E731
        if n == "Query":
            self.query(w)
        elif n == "AddEdges":
            w.changer.addEdgeAssemblies(core)
            new = [x for x in core if all(x is not y for y in w.ids.values())]
            if len(new) > 1:
                raise AssertionError("more than one edge assembly appeared")
            if new:
                w.ids[4] = new[0]
        elif n == "RemoveEdges":
            w.changer.removeEdgeAssemblies(core)
            if 4 in w.ids and w.ids[4].parent is None:
                del w.ids[4]
        elif n == "Move":
            core.removeAssembly(w.ids[a["a"]], discharge=False)
            core.add(w.ids[a["a"]], loc(a["p"]))
        elif n == "Swap":
            w.fh.swapAssemblies(w.ids[a["a"]], w.ids[a["b"]])
        elif n == "Discharge":
            core.removeAssembly(w.ids[a["a"]])
        elif n == "Charge":
            w.sfp.remove(w.ids[a["a"]])
            core.add(w.ids[a["a"]], loc(a["p"]))
        else:
            raise AssertionError(n)
        return ""

    def where(self, w, a):
        if a.parent is w.sfp:
            return "sfp"
        if a.parent is not w.core:
            return "elsewhere(%r)" % (a.parent,)
        ij = tuple(int(v) for v in a.spatialLocator.getCompleteIndices()[:2])
        for name, xy in w.loc.items():
            if xy == ij:
                return name
        return "at%r" % (ij,)

    def project(self, w):
        q = self.query(w)
        blocks_ = [b for a in w.core for b in a]
        out = {"coreVol": q["coreVol"], "coreND": q["coreND"],
               "coreAtoms": float(sum(b.getNumberDensity(self.NUC) * b.getVolume() for b in blocks_)), "a": []}
        for k in (1, 2, 3, 4):
            a = w.ids.get(k)
            if a is None:
                out["a"].append({"where": "gone"})
                continue
            out["a"].append({"where": self.where(w, a), "sym": float(a.getSymmetryFactor()), "asmVol": q["vol"][k],
                             "blkSum": float(sum(b.getVolume() for b in a)),
                             "atoms": float(sum(b.getNumberDensity(self.NUC) * b.getVolume() for b in a))})
        return out


REPRO_DISCHARGE = """\
import armi; armi.isConfigured() or armi.configure(permissive=True)
import sys; sys.path.insert(0, "/verif")
from harness import gen_blocks
w = gen_blocks.build_placement()            # third core + spent fuel pool; assembly 1 (one block) sits at the centre: symmetry factor 3
a = w.A[1]
print("in the core : getVolume() =", a.getVolume(), " sum of block volumes =", sum(b.getVolume() for b in a))   # fills the block's cached area
w.core.removeAssembly(a)                    # discharged into the spent fuel pool: the whole assembly, symmetry factor 1
print("in the pool : getVolume() =", a.getVolume(), " sum of block volumes =", sum(b.getVolume() for b in a), " symmetry factor", a.getSymmetryFactor())
defect = abs(a.getVolume() - sum(b.getVolume() for b in a)) > 1e-9
"""


def placement(rep, thorough, seed):
    ad = PlacementAdapter()
    cfg = "Placement_emit%s.cfg" % ("_thorough" if thorough else "")
    chosen, first = None, None
    for v in ("clears", "keeps"):
        env = {"C02_DISCHARGE": v}
        res = run_tlc("Placement", cfg, env, workers=1, coverage=False, extra=("-continue",))
        obs = {rp.skey(p["st"]): fl(p["obs"]) for p in res.prints if isinstance(p, dict) and "st" in p}
        edges = [dict(p, obs=obs[rp.skey(p["to"])]) for p in res.prints if isinstance(p, dict) and "act" in p and rp.skey(p["to"]) in obs]
        g = rp.Graph(edges)
        # stale values need a query somewhere in the history: all of those histories, and a seeded sample of the others
        withq = [e for e in g.edges if any(s_["act"]["n"] == "Query" for s_ in g.path.get(e["_fk"], []) + [e])]
        others = [e for e in g.edges if e not in withq]
        rng = random.Random(seed)
        g.edges = withq + (others if thorough and len(others) <= 1500 else rng.sample(others, min(len(others), 1500 if thorough else 120)))
        n, nt, divs = rp.replay_graph(g, ad)
        if n == 0:
            raise tlc.MachineryError("Placement: no edges")
        if not divs:
            chosen = v
            rep.add_tlc("exhaustive+edges:%s[%s]" % (cfg, v), res)
            rep.add_replay("placement-histories", n, nt,
                           "placement / query histories (add and remove edge assemblies, move, swap, discharge to the pool, charge back, interleaved "
                           "volume and density queries) executed on a fresh real third core each; afterwards position, symmetry factor, "
                           "Assembly.getVolume, block-volume sums, atoms, Core.getVolume and Core.getNumberDensity compared with Placement.tla")
            if g.edges:
                e = g.edges[len(g.edges) // 2]
                rep.sample({"kind": "placement", "path": [s_["act"] for s_ in g.path[e["_fk"]]] + [e["act"]], "expected": e["obs"]})
            break
        if first is None or len(divs) < len(first[1]):
            first = (v, divs)  # neither design conforms: report against the closer one
    if chosen is None:
        chosen = first[0]
        for d in first[1]:
            where = re.sub(r"\[\d+\]", "", d["first_difference"].split(":")[0]).strip(".")
            rep.violation("replay:Placement:%s:%s" % (d["action"]["n"], where),
                          "a real third core diverges from Placement.tla after %s: %s" % (json.dumps(d["behaviour"]), d["first_difference"]),
                          dict(d, direction="replay", adapter="placement"))
    rep.note("Placement.tla design (cached block area when an assembly leaves the core) implemented by the code under test: %s" % chosen)
    env = {"C02_DISCHARGE": chosen}
    if not _SELFTEST:
        runs = [run_tlc("Placement", cfg, env, workers=1, coverage=False, extra=("-continue",))]
        if thorough:
            runs.append(run_tlc("Placement", "Placement_mc.cfg", env, want_prints=False, coverage=False))
            rep.add_tlc("exhaustive:Placement_mc.cfg[%s]" % chosen, runs[-1])
        found = {}
        for r_ in runs:
            found.update(violations_of(r_))
        for name, trace in found.items():
            rep.violation("tlc:" + name, "after Core.removeAssembly(a) has discharged a centre (or half) assembly into the spent fuel pool, its blocks keep "
                          "the cached area that was divided by the old symmetry factor: Assembly.getVolume() is a third (half) of the sum of its block "
                          "volumes (the code follows the '%s' design of Placement.tla; TLC: %s violated)" % (chosen, name),
                          {"direction": "tlc", "design": chosen, "trace": trace[:6000], "reproducer": REPRO_DISCHARGE})


def empty_density_probe(rep):
    """Inventory.tla leaves the density of an all-zero component to the material (not compared); the query must still answer.
    One call per material used by the shape families."""
    armi_ready()
    n = 0
    for mat in ("Custom", "HT9", "UZr", "Sodium"):
        c = gb.make_component("Circle", "probe", 1.0, mat, 1, 25.0, 450.0)
        c.p.numberDensities = {k: 0.0 for k in c.p.numberDensities}
        n += 1
        try:
            float(c.density())
        except Exception as ex:  # noqa: BLE001  an exception escaping a query is a verdict
            rep.violation("replay:density@leaf:empty-" + mat,
                          "Component.density() of a %s component whose number densities are all zero raises %s: %s" % (mat, type(ex).__name__, ex),
                          {"direction": "probe", "material": mat, "reproducer": REPRO_EMPTY})
    rep.add_replay("density-of-empty-component", n, n, "density() of an all-zero component of each material of the shape families must answer")


REPRO_EMPTY = """\
import armi; armi.isConfigured() or armi.configure(permissive=True)
from armi.reactor import components
c = components.Circle("coolant", "Sodium", Tinput=25.0, Thot=450.0, od=1.0, id=0.0, mult=1)
c.setNumberDensities({n: 0.0 for n in c.getNuclides()})          # voided coolant
try:
    print("density() =", c.density()); defect = False
except AttributeError as ex:
    print("density() raised AttributeError:", ex); defect = True
"""


def area_cache(rep):
    ad = AreaAdapter()
    chosen, first_divs = None, None
    for v in ("keyed", "asis"):
        res = run_tlc("AreaCache", "AreaCache_emit.cfg", {"C02_AREAKEY": v}, workers=1, coverage=False, extra=("-continue",))
        edges = [dict(p, obs={"act": p["to"]["act"]}) for p in res.prints if isinstance(p, dict) and "act" in p and "to" in p]
        g = rp.Graph(edges)
        n, nt, divs = rp.replay_graph(g, ad)
        if n == 0:
            raise tlc.MachineryError("AreaCache: no edges")
        if not divs:
            chosen = v
            rep.add_tlc("exhaustive+edges:AreaCache_emit.cfg[%s]" % v, res)
            rep.add_replay("area-cache-histories", n, nt,
                           "every query history (getArea hot/cold, Assembly.getVolume, Block.getVolume, clearCache) of length <= 4 "
                           "executed on a real HexAssembly; each answer classified as the hot or the cold area")
            break
        first_divs = first_divs or divs
    if chosen is None:
        chosen = "asis"
        for d in first_divs:
            rep.violation("replay:AreaCache:%s" % d["action"]["n"],
                          "Block.getArea/Assembly.getVolume follow neither the shared-slot nor the keyed cache design: %s" % d["first_difference"],
                          dict(d, direction="replay", adapter="area"))
    rep.note("Block.getArea cache design implemented by the code under test: %s" % chosen)
    env = {"C02_AREAKEY": chosen}
    if not _SELFTEST:
        res = run_tlc("AreaCache", "AreaCache_emit.cfg", env, workers=1, coverage=False, extra=("-continue",))  # cached
        what = {
            "AnswerIsWhatWasAsked": "Block.getArea(cold=True) returns the cached hot area after getArea() (and vice versa): the cache key ignores `cold`",
            "AssemblyVolumeIsSumOfBlocks": "after clearCache(); getArea(cold=True) the assembly volume is built from the cold area and differs "
                                           "from the sum of its blocks' volumes",
        }
        for name, trace in violations_of(res).items():
            rep.violation("tlc:" + name, "%s (the code conforms to the '%s' design of AreaCache.tla on every replayed history; TLC: %s violated)" % (
                what.get(name, name), chosen, name), {"direction": "tlc", "design": chosen, "trace": trace[:6000], "reproducer": REPRO_AREA})
    return chosen


# ------------------------------------------------------------------------------------------------------------
# the run
# ------------------------------------------------------------------------------------------------------------
ACTIONS = ("BSetN", "BUpdateN", "BSetNs", "BScale", "BClear", "BAddMass", "BRemoveMass", "BSetMass", "BSetMassFracs",
           "BAddMasses", "BSetMasses", "BSetHeight", "BAdjustDensity", "BAdjustEnrich", "BAdjustMF")


def replay_config(rep, cfg, env, families, label, max_edges=None, seed=0, weight_free_too=True, dt=True, narrow=False):
    """emit every state/edge of one configuration and execute it on the real trees"""
    import time as _t
    t0 = _t.time()
    res = run_tlc("Inventory_mc", cfg, env, workers=1, coverage=False)
    rep.extra.setdefault("phase_s", {})[label + ":wait-for-tlc"] = round(_t.time() - t0, 1)
    t0 = _t.time()
    try:
        return _replay_config(rep, res, cfg, env, families, label, max_edges, seed, weight_free_too, dt, narrow)
    finally:
        rep.extra["phase_s"][label + ":replay"] = round(_t.time() - t0, 1)


def _replay_config(rep, res, cfg, env, families, label, max_edges, seed, weight_free_too, dt, narrow):
    if res.violation:
        rep.violation("tlc:" + res.violation["name"], "TLC: %s violated in Inventory (%s)" % (res.violation["name"], cfg),
                      {"direction": "tlc", "cfg": cfg, "trace": res.violation["trace"][:20000]})
    if cfg not in rep.extra.setdefault("emitted_configs", []):
        rep.extra["emitted_configs"].append(cfg)
        rep.add_tlc("edges:" + cfg, res, constants_of(cfg))
    tree = tree_of(res)
    K, _ = units()
    out = []
    with weights(tree["w"]):
        ad = InvAdapter(tree, families, narrow=narrow)
        g, obs = graph_of(res, ad)
        n, nt, divs = rp.replay_graph(g, ad, max_edges=max_edges, rng=random.Random(seed))
        if n == 0:
            raise tlc.MachineryError("no edges replayed for " + cfg)
        names = {e["act"]["n"] + ("!" if e["err"] else "") for e in g.edges}
        rep.add_replay(label, n, nt,
                       "every edge (s,a,t) TLC explores is executed as path(s);a on a real core>HexAssembly>HexBlock>component tree "
                       "(families %s in turn, atomic weights = the model's); after it every query of every node is compared with "
                       "the specification's value; non-trivial = the edit changes the composition" % "/".join(families))
        for d in divs:
            out.append((key_of(d, ad), d, ad, False))
        if dt:
            nd, bad = density_tools_cases(obs.values(), K, ad.order)
            rep.add_replay(label + ":densityTools", nd, nd,
                           "densityTools.{calculateMassDensity,getMassFractions,getNDensFromMasses,getMassInGrams,calculateNumberDensity} "
                           "called once per distinct emitted (composition, volume); expected values are the specification's")
            for b in bad:
                rep.violation("dt:" + b["function"], "densityTools.%s disagrees with Inventory: %s" % (b["function"], b["first_difference"]),
                              dict(b, direction="densityTools", cfg=cfg))
        if g.edges:
            e = g.edges[len(g.edges) // 3]
            rep.sample({"kind": "edge", "cfg": cfg, "act": e["act"], "err": e["err"], "expected_core": e["obs"]["q"][-1]})
    if weight_free_too:
        # second pass, untouched atomic weights: weight-free edits and observables only
        ad2 = InvAdapter(tree, families, weight_free=True, narrow=narrow)
        g2, _ = graph_of(res, ad2, weight_free=True)
        n2, nt2, divs2 = rp.replay_graph(g2, ad2, max_edges=max_edges, rng=random.Random(seed))
        rep.add_replay(label + ":real-weights", n2, nt2,
                       "the edges whose path uses only number-density edits, replayed with the real atomic weights; volumes, keys, "
                       "number densities and atom counts compared")
        for d in divs2:
            out.append((key_of(d, ad2, "replay-real-weights"), d, ad2, True))
    for key, d, a, wf in out:
        rep.violation(key, "real objects diverge from Inventory after %s: %s" % (json.dumps(d["action"]), d["first_difference"]),
                      dict(d, direction="replay", cfg=cfg, tree=tree, families=a.families, weight_free=wf, env=env))
    return names, tree


DESIGNS = (  # tried in this order (the order only matters for speed: the first one is prefetched)
    {"C02_LEAFVOL": "full", "C02_SCALE": "ok"},
    {"C02_LEAFVOL": "cut", "C02_SCALE": "ok"},
    {"C02_LEAFVOL": "full", "C02_SCALE": "raises"},
    {"C02_LEAFVOL": "cut", "C02_SCALE": "raises"},
)


PROBE_NODES = (1, 5, 7)  # third-core tree: a component of a cut block, of an uncut block, a cut block


def choose_designs(rep):
    """Which of the documented design alternatives of Inventory.tla does the code implement?  Decided by conformance on the edges
    of the third-core emission that edit a component of a cut block, a component of an uncut block, and a cut block."""
    for env in DESIGNS:
        res = run_tlc("Inventory_mc", "Inventory_core_acct.cfg", env, workers=1, coverage=False)
        tree = tree_of(res)
        with weights(tree["w"]):
            ad = InvAdapter(tree, ["circle"], narrow=True)
            g, _ = graph_of(res, ad)
            g.edges = [e for e in g.edges if e["act"].get("x") in PROBE_NODES]
            n, nt, divs = rp.replay_graph(g, ad)
        if n and not divs:
            return dict(env)
    return dict(DESIGNS[0])


def run(rep, tier, seed):
    thorough = tier == "thorough"
    suffix = "_thorough" if thorough else ""
    mc = ["Inventory_core_mc%s.cfg" % suffix] + (["Inventory_blk_mc_thorough.cfg", "Inventory_edge_mc_thorough.cfg", "Inventory_core_geom_mc.cfg",
                                                  "Inventory_core_inv_thorough.cfg", "Inventory_edge_inv_thorough.cfg",
                                                  "Inventory_gap_inv_thorough.cfg", "Inventory_lfp_inv_thorough.cfg"] if thorough else [])
    emit = ["Inventory_core_acct.cfg", "Inventory_blk_acct.cfg", "Inventory_edge_acct.cfg", "Inventory_gap_acct.cfg",
            "Inventory_cart_acct.cfg", "Inventory_lfp_acct.cfg",
            "Inventory_core_geom_emit%s.cfg" % suffix] + (
        ["Inventory_blk_emit_thorough.cfg", "Inventory_core_emit_thorough.cfg", "Inventory_gap_emit_thorough.cfg"] if thorough else [])
    pool = concurrent.futures.ThreadPoolExecutor(max_workers=8 if not thorough else 6)
    sanys = [pool.submit(tlc.sany, m, MODDIR) for m in ("Inventory_mc", "Inventory_trace", "AreaCache", "Placement")]
    env0 = dict(DESIGNS[0])
    jobs = [("AreaCache", "AreaCache_emit.cfg", {"C02_AREAKEY": "keyed"}, dict(workers=1, coverage=False, extra=("-continue",))),
            ("Placement", "Placement_emit%s.cfg" % suffix, {"C02_DISCHARGE": "clears"}, dict(workers=1, coverage=False, extra=("-continue",)))]
    jobs += [("Inventory_mc", c, env0, dict(workers=1, coverage=False)) for c in emit]
    if not _SELFTEST:
        jobs += [("Inventory_mc", c, env0, dict(want_prints=False, coverage=False)) for c in mc]
        jobs += [("Inventory_mc", c, dict(env0, C02_MAXLEVEL="2"), dict(workers=1, coverage=False)) for c in mc
                 if not ("_inv_" in c and "gap" not in c and "lfp" not in c)]
        jobs += [("Inventory_mc", "Inventory_clauses.cfg", env0, dict(workers=1, want_prints=False, coverage=False, extra=("-continue",)))]
    prefetch(pool, jobs)
    armi_ready()  # ~3 s of imports while the JVMs run
    for f in sanys:
        f.result()
    rep.exhaustive = True

    # 0. which documented design alternatives does the code under test implement (decided by conformance, see spec headers)
    env = choose_designs(rep)
    design = env["C02_LEAFVOL"]
    rep.note("design alternatives of Inventory.tla the code under test conforms to: %s" % json.dumps(env))
    area_cache(rep)
    empty_density_probe(rep)
    placement(rep, thorough, seed)

    # code -> spec, first half: record the random edit histories now, let TLC validate them while the replays below run
    pending = []
    for tname, cfg in (("Core", "Inventory_core_trace.cfg"), ("Edge", "Inventory_edge_trace.cfg"), ("Gap", "Inventory_gap_trace.cfg"))[: 3 if thorough else 1]:
        tree = tree_of(run_tlc("Inventory_mc", "Inventory_%s_acct.cfg" % tname.lower(), env, workers=1, coverage=False))
        traces = trace_driver(tree, (60 if tname == "Gap" else 150) if thorough else 32, 14 if thorough else 8, seed, tname,
                              families=(["gap"] if tname == "Gap" else gb.FAMILIES))
        pending.append((tname, cfg, tree, traces,
                        pool.submit(tracecheck.validate, "Inventory_trace", cfg, MODDIR, traces, timeout=3000, env=env)))

    # 2. accounting clauses on every state one edit away + spec -> code on every emitted state and edge
    fams = list(gb.FAMILIES)
    seen = set()
    for cfg, label in (("Inventory_blk_acct.cfg", "block-tree"), ("Inventory_core_acct.cfg", "third-core-tree"),
                       ("Inventory_edge_acct.cfg", "edge-assemblies-tree")):
        names, _ = replay_config(rep, cfg, env, fams, label, seed=seed, narrow=not (thorough and label == "block-tree"),
                                 weight_free_too=(thorough or label != "edge-assemblies-tree"),
                                 max_edges=(None if thorough or label == "block-tree" else 600))
        seen |= names
    # a block whose Void gap has a (legal) negative hot area: read-back and additivity with a negative child volume
    names, _ = replay_config(rep, "Inventory_gap_acct.cfg", env, ["gap"], "closed-gap-block", seed=seed, narrow=False)
    seen |= names
    # quarter-core Cartesian model through the centre assembly: symmetry factors 4 / 2 / 1, interior assembly with a bottom block
    names, _ = replay_config(rep, "Inventory_cart_acct.cfg", env, ["circle", "mixed", "hot"], "cartesian-quarter-core", seed=seed, narrow=True,
                             weight_free_too=thorough, max_edges=(None if thorough else 500))
    seen |= names
    # a block with a real LFP collection: getNumberDensities(expandFissionProducts=True) at every level
    names, _ = replay_config(rep, "Inventory_lfp_acct.cfg", env, ["circle", "hot"], "lumped-fission-products", seed=seed, narrow=False, weight_free_too=thorough)
    seen |= names
    # histories three edits deep around a height change (edit above the block ; setHeight ; edit above it again): what a value
    # cached above the block across the geometry change would break
    names, _ = replay_config(rep, "Inventory_core_geom_emit%s.cfg" % ("_thorough" if thorough else ""), env, fams, "height-change-histories",
                             seed=seed, dt=False, max_edges=(5000 if thorough else 600), narrow=True)
    seen |= names
    if thorough:
        for fam in fams:  # every family on every edge of the two deep emissions
            replay_config(rep, "Inventory_blk_emit_thorough.cfg", env, [fam], "block-tree-2-edits:" + fam, seed=seed, dt=(fam == "circle"),
                          weight_free_too=(fam == "hot"), max_edges=(6000 if fam == "circle" else 2500))
        replay_config(rep, "Inventory_core_emit_thorough.cfg", env, fams, "third-core-tree-2-edits", seed=seed, dt=False, max_edges=4000, narrow=True)
        replay_config(rep, "Inventory_gap_emit_thorough.cfg", env, ["gap"], "closed-gap-block-2-edits", seed=seed, dt=False, max_edges=3000)
    need = {"SetN", "SetN!", "UpdateN", "SetNs", "Scale", "Clear", "AddMass", "AddMass!", "RemoveMass", "SetMass", "SetMass!",
            "SetMassFracs", "SetMassFracs!", "AddMasses", "AddMasses!", "SetMasses", "SetMasses!", "SetHeight", "SetHeight!",
            "AdjustDensity", "AdjustEnrich", "AdjustMF", "AdjustMF!"}
    seen = {x.rstrip("!") if x.startswith("Scale") else x for x in seen}
    if need - seen:
        raise tlc.MachineryError("vacuous: never replayed: %s" % sorted(need - seen))

    # 1. (collected after the replays: the JVMs have been running since the start) exhaustive TLC: read-back clauses on every edge two edits deep (accounting clauses are checked in step 2's runs)
    if not _SELFTEST:
        for cfg in mc:
            # TLC's coverage instrumentation costs a factor ten here: the deep run goes without it, non-vacuity comes from the same
            # configuration run one edit deep with one worker and the specification's own per-action counters (every action taken
            # from the initial state is taken in the deep run too)
            res = run_tlc("Inventory_mc", cfg, env, want_prints=False, coverage=False)
            rep.add_tlc("exhaustive:" + cfg, res, constants_of(cfg))
            if res.violation:
                rep.violation("tlc:" + res.violation["name"], "TLC: %s violated in Inventory (%s)" % (res.violation["name"], cfg),
                              {"direction": "tlc", "cfg": cfg, "trace": res.violation["trace"][:20000]})
            if "_inv_" in cfg and "gap" not in cfg and "lfp" not in cfg:
                continue  # one edit deep: the same first level as the emitted *_acct configuration, whose actions are counted by the replay
            cov = run_tlc("Inventory_mc", cfg, dict(env, C02_MAXLEVEL="2"), workers=1, coverage=False)
            rep.add_tlc("action counts (one edit deep, one worker):" + cfg, cov)
            counts = [p["counts"] for p in cov.prints if isinstance(p, dict) and "counts" in p]
            if not counts:
                raise tlc.MachineryError("no action counts printed by " + cfg)
            rep.tlc[-1]["actions"] = dict(zip(ACTIONS, counts[0]))
            skip = ("BUpdateN", "BSetNs", "BScale", "BSetMassFracs", "BSetMasses", "BAdjustDensity", "BAdjustEnrich",
                    "BAdjustMF") if "geom" in cfg else ()  # narrow by construction
            never = [a for a, c in zip(ACTIONS, counts[0]) if a not in skip and c == 0]
            if never:
                raise tlc.MachineryError("vacuous: actions never taken in %s: %s" % (cfg, never))
        # the clauses that depend on the design alternatives, for the designs the code implements
        res = run_tlc("Inventory_mc", "Inventory_clauses.cfg", env, workers=1, want_prints=False, coverage=False, extra=("-continue",))
        rep.add_tlc("exhaustive:Inventory_clauses.cfg%s" % json.dumps(env), res)
        what = {
            "CutLeafMassesAgree": ("on a component of a block cut by symmetry lines getMasses()[n] and getNumberOfAtoms(n) are Sym times "
                                   "getMass(n) / density x volume in the model", REPRO_CUTLEAF),
            "CutLeafReadBack": ("on a component of a block cut by symmetry lines setMass(n, m) reads back getMass(n) = m/Sym "
                                "(addMass/removeMass change it by m/Sym)", REPRO_CUTLEAF),
            "ScaleAtAnyLevel": ("changeNDensByFactor on a block / assembly / core sets the scaled densities and then raises AttributeError "
                                "(no parameter pinNDens / detailedNDens above component level)", REPRO_SCALE),
        }
        for name, trace in violations_of(res).items():
            w_, repro = what.get(name, (name, ""))
            rep.violation("tlc:" + name, "%s (the code conforms to Inventory with the designs %s on every replayed edge; TLC: %s violated)" % (
                w_, json.dumps(env), name), {"direction": "tlc", "design": env, "trace": trace[:8000], "reproducer": repro})

    # 3. code -> spec: random edit histories on the real trees, validated by TLC
    for tname, cfg, tree, traces, fut in pending:
        bad, stats = fut.result()
        rep.add_tlc("trace-validation:" + cfg, stats["tlc"])
        rep.add_traces("random-edit-histories:" + tname, len(traces), sum(len(t["ev"]) for t in traces),
                       "seeded random edit histories (all twelve edits incl. vector mass calls and block height changes, any node, richer parameters than the exhaustive runs) on real trees; "
                       "every event (call, arguments, every component's numberDensities and keys and every block height afterwards, exception kind) must be a step of Inventory")
        if traces:
            rep.sample({"kind": "trace", "tree": tname, "id": traces[0]["id"], "events": traces[0]["ev"][:2]})
        for b in bad:
            ev = b["trace"]["ev"]
            k = b["matched"]
            nxt = ev[k] if k < len(ev) else {}
            a = nxt.get("a", {})
            rep.violation("trace:%s@%s" % (a.get("n", b.get("invariant", "?")), kind_of(tree, a.get("x"))),
                          "recorded history is not a behaviour of Inventory at event %d (%s) %s" % (
                              k + 1, json.dumps(a), json.dumps(b.get("mismatch", ""))[:500]),
                          {"direction": "trace", "tree": tree, "trace": b["trace"], "matched": k, "tlc": b.get("tlc")})
    pool.shutdown(wait=False)
    rep.assume(
        "all blocks of one assembly have the same cross-section and symmetry factor (Assembly.getVolume = first-block area x total height)",
        "volume of a component 'in the model' = getVolume()/parent.getSymmetryFactor(); mass = density x volume and atom agreement are stated with it",
        "atomic weights of U235/U238/NA23 set in-process to the model's integers (2, 3, 5) for the weighted pass; real weights for the weight-free pass",
        "masses in the model are K*grams, K = MOLES_PER_CC_TO_ATOMS_PER_BARN_CM; atoms in 1e24; tolerances rtol=%g atol=%g" % (RTOL, ATOL),
        "Component.density() deferring to the material for an all-zero composition is outside the property (not compared)",
        "removeMass never removes everything; no negative densities; setMassFracs read-back claimed for feasible requests",
        "clearNumberDensities' TRACE_NUMBER_DENSITY (1e-50) is 0 in the model; mass fractions are not compared where the density is 0",
        "geometry changes between composition edits are block height changes (setHeight with and without conserveMass); component "
        "dimension / temperature changes belong to C03",
        "vector calls addMasses / setMasses are applied entry by entry in dict order; read-back is claimed for the calls that complete, "
        "removal entries never remove everything",
    )


def kind_of(tree, x):
    if x is None:
        return "-"
    nl, nb, na = tree["nleaf"], tree["nblk"], tree["nasm"]
    return "leaf" if x <= nl else "blk" if x <= nl + nb else "asm" if x <= nl + nb + na else "core"


# ------------------------------------------------------------------------------------------------------------
# trace driver (code -> spec)
# ------------------------------------------------------------------------------------------------------------
VALS = [Fraction(0), Fraction(1, 2), Fraction(1), Fraction(3, 2), Fraction(2), Fraction(3), Fraction(1, 3), Fraction(5, 2)]
FACS = [Fraction(1, 2), Fraction(2), Fraction(3), Fraction(3, 2), Fraction(1, 3)]
MASSES = [Fraction(1), Fraction(2), Fraction(6), Fraction(1, 2), Fraction(5, 2)]
FRACS = [Fraction(1, 2), Fraction(1, 4), Fraction(1, 5), Fraction(1, 3), Fraction(0), Fraction(1), Fraction(2, 5)]


def rat(q):
    return [q.numerator, q.denominator]


def snapshot(ad, w):
    """every component's numberDensities as exact rationals of the model's bounded domain, or None if outside it"""
    N, H = [], []
    lcm = 1
    for l in w.leaves:
        d = w.node[l].p.numberDensities
        row = {}
        for k in ORDER:
            v = float(d.get(NAMES[k], 0.0))
            q = Fraction(v).limit_denominator(LMAX)
            if abs(float(q) - v) > 1e-12 * max(1.0, abs(v)) or q < 0 or q > VMAX:
                return None
            lcm = lcm * q.denominator // _gcd(lcm, q.denominator)
            if lcm > LMAX:
                return None
            row[k] = rat(q)
        N.append(row)
        H.append([k for k in ORDER if NAMES[k] in d])
    hgt = []
    for b in w.blocks:
        h = float(w.node[b].getHeight())
        if h != int(h):
            return None
        hgt.append(int(h))
    return {"N": N, "H": H, "hgt": hgt, "_lcm": lcm}


def _gcd(a, b):
    while b:
        a, b = b, a % b
    return a


def trace_driver(tree, ntraces, nev, seed, tname, families=gb.FAMILIES):
    rng = random.Random(seed * 104729 + len(tname))
    K, _ = units()
    traces = []
    with weights(tree["w"]):
        ads = {fam: InvAdapter(tree, [fam]) for fam in families}
        for t in range(ntraces):
            fam = families[t % len(families)]
            ad = ads[fam]
            # a random initial composition from the parameter pool
            N0 = [{k: rat(rng.choice(VALS[1:])) if rng.random() < 0.6 and tree["area"][l] > 0 else [0, 1] for k in ORDER}
                  for l in range(tree["nleaf"])]  # (a Void gap of negative area starts empty)
            root = {"N": N0, "H": [[N0[l][k] != [0, 1] or (rng.random() < 0.15 and tree["area"][l] > 0) for k in ORDER]
                                   for l in range(tree["nleaf"])],
                    "hgt": [rng.choice(tree["hdom"]) for _ in range(tree["nblk"])]}
            for l in range(tree["nleaf"]):  # a key that is not held has density 0
                for i, k in enumerate(ORDER):
                    if not root["H"][l][i]:
                        root["N"][l][k] = [0, 1]
            w = ad.build(root)
            init = snapshot(ad, w)
            lcm = init.pop("_lcm")
            ev = []
            cleared = False
            for _ in range(nev):
                a = random_action(ad, w, rng, K, cleared, lcm <= LSRC)
                if a is None:
                    continue
                try:
                    err = ad.apply(w, a)
                    snap = snapshot(ad, w)
                    if snap is None:
                        # not a rational of the model's bounded domain of magnitudes: the history ends here, and TLC accepts this
                        # event only if the model agrees that the edit leaves the domain
                        ev.append({"a": a, "post": {"outside": True}})
                        break
                    lcm = snap.pop("_lcm")
                    ev.append({"a": a, "post": dict(snap, err=err)})
                    cleared = cleared or (a["n"] in ("Clear", "SetMasses"))
                except Exception as ex:  # noqa: BLE001  an escaping exception ends the history; TLC rejects the event
                    ev.append({"a": a, "post": {"N": init["N"], "H": init["H"], "hgt": init["hgt"], "err": "exception %s: %s" % (type(ex).__name__, str(ex)[:200])}})
                    break
            traces.append({"id": "%s-%s-%d" % (tname, fam, t), "init": init, "ev": ev})
    return traces


def random_action(ad, w, rng, K, cleared, tame=True):
    x = rng.randrange(1, ad.nnode + 1)
    if ad.kind[x] == "leaf" and ad.tree["area"][x - 1] < 0:
        return None  # the Void gap itself is not edited directly
    o = w.node[x]
    leaf = ad.kind[x] == "leaf"
    kind = rng.choice(["SetN", "SetN", "UpdateN", "SetNs", "Scale", "Clear", "AddMass", "AddMass", "RemoveMass", "SetMass", "SetMass",
                       "SetMassFracs", "SetMassFracs", "AddMasses", "AddMasses", "SetMasses", "SetHeight", "SetHeight", "SetHeight",
                       "AdjustDensity", "AdjustEnrich", "AdjustEnrich", "AdjustMF", "AdjustMF"])
    nuc = rng.choice(ORDER)

    def have(k):  # the mass the edit itself works with: density x the volume addMass/setMass use
        m = o.getNumberDensity(NAMES[k]) * o.getVolume() * _weight(k)
        if ad.tree.get("leafVolCut") and leaf:
            m /= o.parent.getSymmetryFactor()
        return m

    if kind == "SetHeight":
        b = rng.choice(w.blocks)
        blk = w.node[b]
        hs = [h for h in ad.tree["hdom"] if float(h) != blk.getHeight()]
        cons = rng.random() < 0.6
        adj = [cons and rng.random() < 0.6 for _ in ORDER]  # all, proper subsets, empty (ValueError), nuclides nobody holds
        return {"n": kind, "x": b, "h": rng.choice(hs), "cons": cons, "adj": adj}
    if kind == "AdjustDensity":
        return {"n": kind, "x": rng.choice(w.blocks), "f": rat(rng.choice(FACS)), "adj": [rng.random() < 0.5 for _ in ORDER]}
    if kind in ("AdjustEnrich", "AdjustMF") and (cleared or not tame):
        return None
    if kind == "AdjustEnrich":
        if not leaf:
            x = rng.choice([l for l in w.leaves if ad.tree["area"][l - 1] > 0])
            o = w.node[x]
        d = o.p.numberDensities
        if NAMES["a"] not in d or not any(d.get(NAMES[k], 0.0) for k in ("b", "d")):
            return None  # KeyError / ZeroDivisionError in adjustMassEnrichment: not requested
        return {"n": kind, "x": x, "f": rat(rng.choice([Fraction(1, 5), Fraction(1, 2), Fraction(1, 20), Fraction(3, 4)]))}
    if kind == "AdjustMF":
        adj, hold = rng.choice([("a", ""), ("a", "b"), ("c", ""), ("c", "E"), ("d", "c"), ("E", ""), ("E", "c"), ("b", "a"), ("d", "")])
        v = rng.choice([Fraction(1, 10), Fraction(1, 4), Fraction(1, 2), Fraction(1, 5), Fraction(3, 4)])
        if leaf and not any(o.p.numberDensities.values()):
            return None
        here = set(o.getNuclides())
        if not any(o.getNumberDensity(n) for n in here):
            return None
        members = {"E": ["a", "b", "d"], "": []}
        cn = [NAMES[k] for k in members.get(hold, [hold]) if NAMES[k] in here]
        an = [NAMES[k] for k in members.get(adj, [adj]) if NAMES[k] in here]
        csum = sum(o.getMassFrac(n) for n in cn)
        if an and float(v) + csum > 1.0 - 1e-6:
            return None  # legal request: the adjusted and the held fractions fit into one
        return {"n": kind, "x": x, "adj": adj, "hold": hold, "v": rat(v)}
    if kind == "AddMasses":
        ks = sorted(rng.sample(ORDER, rng.randrange(1, 4)))
        m = {}
        for k in ks:
            q = rng.choice(MASSES + [Fraction(0)])
            if rng.random() < 0.4:  # a removal entry: legal use never removes all there is
                if not float(q) < have(k) * (1 - 1e-9):
                    continue
                q = -q
            m[k] = rat(q)
        return {"n": kind, "x": x, "m": m} if m else None
    if kind == "SetMasses":
        ks = sorted(rng.sample(ORDER, rng.randrange(1, 4)))
        return {"n": kind, "x": x, "m": {k: rat(rng.choice(MASSES + [Fraction(0)])) for k in ks}}
    if kind == "SetN":
        return {"n": kind, "x": x, "nuc": nuc, "v": rat(rng.choice(VALS))}
    if kind in ("UpdateN", "SetNs"):
        ks = rng.sample(ORDER, rng.randrange(0 if kind == "SetNs" else 1, 4))  # setNumberDensities({}) voids the object
        return {"n": kind, "x": x, "m": {k: rat(rng.choice(VALS)) for k in sorted(ks)}}
    if kind == "Scale":
        return {"n": kind, "x": x, "f": rat(rng.choice(FACS))}
    if kind == "Clear":
        return {"n": kind, "x": x} if o.getNuclides() else None
    if kind in ("AddMass", "SetMass"):
        return {"n": kind, "x": x, "nuc": nuc, "m": rat(rng.choice(MASSES))}
    if kind == "RemoveMass":
        m = rng.choice(MASSES)
        # legal use: never all there is
        return {"n": kind, "x": x, "nuc": nuc, "m": rat(m)} if float(m) < have(nuc) * (1 - 1e-9) else None
    if kind == "SetMassFracs":
        if cleared or not tame:
            return None
        ks = sorted(rng.sample(ORDER, rng.randrange(1, 4)))
        fm, tot = {}, Fraction(0)
        for k in ks:
            f = rng.choice([f for f in FRACS if tot + f <= 1])
            fm[k] = f
            tot += f
        here = set(o.getNuclides())
        if leaf and not any(o.p.numberDensities.values()):
            return None  # Component.density() would defer to the material: outside the model
        absent = [k for k in ks if NAMES[k] not in here and fm[k] != 0]
        if absent and not leaf and len(ks) > 1 and any(o.getNumberDensity(n) for n in here):
            return None  # a longer map is applied partially before the ValueError: not modelled
        return {"n": kind, "x": x, "m": {k: rat(fm[k]) for k in ks}}
    return None


def _weight(k):
    from armi.nucDirectory import nuclideBases

    return nuclideBases.byName[NAMES[k]].weight


# ------------------------------------------------------------------------------------------------------------
def replay(payload):
    d = payload.get("direction")
    if d == "replay" and payload.get("adapter") in ("area", "placement"):
        ad = AreaAdapter() if payload["adapter"] == "area" else PlacementAdapter()
        steps = [{"act": a, "obs": {}} for a in payload["behaviour"]]
        steps[-1]["obs"] = payload["expected"]
        r = rp.run_behaviour(ad, payload.get("root"), steps, check_from=len(steps) - 1)
        print(json.dumps(r, indent=1, default=str) if r else "no divergence: behaviour conforms")
        return 1 if r else 0
    if d == "replay":
        tree = payload["tree"]
        wf = payload.get("weight_free", False)
        fams = payload.get("families", ["circle"])
        worst = None
        with weights(None if wf else tree["w"]):
            for fam in fams:
                ad = InvAdapter(tree, [fam], weight_free=wf)
                steps = [{"act": a, "obs": {}} for a in payload["behaviour"]]
                steps[-1]["obs"] = payload["expected"]
                r = rp.run_behaviour(ad, payload["root"], steps, check_from=len(steps) - 1)
                print("family %-8s %s" % (fam, r["first_difference"] if r else "conforms"))
                worst = worst or r
        if worst:
            print(json.dumps({k: worst[k] for k in ("behaviour", "first_difference")}, indent=1, default=str))
        return 1 if worst else 0
    if d in ("tlc", "probe"):
        print(payload.get("what", ""))
        print(payload.get("trace", "")[:3000])
        print("---- stand-alone reproducer, executed now against the code under test:")
        print(payload.get("reproducer", ""))
        ns = {}
        exec(payload.get("reproducer", "defect = True"), ns)  # noqa: S102  our own script, stored with the finding
        print("---- defect present: %s" % ns.get("defect"))
        return 1 if ns.get("defect") else 0
    print("replay of direction=%s: see payload (recorded trace / densityTools case)" % d)
    return 0


# ------------------------------------------------------------------------------------------------------------
def selftest():
    """In-process mutants of the anchored code; each must be detected by replay / densityTools cases / trace validation."""
    global _SELFTEST
    import time

    from harness.report import Report
    from harness.selftest import patched

    armi_ready()
    from armi.nucDirectory import nucDir
    from armi.reactor import assemblies, blocks, composites
    from armi.reactor.components import component
    from armi.utils import densityTools
    from armi.utils import units as U

    _SELFTEST = True
    A, C = composites.ArmiObject, component.Component
    KK = U.MOLES_PER_CC_TO_ATOMS_PER_BARN_CM

    def detect():
        rep = Report("C02", "quick", 0)
        run(rep, "quick", 0)
        return [v["key"] for v in rep.violations]

    import numpy as np

    def nnd_by_area(self, nucNames):
        volumes = np.array([c.getArea() / (c.parent.getSymmetryFactor() if c.parent else 1.0) for c in self])
        tot = volumes.sum()
        if tot == 0.0:
            return [0.0] * len(nucNames)
        dens = np.array([[c.getNumberDensities().get(n, 0.0) for n in nucNames] for c in self])
        return volumes.dot(dens) / tot

    def nnd_sym_twice(self, nucNames):
        volumes = np.array([c.getVolume() / (c.getSymmetryFactor() * (c.parent.getSymmetryFactor() if c.parent else 1.0)) for c in self])
        tot = volumes.sum()
        if tot == 0.0:
            return [0.0] * len(nucNames)
        dens = np.array([[c.getNumberDensities().get(n, 0.0) for n in nucNames] for c in self])
        return volumes.dot(dens) / tot

    def getmass_nosym(self, nuclideNames=None):
        names = self._getNuclidesFromSpecifier(nuclideNames)
        nd = dict(zip(names, self.getNuclideNumberDensities(names)))
        return densityTools.calculateMassDensity(nd) * self.getVolume()

    def getmass_symtwice(self, nuclideNames=None):
        s = self.parent.getSymmetryFactor() if self.parent else 1.0
        names = self._getNuclidesFromSpecifier(nuclideNames)
        nd = dict(zip(names, self.getNuclideNumberDensities(names)))
        return densityTools.calculateMassDensity(nd) * self.getVolume() / s / s

    def setnd_total(self, nucName, val):
        active = self.getChildrenWithNuclides({nucName})
        if not active and val:
            raise ValueError("absent")
        for child in active:
            child.setNumberDensity(nucName, val)

    def setnd_norefusal(self, nucName, val):
        active = self.getChildrenWithNuclides({nucName})
        if not active:
            return
        frac = sum(vf for ci, vf in self.getVolumeFractions() if ci in active)
        for child in active:
            child.setNumberDensity(nucName, val / frac)

    def setmassfracs_bad_remainder(self, massFracs):
        rho = self.density()
        if not rho:
            raise ValueError("zero")
        old = self.getMassFracs()
        for n, mf in massFracs.items():
            self.setNumberDensity(n, mf * rho * KK / nucDir.getAtomicWeight(n))
            old.pop(n, None)
        tot = sum(old.values())
        if tot:
            for n, v in old.items():  # forgets the factor (1 - totalFracSet)
                self.setNumberDensity(n, v / tot * rho * KK / nucDir.getAtomicWeight(n))

    orig_upd = A.updateNumberDensities

    def update_skips_new(self, numberDensities):
        here = self.getNuclides()
        orig_upd(self, {k: v for k, v in numberDensities.items() if k in here})

    def blk_vol_nosym(self):
        return sum(c.getVolume() for c in self)

    def asm_vol_blocks(self):
        return self[0].getVolume() * len(self)

    def massfracs_by_number(numberDensities):
        tot = sum(numberDensities.values())
        return {k: (v / tot if tot else 0.0) for k, v in numberDensities.items()}

    def numdens_no_weight(nucName, mass, volume):
        return KK * mass / volume

    def comp_setnds_keep(self, numberDensities):
        self.updateNumberDensities(numberDensities, wipe=False)

    def addmass_overwrites(self, nucName, mass):
        self.setNumberDensity(nucName, densityTools.calculateNumberDensity(nucName, mass, self.getVolume()))

    def sym_centre_one(self):
        return 1.0

    def scale_comp_skips_zero_keys(self, factor):
        self.p.numberDensities = {n: d * factor for n, d in self.p.numberDensities.items() if d}

    def getmasses_area(self):
        nd = self.getNumberDensities()
        vol = self.getVolume()
        return {n: densityTools.getMassInGrams(n, vol, d) * (1.0 if len(nd) < 3 else 1.0 + 1e-6) for n, d in nd.items()}

    def density_plain_sum(self):
        return sum(self.getNumberDensity(n) for n in self.getNuclides()) / KK

    def spec_no_elements(self, nucSpec):
        here = self.getNuclides()
        if nucSpec is None:
            return here
        if isinstance(nucSpec, str):
            return [nucSpec]
        out = []
        for s in nucSpec:
            out.extend(self._getNuclidesFromSpecifier(s))
        return sorted(set(out))

    def volfracs_cached(self):
        fracs = self._getCached("volumeFractions")
        if fracs:
            return fracs
        children = self.getChildren()
        numerator = [c.getVolume() for c in children]
        denom = sum(numerator)
        if denom == 0.0:
            numerator = [c.getArea() for c in children]
            denom = sum(numerator)
        fracs = [(ci, nu / denom) for ci, nu in zip(children, numerator)]
        self._setCache("volumeFractions", fracs)
        return fracs

    def addmasses_positive_only(self, masses):
        for nucName, mass in masses.items():
            if mass > 0.0:
                self.addMass(nucName, mass)

    def setmasses_no_clear(self, masses):
        for nucName, mass in masses.items():
            self.setMass(nucName, mass)

    def setheight_no_cache_clear(self, modifiedHeight, conserveMass=False, adjustList=None):
        originalHeight = self.getHeight()
        self.p.height = modifiedHeight
        if conserveMass and originalHeight != modifiedHeight:
            self.adjustDensity(originalHeight / modifiedHeight, adjustList)
        if self.parent:
            self.parent.calculateZCoords()

    from armi.reactor import grids as _grids
    from armi.reactor.converters import geometryConverters as gc
    from armi.nucDirectory import nuclideBases as _nb

    def remove_edges_clears_wrong(self, core):
        if core.isFullCore:
            return
        edge = core.getAssembliesOnSymmetryLine(_grids.BOUNDARY_120_DEGREES)
        for a in edge:
            core.removeAssembly(a, discharge=False)
        if edge:
            for a in edge:  # seeded: the removed ones instead of the ones on the lower symmetry line
                a.clearCache()
        self.reset()

    def volfracs_clip_negative(self):
        children = self.getChildren()
        numerator = [max(c.getVolume(), 0.0) for c in children]
        denom = sum(numerator)
        if denom == 0.0:
            numerator = [c.getArea() for c in children]
            denom = sum(numerator)
        return [(ci, nu / denom) for ci, nu in zip(children, numerator)]

    def enrich_natural_only(self, massFraction):
        enriched = _nb.byName[self.material.enrichedNuclide]
        base = [nb.name for nb in enriched.element.getNaturalIsotopics()]
        if enriched.name not in base:
            base.append(enriched.name)
        before = self.getMassFracs()
        elem = sum(v for k, v in before.items() if k in base)
        adjusted = {enriched.name: elem * massFraction}
        base.remove(enriched.name)
        rest = elem - before[enriched.name]
        for b in base:
            frac = before.get(b, 0.0) / rest
            if frac:
                adjusted[b] = elem * (1 - massFraction) * frac
        self.setMassFracs(adjusted)

    def adjustdensity_setall(self, frac, adjustList, returnMass=False):
        dens = self.getNuclideNumberDensities(adjustList)
        new = {n: d * frac + U.TRACE_NUMBER_DENSITY for n, d in zip(adjustList, dens) if d}
        self.setNumberDensities(new)
        return 0.0

    def scale_recurses(self, factor):
        for c in self.getChildren(deep=True):
            c.changeNDensByFactor(factor)

    def getmass_fast_total(self, nuclideNames=None):
        if not nuclideNames:  # seeded: an empty selection is taken for "no selection"
            return sum(c.getMass() for c in self)
        return sum(c.getMass(nuclideNames=nuclideNames) for c in self)

    def cart_sym_any_zero(self):
        if self.core is not None:
            indices = self.spatialLocator.getCompleteIndices()
            if self.core.symmetry.isThroughCenterAssembly:
                if indices[0] == 0 and indices[1] == 0:
                    return 4.0
                elif 0 in indices:  # seeded: also the axial index
                    return 2.0
        return 1.0

    def expand_lfps_merge(self, numberDensities):
        coll = self.getLumpedFissionProductCollection()
        if coll:
            numberDensities = {**numberDensities, **coll.getNumberDensities(self)}  # seeded: overwritten instead of summed
            for name in coll:
                numberDensities.pop(name, None)
        return numberDensities

    orig_comp_update = C.updateNumberDensities

    def comp_update_skips_empty(self, numberDensities, wipe=False):
        if not numberDensities:  # seeded: "nothing to update" -- but setNumberDensities({}) relies on the wipe
            return
        return orig_comp_update(self, numberDensities, wipe=wipe)

    P = patched
    mutants = [
        ("round 3 seed 1: Composite.getMass takes an empty selection for the total", lambda: P(composites.Composite, "getMass", getmass_fast_total)),
        ("round 3 seed 3: CartesianBlock.getSymmetryFactor also looks at the axial index", lambda: P(blocks.CartesianBlock, "getSymmetryFactor", cart_sym_any_zero)),
        ("round 3 seed 4: _expandLFPs overwrites explicit densities with the lumped share", lambda: P(A, "_expandLFPs", expand_lfps_merge)),
        ("round 3 seed 5: Component.updateNumberDensities returns early on an empty vector", lambda: P(C, "updateNumberDensities", comp_update_skips_empty)),
        ("round 2 seed 1: removeEdgeAssemblies clears the caches of the removed assemblies", lambda: P(gc.EdgeAssemblyChanger, "removeEdgeAssemblies", remove_edges_clears_wrong)),
        ("round 2 seed 2: getVolumeFractions clips negative child volumes", lambda: P(A, "getVolumeFractions", volfracs_clip_negative)),
        ("round 2 seed 3: adjustMassEnrichment trades against natural isotopes only", lambda: P(C, "adjustMassEnrichment", enrich_natural_only)),
        ("round 2 seed 4: Block.adjustDensity applies with setNumberDensities", lambda: P(blocks.Block, "adjustDensity", adjustdensity_setall)),
        ("round 2 seed 5: changeNDensByFactor scales every deep descendant", lambda: P(A, "changeNDensByFactor", scale_recurses)),
        ("seed 3: getVolumeFractions cached across a block height change", lambda: P(A, "getVolumeFractions", volfracs_cached)),
        ("seed 5: addMasses skips removal (negative) entries", lambda: P(A, "addMasses", addmasses_positive_only)),
        ("setMasses forgets to clear the unlisted nuclides", lambda: P(A, "setMasses", setmasses_no_clear)),
        ("Block.setHeight does not invalidate the cached component volumes", lambda: P(blocks.Block, "setHeight", setheight_no_cache_clear)),
        ("homogenisation weighted by area instead of volume", lambda: P(A, "getNuclideNumberDensities", nnd_by_area)),
        ("homogenisation applies the children's symmetry factor again", lambda: P(A, "getNuclideNumberDensities", nnd_sym_twice)),
        ("Component.getMass omits the symmetry factor", lambda: P(C, "getMass", getmass_nosym)),
        ("Component.getMass applies the symmetry factor twice", lambda: P(C, "getMass", getmass_symtwice)),
        ("setNumberDensity divides by the total instead of the active volume fraction", lambda: P(A, "setNumberDensity", setnd_total)),
        ("setNumberDensity silently ignores a nuclide nobody holds", lambda: P(A, "setNumberDensity", setnd_norefusal)),
        ("setMassFracs normalises the remainder to 1 instead of 1 - sum", lambda: P(A, "setMassFracs", setmassfracs_bad_remainder)),
        ("updateNumberDensities drops nuclides nobody holds", lambda: P(A, "updateNumberDensities", update_skips_new)),
        ("Block.getVolume forgets the symmetry factor", lambda: P(blocks.Block, "getVolume", blk_vol_nosym)),
        ("Assembly.getVolume = first block volume x number of blocks", lambda: P(assemblies.Assembly, "getVolume", asm_vol_blocks)),
        ("densityTools.getMassFractions normalises by atoms, not by weight", lambda: P(densityTools, "getMassFractions", massfracs_by_number)),
        ("densityTools.calculateNumberDensity forgets the atomic weight", lambda: P(densityTools, "calculateNumberDensity", numdens_no_weight)),
        ("Component.setNumberDensities keeps unlisted keys", lambda: P(C, "setNumberDensities", comp_setnds_keep)),
        ("addMass overwrites instead of adding", lambda: P(A, "addMass", addmass_overwrites)),
        ("HexBlock.getSymmetryFactor is 1 at the centre of a third core", lambda: P(blocks.HexBlock, "getSymmetryFactor", sym_centre_one)),
        ("Component.changeNDensByFactor drops zero-valued keys", lambda: P(C, "changeNDensByFactor", scale_comp_skips_zero_keys)),
        ("getMasses off by 1e-6 when three nuclides are present", lambda: P(A, "getMasses", getmasses_area)),
        ("density() sums number densities without atomic weights", lambda: P(A, "density", density_plain_sum)),
        ("getMass does not expand element symbols", lambda: P(A, "_getNuclidesFromSpecifier", spec_no_elements)),
    ]
    if os.environ.get("C02_SELFTEST_MUTANTS"):  # e.g. "0:3" -- a slice of the list, for a short run
        lo, _, hi = os.environ["C02_SELFTEST_MUTANTS"].partition(":")
        mutants = mutants[int(lo or 0): int(hi) if hi else None]
    t0 = time.time()
    try:
        base = detect()
        print("baseline (unmutated): %s" % ("clean" if not base else "findings %s" % base))
        missed = 0
        for label, cm in mutants:
            try:
                with cm():
                    found = [k for k in detect() if k not in base]
            except Exception as ex:  # noqa: BLE001
                found = ["harness-exception:%s:%s" % (type(ex).__name__, str(ex)[:80])]
            if found:
                print("caught  %-75s %s" % (label, found[:3]))
            else:
                missed += 1
                print("MISSED  %-75s" % label)
        # the trace validator itself: a corrupted value and a dropped event must both be rejected, the untouched trace accepted
        import copy

        env = choose_designs(None)
        tree = tree_of(run_tlc("Inventory_mc", "Inventory_core_acct.cfg", env, workers=1, coverage=False))
        tr = [t for t in trace_driver(tree, 60, 8, 0, "Core") if len(t["ev"]) >= 3 and "outside" not in t["ev"][-1]["post"]]
        t1 = copy.deepcopy(tr[0])
        t1["id"] = "corrupted-value"
        q = t1["ev"][1]["post"]["N"][0]["a"]
        t1["ev"][1]["post"]["N"][0]["a"] = [q[0] + 1, q[1]]
        # an event that changed the composition, followed by a refused one (nothing changed): without the first, the second cannot
        # have the logged post-state
        t2 = None
        for t in tr[1:]:
            for i in range(len(t["ev"]) - 1):
                prev = t["ev"][i - 1]["post"] if i else t["init"]
                nxt = t["ev"][i + 1]["post"]
                if t["ev"][i]["post"]["N"] != prev["N"] and nxt["N"] == t["ev"][i]["post"]["N"] and nxt["err"] == "ValueError":
                    t2 = copy.deepcopy(t)
                    del t2["ev"][i]
                    break
            if t2:
                break
        if t2 is None:
            raise tlc.MachineryError("selftest: no recorded trace with a changing event followed by a refused one")
        t2["id"] = "dropped-event"
        tr = [tr[0], tr[1], tr[1] if len(tr) < 3 else tr[2]]
        bad, _ = tracecheck.validate("Inventory_trace", "Inventory_core_trace.cfg", MODDIR, [t1, t2, tr[2]], env=env)
        got = sorted(b["trace"]["id"] for b in bad)
        ok = got == ["corrupted-value", "dropped-event"]
        print("%s  trace validator rejects a corrupted value and a dropped event, accepts the recorded trace   %s" % ("caught" if ok else "MISSED", got))
        missed += 0 if ok else 1
        print("selftest: %d mutants + 1 validator check, %d missed, %.1fs" % (len(mutants), missed, time.time() - t0))
        return 0 if not missed else 1
    finally:
        _SELFTEST = False
