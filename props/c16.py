"""C16 -- retained state is restored exactly; parameter copies are equal and independent; read-only refuses.

1. TLC checks RetainState (spec/params) exhaustively for small constants: an all-actions instance plus three focused,
   deeper instances (parameters / grid+cache / copy+read-only).
2. spec -> code: the edges TLC explored in the three emission instances are executed on real armi objects
   (HexAssembly / HexBlock / Circle with real materials and grids) by edge-covering walks; after every step the full
   projection (abstract values of the modelled parameters under several concrete *kinds*, a digest of ALL other
   parameters, assigned flags, caches, grid state, read-only flags, serial classes, error) is compared with the
   observation TLC printed for that state.
3. code -> spec: seeded random storms (nested scopes on any object, assignments of every kind, setNumberDensity,
   setTemperature, caches, grid changes, deep copies, pickles, read-only) on the smallest test reactor are recorded
   and validated by TLC as behaviours of RetainState_trace.

Expected values always come from TLC; this module only builds, applies, projects and compares.
"""
import copy
import json
import os
import pickle
import random
import re
import shutil
import subprocess
import sys
import threading
import time

from harness import common, tlc, tracecheck
from harness import replay as rp
from harness.armi_env import armi_ready

MODDIR = os.path.join(common.SPEC, "params")
UNSET = "<unset>"
CACHE_KEY = "verifC16"
# observations that no action of the specification reads: a divergence there cannot cascade, so it is reported
# without blocking the states behind it
NONBLOCKING = ("sameSerialAs", "dflag")


# ------------------------------------------------------------------------------------------------------------
# canonical form of parameter values (for reverse lookup and for the digest of "all other parameters")
# ------------------------------------------------------------------------------------------------------------
def canon(v):
    import numpy as np

    if v is None or isinstance(v, (bool, str)):
        return v
    if isinstance(v, int):
        return v
    if isinstance(v, float):
        return "nan" if v != v else v
    if isinstance(v, np.generic):
        return canon(v.item())
    if isinstance(v, np.ndarray):
        return ("nd", v.dtype.str, tuple(v.shape), canon(v.tolist()))
    if isinstance(v, (list, tuple)):
        return (type(v).__name__,) + tuple(canon(x) for x in v)
    if isinstance(v, dict):
        return ("dict",) + tuple(sorted((str(k), canon(x)) for k, x in v.items()))
    if isinstance(v, type):
        return ("class", v.__name__)
    return (type(v).__name__, str(v))


def same_value(a, b):
    if a is b:
        return True
    ta, tb = type(a), type(b)
    if ta in (float, int, str, bool) and tb in (float, int, str, bool):
        return ta is tb and (a == b or (a != a and b != b))
    return canon(a) == canon(b)


def _field(d, fieldName):
    """stored value of a parameter; a parameter without default that nobody assigned (the field holds the NoDefault
    class, or is absent after `del p[name]`) is UNSET either way"""
    v = d.get(fieldName, UNSET)
    if isinstance(v, type) and v.__name__ == "NoDefault":
        return UNSET
    return v


class _Frozen:
    """canonical contents of a mutable parameter value"""
    __slots__ = ("c",)

    def __init__(self, c):
        self.c = c


def _frozen(v):
    if v is None or isinstance(v, (bool, int, float, str, type)):
        return v
    return _Frozen(canon(v))


def shape_of(v):
    import numpy as np

    if isinstance(v, np.ndarray):
        return tuple(v.shape)
    if isinstance(v, (list, tuple)):
        return ("len", len(v))
    return None


# ------------------------------------------------------------------------------------------------------------
# bindings: abstract (class, parameter, value id)  <->  concrete armi parameter, value, way of assigning
# ------------------------------------------------------------------------------------------------------------
class ParamBinding:
    """obj.p.<name> = value  (the parameter setter)."""

    def __init__(self, name, values, kind):
        self.name, self.values, self.kind = name, values, kind
        self.rev = None

    def label(self, cls):
        return "%s.%s[%s]" % (cls, self.name, self.kind)

    def pdef(self, obj):
        return obj.p.paramDefs[self.name]

    def concrete(self, w, oid, v):
        return copy.deepcopy(self.values[v])

    def assign(self, w, oid, obj, v):
        setattr(obj.p, self.name, self.concrete(w, oid, v))

    def raw(self, obj):
        return _field(obj.p.__dict__, "_p_" + self.name)

    def probe(self, obj):
        self.rev = {}
        for v in range(len(self.values)):
            self.assign(None, 0, obj, v)
            c = canon(self.raw(obj))
            if c in self.rev:
                raise tlc.MachineryError("binding %s: values %d and %d are indistinguishable" % (self.name, self.rev[c], v))
            self.rev[c] = v
        self.assign(None, 0, obj, 0)

    def read(self, w, oid, obj):
        c = canon(self.raw(obj))
        r = self.rev.get(c)
        return r if r is not None else "?" + repr(c)[:120]

    def shape(self, v):
        return shape_of(self.values[v])


class TempBinding(ParamBinding):
    """component.temperatureInC = T  (the public property; value 0 = the temperature the component was built with)."""

    def __init__(self, temps):
        ParamBinding.__init__(self, "temperatureInC", temps, "temperature")

    def concrete(self, w, oid, v):
        return w["t0"][w["orig"][oid]] if v == 0 else self.values[v]

    def assign(self, w, oid, obj, v):
        obj.temperatureInC = self.concrete(w, oid, v)

    def probe(self, obj):
        self.rev = {}

    def read(self, w, oid, obj):
        x = self.raw(obj)
        if isinstance(x, float):
            if x == w["t0"][w["orig"][oid]]:
                return 0
            for v in range(1, len(self.values)):
                if x == self.values[v]:
                    return v
        return "?" + repr(x)[:80]


class NdensBinding(ParamBinding):
    """component.setNumberDensity(nuc, x): updates the stored dict in place and sets the flags by hand
    (value 0 = the density the component was built with)."""

    def __init__(self, xs, how="setNumberDensity"):
        ParamBinding.__init__(self, "numberDensities", xs, how)
        self.how = how

    def assign(self, w, oid, obj, v):
        base = w["nd0"][w["orig"][oid]]
        nuc = sorted(base)[0]
        x = base[nuc] if v == 0 else self.values[v]
        if self.how == "setNumberDensity":
            obj.setNumberDensity(nuc, x)
        else:
            d = dict(base)
            d[nuc] = x
            obj.setNumberDensities(d)

    def probe(self, obj):
        self.rev = {}

    def read(self, w, oid, obj):
        d = self.raw(obj)
        base = w["nd0"][w["orig"][oid]]
        if not isinstance(d, dict) or set(d) != set(base):
            return "?" + repr(d)[:120]
        nuc = sorted(base)[0]
        for k in base:
            if k != nuc and d[k] != base[k]:
                return "?%s=%r" % (k, d[k])
        if d[nuc] == base[nuc]:
            return 0
        for v in range(1, len(self.values)):
            if d[nuc] == self.values[v]:
                return v
        return "?%s=%r" % (nuc, d[nuc])


class UnsetBinding(ParamBinding):
    """a parameter WITHOUT default; value 0 = nobody has assigned it (the specification never assigns 0: Unset0)"""

    def __init__(self, name, values):
        ParamBinding.__init__(self, name, [UNSET] + list(values), "no-default,unset")

    def assign(self, w, oid, obj, v):
        if v == 0:
            if self.raw(obj) is not UNSET:
                raise tlc.MachineryError("%s is expected to be unset on a new object" % self.name)
            return
        setattr(obj.p, self.name, self.values[v])

    def probe(self, obj):
        self.rev = {canon(UNSET): 0}
        for v in range(1, len(self.values)):
            self.rev[canon(self.values[v])] = v


class DimBinding(ParamBinding):
    """component.p.od = x on components some of which carry the dimension as a LINK to a sibling (bond od = "clad.id");
    value 0 = what the component was built with (a number, or the link to its own sibling)"""

    def __init__(self):
        ParamBinding.__init__(self, "od", [None, 0.99, 0.98], "dimension(link or number)")

    def assign(self, w, oid, obj, v):
        if v == 0:
            return  # (built value; the specification never assigns it: Unset0)
        obj.p.od = w["od0"][w["orig"][oid]][1] * self.values[v]

    def probe(self, obj):
        self.rev = {}

    def read(self, w, oid, obj):
        x = self.raw(obj)
        kind, num, tgt = w["od0"][w["orig"][oid]]
        if type(x).__name__ == "_DimensionLink":
            ident = {id(v): k for k, v in w["obj"].items()}
            t = ident.get(id(x[0]))
            if kind == "link" and t is not None and w["orig"].get(t) == tgt and w["obj"][t].parent is obj.parent:
                return 0
            if kind == "link" and t is None and obj.parent is None and x[1] == "id":
                return 0  # a component copied alone: the link goes to the private copy of its sibling (RetainState!Hidden)
            return "?link to %r (object %s)" % (x[0], t)
        if isinstance(x, float):
            if kind == "num" and x == num:
                return 0
            for v in range(1, len(self.values)):
                if x == num * self.values[v]:
                    return v
        return "?" + repr(x)[:80]


def _profiles():
    import numpy as np

    A = np.array
    nd = [None, 0.0111, 0.0222]
    tt = [None, 700.0, 800.0]
    return {
        # scalars and equal-shape arrays
        "scalar-array": {
            "asm": {"p": ParamBinding("chargeTime", [0.0, 1.5, 2.5], "float"),
                    "q": ParamBinding("detailedNDens", [None, A([1.0, 2.0]), A([3.0, 4.0])], "array")},
            "blk": {"p": ParamBinding("power", [0.0, 1.0e6, 2.5e6], "float"),
                    "q": ParamBinding("mgFlux", [None, A([1.0, 2.0]), A([3.0, 4.0])], "array")},
            "cmp": {"p": NdensBinding(nd), "q": TempBinding(tt)},
        },
        # strings, None, lists, dicts, custom setters
        "str-none-dict": {
            "asm": {"p": ParamBinding("notes", ["", "n1", "n2"], "str"),
                    "q": ParamBinding("powerDecay", [None, [1.0, 2.0], A([[1.0], [2.0]])], "none-list(isNumpyArray)")},
            "blk": {"p": ParamBinding("axialExpTargetComponent", ["", "fuel", "clad"], "str"),
                    "q": ParamBinding("linPowByPin", [None, {"a": 1.0, "b": [1, 2]}, {"a": 2.0}], "none-dict")},
            "cmp": {"p": NdensBinding(nd), "q": ParamBinding("pinNDens", [None, [[1.0, 2.0]], [[3.0, 4.0]]], "none-array(f32)")},
        },
        # arrays / lists whose shape changes between values, value 0 is already an array
        # a parameter without default that is unset when the scope opens (Component.zrFrac)
        "unset": {
            "asm": {"p": ParamBinding("chargeTime", [0.0, 1.5, 2.5], "float"),
                    "q": ParamBinding("detailedNDens", [None, A([1.0, 2.0]), A([3.0, 4.0])], "array")},
            "blk": {"p": ParamBinding("power", [0.0, 1.0e6, 2.5e6], "float"),
                    "q": ParamBinding("mgFlux", [None, A([1.0, 2.0]), A([3.0, 4.0])], "array")},
            "cmp": {"p": NdensBinding(nd), "q": UnsetBinding("zrFrac", [0.1, 0.2])},
        },
        # the SAME parameter name defined on two / three classes (different Parameter objects)
        "same-name": {
            "asm": {"p": ParamBinding("kInf", [0.0, 1.1, 1.2], "float,same-name"),
                    "q": ParamBinding("detailedNDens", [None, A([1.0, 2.0]), A([3.0, 4.0])], "array,same-name")},
            "blk": {"p": ParamBinding("kInf", [0.0, 1.1, 1.2], "float,same-name"),
                    "q": ParamBinding("detailedNDens", [None, A([1.0, 2.0]), A([3.0, 4.0])], "array,same-name")},
            "cmp": {"p": NdensBinding(nd), "q": ParamBinding("detailedNDens", [None, A([1.0, 2.0]), A([3.0, 4.0])], "array,same-name")},
        },
        # linked dimensions (bond: id = "fuel.od", od = "clad.id")
        "links": {
            "asm": {"p": ParamBinding("chargeTime", [0.0, 1.5, 2.5], "float"),
                    "q": ParamBinding("detailedNDens", [None, A([1.0, 2.0]), A([3.0, 4.0])], "array")},
            "blk": {"p": ParamBinding("power", [0.0, 1.0e6, 2.5e6], "float"),
                    "q": ParamBinding("mgFlux", [None, A([1.0, 2.0]), A([3.0, 4.0])], "array")},
            "cmp": {"p": NdensBinding(nd), "q": DimBinding()},
        },
        "reshape": {
            "asm": {"p": ParamBinding("chargeTime", [0.0, 1.5, 2.5], "float"),
                    "q": ParamBinding("detailedNDens", [A([1.0, 2.0]), A([1.0, 2.0, 3.0]), A([[1.0, 2.0], [3.0, 4.0]])], "array-reshape")},
            "blk": {"p": ParamBinding("THcornTemp", [[1.0], [1.0, 2.0], [1.0, 2.0, 3.0]], "list-reshape"),
                    "q": ParamBinding("mgFlux", [A([1.0, 2.0]), A([1.0, 2.0, 3.0]), A([[1.0, 2.0], [3.0, 4.0]])], "array-reshape")},
            "cmp": {"p": NdensBinding(nd), "q": ParamBinding("pinPercentBu", [A([1.0, 2.0]), A([1.0, 2.0, 3.0]), A([1.0])], "array-reshape")},
        },
    }


EXTRAS = {
    "cmp": (("detailedNDens", [1.0e-3, 2.0e-3, 3.0e-3]), ("pinNDens", [[1.0e-3, 2.0e-3]])),
    "blk": (("detailedNDens", [1.0e-3, 2.0e-3]), ("mgFlux", [1.0e13, 2.0e13]), ("adjMgFlux", [0.5, 0.25])),
    "asm": (("detailedNDens", [5.0e-3]),),
}
HEIGHT = [10.0, 20.0, 30.0]  # block height per grid value of the parent assembly (Block.setHeight)
HEIGHT_FIELDS = ("_p_height", "_p_z", "_p_zbottom", "_p_ztop")
PITCH = [1.0, 2.0, 3.0]  # hex pitch per grid value (block)
TOP = [10.0, 20.0, 30.0]  # top axial bound per grid value (assembly)


# ------------------------------------------------------------------------------------------------------------
# adapter: small trees of real armi objects
# ------------------------------------------------------------------------------------------------------------
class MiniAdapter:
    def __init__(self, profile):
        armi_ready()
        import numpy as np
        from armi.reactor import assemblies, blocks, components, grids
        from armi.reactor import parameters

        self.np, self.assemblies, self.blocks, self.components, self.grids = np, assemblies, blocks, components, grids
        self.parameters = parameters
        self.name = profile
        self.prof = _profiles()[profile]
        self.empty_grid = profile == "str-none-dict"
        self.gridrev = {}
        # probe the bindings once on throw-away objects (reverse tables; also proves the names exist)
        for c in ("asm", "blk", "cmp"):
            o = self.make(c, 1)
            for p in ("p", "q"):
                try:
                    self.prof[c][p].probe(o)
                except (KeyError, AttributeError) as ex:
                    raise tlc.MachineryError("profile %s: %s.%s cannot be bound: %r" % (profile, c, p, ex))
            if c in ("asm", "blk"):
                for g in range(3):
                    self.set_grid(c, o, g)
                    self.gridrev[(c, self.grid_state(o))] = g
                if len(set(k for k in self.gridrev if k[0] == c)) != 3:
                    raise tlc.MachineryError("grid values are indistinguishable")

    # -- construction ----------------------------------------------------------------------------------
    def make(self, c, i):
        g = self.grids
        if c == "asm":
            o = self.assemblies.HexAssembly("verifAsm", assemNum=i)
            o.spatialGrid = g.AxialGrid.fromNCells(1)
            o.spatialGrid.armiObject = o
            self.set_grid(c, o, 0)
        elif c == "blk":
            o = self.blocks.HexBlock("fuel", height=10.0)
            # (one profile runs with a block grid that has no locations yet: such a grid is falsy)
            o.spatialGrid = g.HexGrid.fromPitch(PITCH[0], numRings=0 if self.empty_grid else 2)
            o.spatialGrid.armiObject = o
        elif c == "cmp":
            if i % 2 == 0:
                o = self.components.Circle("fuel", "UZr", Tinput=25.0, Thot=600.0, od=0.76, id=0.0, mult=1.0)
            else:
                o = self.components.Circle("clad", "HT9", Tinput=25.0, Thot=450.0, od=0.80, id=0.77, mult=1.0)
        else:
            raise tlc.MachineryError("unknown class " + c)
        return o

    def set_grid(self, c, o, g):
        if c == "blk":
            o.spatialGrid.changePitch(PITCH[g])
        else:
            # what Assembly.calculateZCoords / the axial expansion changer do
            b = list(o.spatialGrid._bounds)
            b[2] = self.np.array([0.0, TOP[g]])
            o.spatialGrid._bounds = tuple(b)

    def grid_state(self, o):
        g = o.spatialGrid

        def r(x):
            if x is None:
                return None
            return tuple(float("%.10g" % y) for y in self.np.asarray(x, dtype=float).ravel())

        return (r(g._unitSteps), tuple(r(b) for b in g._bounds), r(g._offset), read_grid(g))

    def build(self, root):
        parent, cls = root["parent"], root["cls"]
        link = root.get("link") or [0] * len(cls)
        O = {}
        for i, c in enumerate(cls, start=1):
            if not link[i - 1]:
                O[i] = self.make(c, i)
        for i, c in enumerate(cls, start=1):
            if link[i - 1]:
                # a bond between its two siblings: inner diameter = the fuel's outer, outer = the clad's inner
                fuel = O[link[i - 1]]
                clad = next(O[j] for j in sorted(O) if j != link[i - 1] and parent[j - 1] == parent[i - 1] and cls[j - 1] == "cmp")
                O[i] = self.components.Circle("bond", "Sodium", Tinput=450.0, Thot=450.0, id="fuel.od", od="clad.id", mult=1.0,
                                              components={"fuel": fuel, "clad": clad})
        for i, pa in sorted(enumerate(parent, start=1)):
            if pa:
                O[pa].add(O[i])
        for i, c in enumerate(cls, start=1):
            if c == "asm":
                O[i].calculateZCoords()  # block z parameters and axial bounds consistent with the block heights
            if c == "blk":
                O[i].derivedMustUpdate = False  # (Block.add leaves it pending; the model starts settled)
        w = {"obj": O, "cls": {i: c for i, c in enumerate(cls, start=1)}, "orig": {i: i for i in O}, "stack": [],
             "err": "", "nd0": {}, "t0": {}, "rest0": {}, "od0": {}, "prof": self.name}
        ident0 = {id(v): k for k, v in O.items()}
        for i, o in O.items():
            if w["cls"][i] == "cmp":
                x = o.p.__dict__.get("_p_od")
                if type(x).__name__ == "_DimensionLink":
                    w["od0"][i] = ("link", float(o.getDimension("od", cold=True)), ident0[id(x[0])])
                else:
                    w["od0"][i] = ("num", x, 0)
        NEVER = self.parameters.NEVER
        seen = set()
        for i, o in O.items():
            c = w["cls"][i]
            if c == "cmp":
                if o.parent is not None:
                    o.getVolume()  # what Database._setParamsBeforeFreezing does: volume is a lazily computed parameter
                w["nd0"][i] = dict(o.p.numberDensities)
                w["t0"][i] = o.p.temperatureInC
            for p in ("p", "q"):
                self.prof[c][p].assign(w, i, o, 0)
            # array-valued parameters that are NOT modelled individually (they are part of `rest`): detailed and
            # pin-wise number densities, fluxes -- what depletion / flux solvers leave on the objects
            mine = {self.prof[c]["p"].name, self.prof[c]["q"].name}
            for nm, arr in EXTRAS[c]:
                if nm not in mine:
                    setattr(o.p, nm, self.np.array(arr))
            # class-level state of the parameter system is global: start every world from the same flags
            if type(o.p) not in seen:
                seen.add(type(o.p))
                for pd in o.p.paramDefs:
                    pd._backup = None
            for p in ("p", "q"):
                self.prof[c][p].pdef(o).assigned = NEVER
        for i, o in O.items():
            o.p.assigned = self.parameters.SINCE_ANYTHING
            o.cached = {}
            if w["cls"][i] == "cmp":
                o.material.cached = {}
            w["rest0"][i] = self.rest_fields(w, i, o)
        return w

    def rest_fields(self, w, i, o):
        c = w["cls"][i]
        skip = {"_p_" + self.prof[c]["p"].name, "_p_" + self.prof[c]["q"].name, "_p_serialNum"}
        names = [pd.fieldName for pd in o.p.paramDefs if pd.fieldName not in skip]
        d = o.p.__dict__
        # immutable values are kept as they are; arrays / lists / dicts as their CONTENTS (a mutator may change them
        # in place, so identity says nothing)
        return names, [_frozen(_field(d, n)) for n in names]

    # -- actions ---------------------------------------------------------------------------------------
    def keepset(self, w, keep):
        out = set()
        for c, p in keep:
            for i, o in w["obj"].items():
                if w["cls"][i] == c:
                    out.add(self.prof[c][p].pdef(o))
                    break
        return out

    def apply(self, w, a):
        O = w["obj"]
        n = a["n"]
        w["err"] = ""
        try:
            if n == "Enter":
                sr = O[a["r"]].retainState(self.keepset(w, a["keep"]))
                sr.__enter__()
                w["stack"].append(sr)
            elif n == "Exit":
                sr = w["stack"].pop()
                sr.__exit__(None, None, None)
            elif n in ("Assign", "AssignRO"):
                o = O[a["o"]]
                self.prof[w["cls"][a["o"]]][a["p"]].assign(w, a["o"], o, a["v"])
            elif n == "SetCache":
                o = O[a["o"]]
                (o if a["w"] == "obj" else o.material)._setCache(CACHE_KEY, a["tag"])
            elif n == "SetGrid":
                self.set_grid(w["cls"][a["o"]], O[a["o"]], a["g"])
            elif n == "ReadGrid":
                read_grid(O[a["o"]].spatialGrid)
            elif n == "SetHeight":
                O[a["o"]].setHeight(HEIGHT[a["g"]])
            elif n == "SetDFlag":
                O[a["o"]].derivedMustUpdate = bool(a["v"])
            elif n in ("DeepCopy", "Pickle"):
                src = O[a["x"]]
                new = copy.deepcopy(src) if n == "DeepCopy" else pickle.loads(pickle.dumps(src))
                olds = [src] + list(src.iterChildren(deep=True))
                news = [new] + list(new.iterChildren(deep=True))
                ident = {id(v): k for k, v in O.items()}
                to = {s: d for s, d in a["ids"]}
                if len(olds) != len(news) or len(olds) != len(to):
                    raise AssertionError("copy has %d nodes, source %d, specification %d" % (len(news), len(olds), len(to)))
                for oo, nn in zip(olds, news):
                    s = ident[id(oo)]
                    O[to[s]] = nn
                    w["cls"][to[s]] = w["cls"][s]
                    w["orig"][to[s]] = w["orig"][s]
            elif n == "MakeReadOnly":
                from armi.reactor import reactorParameters

                reactorParameters.makeParametersReadOnly(O[a["r"]])
            elif n == "CallRO":
                call_mutator(O[a["o"]], w["cls"][a["o"]], a["m"])
            else:
                raise tlc.MachineryError("unknown action " + n)
        except tlc.MachineryError:
            raise
        except Exception as ex:  # the specification says which calls are refused and how
            w["err"] = type(ex).__name__
            w["errtext"] = "%s: %s" % (type(ex).__name__, str(ex)[:200])
        return w["err"]

    # -- projection ------------------------------------------------------------------------------------
    def project(self, w):
        O = w["obj"]
        live = sorted(O)
        ident = {id(v): k for k, v in O.items()}
        val, rest, cass, cache, mcache, grid, ro, par, cls, ser, lk, dfl = [], [], [], [], [], [], [], [], [], [], [], []
        for i in live:
            o = O[i]
            c = w["cls"][i]
            val.append({p: self.prof[c][p].read(w, i, o) for p in ("p", "q")})
            names, base = w["rest0"][w["orig"][i]]
            d = o.p.__dict__
            r = 0
            hgt = c == "blk" and o.parent is not None
            for nm, b in zip(names, base):
                if hgt and nm in HEIGHT_FIELDS:
                    continue  # (reported as the height token below)
                x = _field(d, nm)
                if type(b) is _Frozen:
                    if canon(x) != b.c:
                        r = "%s: built with %s, now %r" % (nm[3:], _short(b.c), _short(x))
                        break
                elif x is not b and not same_value(x, b):
                    r = "%s: built with %r, now %r" % (nm[3:], _short(b), _short(x))
                    break
            if hgt and r == 0:
                h = tuple(d.get(f) for f in HEIGHT_FIELDS)
                r = next((0 if g == 0 else 100 + g for g, H in enumerate(HEIGHT) if h == (H, H / 2.0, 0.0, H)),
                         "height/z/zbottom/ztop: %r" % (h,))
            rest.append(r)
            dfl.append(int(bool(getattr(o, "derivedMustUpdate", False))) if c == "blk" else 0)
            cass.append(o.p.assigned)
            cache.append(o.cached.get(CACHE_KEY, 0) if isinstance(o.cached, dict) else "?")
            mcache.append(o.material.cached.get(CACHE_KEY, 0) if c == "cmp" else 0)
            if c in ("asm", "blk"):
                gs = self.gridrev.get((c, self.grid_state(o)))
                grid.append(gs if gs is not None else "?" + repr(self.grid_state(o))[:100])
            else:
                grid.append(0)
            ro.append(bool(o.p.readOnly))
            par.append(0 if o.parent is None else ident.get(id(o.parent), -1))
            cls.append(c)
            ser.append(o.p.serialNum)
            lk.append(link_of(o, ident, ("id",)))
        same = [min(j for j, s in zip(live, ser) if s == ser[k]) for k in range(len(live))]
        dass = {}
        for i in live:
            c = w["cls"][i]
            if c not in dass:
                dass[c] = {p: self.prof[c][p].pdef(O[i]).assigned for p in ("p", "q")}
        return {"val": val, "rest": rest, "cass": cass, "dass": dass, "cache": cache, "mcache": mcache, "grid": grid,
                "dflag": dfl, "ro": ro, "parent": par, "cls": cls, "link": lk, "sameSerialAs": same, "depth": len(w["stack"]),
                "err": w["err"]}

    def label(self, w, oid, p):
        c = w["cls"].get(oid, "?")
        return self.prof[c][p].label(c) if c in self.prof else c


def read_grid(g):
    """what the public getters of a grid answer (pitch of hex / cartesian grids)"""
    if hasattr(type(g), "pitch"):
        try:
            x = g.pitch
        except Exception as ex:  # (grids without a pitch say so by raising)
            x = type(ex).__name__
        pit = x if isinstance(x, str) else tuple(None if y is None else float("%.10g" % y) for y in (x if isinstance(x, (tuple, list)) else (x,)))
    else:
        pit = None
    # axial meshes: the public bounds and the cell centres derived from them (where the blocks sit)
    zs = None
    try:
        b = g.getBounds()[2]
        if b is not None:
            zs = tuple(float("%.10g" % y) for y in b) + tuple(
                float("%.10g" % g.getCoordinates((0, 0, k))[2]) for k in range(len(b) - 1))
    except Exception as ex:
        zs = type(ex).__name__
    return (pit, zs)


HIDDEN = 99  # RetainState!Hidden


def link_of(o, ident, dims=None):
    """the object (world id) a linked dimension of o resolves through: 0 = no link, HIDDEN = an object outside the
    world; also checks that the resolved value really is the target's dimension"""
    for d in dims or getattr(o, "DIMENSION_NAMES", ()):
        x = o.p.__dict__.get("_p_" + d)
        if type(x).__name__ == "_DimensionLink":
            t = ident.get(id(x[0]), HIDDEN)
            try:
                if o.getDimension(d, cold=True) != x[0].getDimension(x[1], cold=True):
                    return "?%s resolves to %r, %r has %r" % (d, o.getDimension(d, cold=True), x[0], x[0].getDimension(x[1], cold=True))
            except Exception as ex:  # an unresolvable link is an observation, not a harness failure
                return "?%s: %s" % (d, type(ex).__name__)
            return t
    return 0


def _first_nuclide(o):
    """a nuclide that really is in the object (first component that has number densities)"""
    for c in [o] + list(o.iterChildren(deep=True)):
        nd = c.p.__dict__.get("_p_numberDensities")
        if isinstance(nd, dict) and nd:
            return sorted(nd)[0]
    raise tlc.MachineryError("no nuclides below %r" % (o,))


def call_mutator(o, c, m):
    """the read-only family: public mutators that route through parameters, with valid arguments"""
    if m == "changeNDensByFactor":
        o.changeNDensByFactor(2.0)
    elif m == "setNumberDensity":
        o.setNumberDensity(_first_nuclide(o), 0.0123)
    elif m == "setNumberDensities":
        o.setNumberDensities({_first_nuclide(o): 0.0123})
    elif m == "updateNumberDensities":
        o.updateNumberDensities({_first_nuclide(o): 0.0123})
    elif m == "clearNumberDensities":
        o.clearNumberDensities()
    elif m == "setTemperature":
        o.setTemperature(712.0)
    elif m == "setDimension":
        o.setDimension("od" if "od" in o.p.paramDefs.names else "mult", 0.91)
    elif m == "setMass":
        o.setMass(_first_nuclide(o), 1.5)
    elif m == "addMass":
        o.addMass(_first_nuclide(o), 0.5)
    elif m == "setMasses":
        o.setMasses({_first_nuclide(o): 1.5})
    elif m == "setType":
        o.setType("clad" if c == "cmp" else "fuel")
    elif m == "setHeight":
        o.setHeight(12.5)
    elif m == "adjustUEnrich":
        o.adjustUEnrich(0.2)
    elif m == "calculateZCoords":
        o.calculateZCoords()
    elif m == "reestablishBlockOrder":
        o.reestablishBlockOrder()
    elif m == "p.update":
        o.p.update({"flags": o.p.flags})
    elif m == "p[]=":
        o.p["flags"] = o.p.flags
    elif m == "del p[]":
        del o.p[RO_DELETE[c]]
    elif m == "copyParamsFrom":
        o.copyParamsFrom(o)
    else:
        raise tlc.MachineryError("unknown mutator " + m)


RO_DELETE = {"cmp": "mult", "blk": "power", "asm": "chargeTime", "core": "keff", "r": "cycleLength", "sfp": "flags"}


def _short(x):
    s = repr(x)
    return s if len(s) < 60 else s[:60] + "..."


# ------------------------------------------------------------------------------------------------------------
# violation keys: action : observation path : input class
# ------------------------------------------------------------------------------------------------------------
_IDX = re.compile(r"\[(\d+)\]")


def kept_reshaped(frm, prof_bindings):
    """input class of an Exit: does the scope being closed keep an array/list whose shape changed inside it?
    (read from the state TLC emitted and the value tables of the profile)"""
    if not frm.get("frames"):
        return False
    keep = {(c, p) for c, p in frm["frames"][-1]["keep"]}
    for i, c in enumerate(frm["cls"]):
        if not frm["cbak"][i]:
            continue
        for p in ("p", "q"):
            if (c, p) in keep:
                b = prof_bindings[c][p]
                cur, old = frm["val"][i][p], frm["cbak"][i][0]["val"][p]
                if isinstance(b, ParamBinding) and type(b) is ParamBinding and cur != old:
                    s1, s2 = b.shape(cur), b.shape(old)
                    if s1 is not None and s2 is not None and s1 != s2:
                        return True
    return False


def scope_class(parent, behaviour, oidx):
    """input class of a divergence at object oidx in the Enter/Exit that ends `behaviour` (list of actions):
    is the object the scope root itself, and was another scope covering the object opened while the scope
    that is being closed was open?  (bookkeeping for the violation key only)"""
    par = list(parent)
    stack = []
    last = None
    for a in behaviour:
        if a["n"] in ("DeepCopy", "Pickle"):
            to = {s: d for s, d in a["ids"]}
            while len(par) < max(to.values()):
                par.append(0)
            for s_, d_ in a["ids"]:
                par[d_ - 1] = 0 if s_ == a["x"] else to.get(par[s_ - 1], 0)
        if a["n"] == "Enter":
            covers = a["r"] in anc_of(par, oidx)
            if covers:
                for f in stack:
                    if f["covers"]:
                        f["inner"] = True
            stack.append({"root": a["r"], "covers": covers, "inner": False})
            last = stack[-1]
        elif a["n"] == "Exit" and stack:
            last = stack.pop()
    if last is None:
        return "?", False
    return ("root" if last["root"] == oidx else "below"), last["inner"]


def anc_of(par, x):
    out = set()
    while x:
        out.add(x)
        x = par[x - 1] if x <= len(par) else 0
    return out


def make_key(act, d, parent, behaviour, labeller, reshaped, err_exp, err_seen):
    """stable identifier of the failing call site / input class"""
    n = act["n"]
    if n == "CallRO":
        # read-only family: the failing call site is the mutator
        what = ("err=%s" % (err_seen or "none")) if err_exp != err_seen else d.split(":")[0].split(".")[1].split("[")[0]
        return "CallRO:%s:%s" % (what, act.get("m", "?"))
    if err_exp != err_seen:
        cls = "kept-array-reshaped" if (n == "Exit" and reshaped) else "other"
        return "%s:err=%s:%s" % (n, err_seen or "none", cls)
    path = d.split(":")[0]
    m = _IDX.search(path)
    oidx = int(m.group(1)) + 1 if m else None
    top = path.split(".")[1].split("[")[0] if "." in path else path
    parts = [n, top]
    if top == "val":
        parts.append(labeller(oidx, path.rsplit(".", 1)[-1]))
    if n in ("Enter", "Exit") and oidx is not None and top != "dflag":
        where, inner = scope_class(parent, behaviour, oidx)
        if top == "mcache":
            parts.append("own-material-of-scope-root" if where == "root" else "material-below-root")
        else:
            parts.append("nested" if inner else "single")
    return ":".join(parts)


# ------------------------------------------------------------------------------------------------------------
# edge-covering walks over TLC's state graph
# ------------------------------------------------------------------------------------------------------------
class EdgeGraph:
    def __init__(self, prints):
        self.edges = []
        self.succ = {}
        seen = set()
        self.root = None
        for e in prints:
            if not isinstance(e, dict) or "act" not in e:
                continue
            fk, tk = rp.skey(e["from"]), rp.skey(e["to"])
            k = (fk, rp.skey(e["act"]), tk)
            if k in seen:
                continue
            seen.add(k)
            e["_fk"], e["_tk"], e["_id"] = fk, tk, len(self.edges)
            self.edges.append(e)
            self.succ.setdefault(fk, []).append(e)
            if e.get("lvl") == 1 and self.root is None:
                self.root = fk
        if self.root is None:
            raise tlc.MachineryError("no edges were emitted")
        self.rootvars = self.succ[self.root][0]["from"]

    def bfs(self, bad):
        pre = {self.root: None}
        q = [self.root]
        qi = 0
        tree = set()
        while qi < len(q):
            k = q[qi]
            qi += 1
            for e in self.succ.get(k, ()):
                if e["_id"] in bad or e["_tk"] in pre:
                    continue
                pre[e["_tk"]] = e
                tree.add(e["_id"])
                q.append(e["_tk"])
        return pre, tree

    @staticmethod
    def path(pre, k):
        out = []
        while pre[k] is not None:
            out.append(pre[k])
            k = pre[k]["_fk"]
        out.reverse()
        return out


def cover(graph, adapter, targets, maxwalk=14, on_div=None):
    """Execute walks on fresh worlds until every target edge has been executed from a conforming state.
    Returns stats, divergences (one record per divergent edge)."""
    bad = set()
    pre, tree = graph.bfs(bad)
    todo = set(targets)
    order = sorted(todo)
    st = {"walks": 0, "steps": 0, "covered": 0, "nontrivial": 0, "blocked": 0, "divergent": 0}
    divs = []
    valid = set()
    nbdiv = {}
    oi = 0
    while oi < len(order):
        eid = order[oi]
        oi += 1
        if eid not in todo:
            continue
        e = graph.edges[eid]
        if e["_fk"] not in pre:
            st["blocked"] += 1
            todo.discard(eid)
            continue
        walk = EdgeGraph.path(pre, e["_fk"]) + [e]
        onwalk = {eid}
        cur = e["_tk"]
        while len(walk) < maxwalk:
            nxt = None
            for s in graph.succ.get(cur, ()):
                if s["_id"] in todo and s["_id"] not in onwalk and s["_id"] not in bad:
                    nxt = s
                    break
            if nxt is None:
                break
            walk.append(nxt)
            onwalk.add(nxt["_id"])
            cur = nxt["_tk"]
        # execute
        w = adapter.build(graph.rootvars)
        st["walks"] += 1
        tainted = set()
        for k, s in enumerate(walk):
            adapter.apply(w, s["act"])
            st["steps"] += 1
            if s["_id"] in valid:
                continue  # an edge of the path that was already executed and compared under this adapter
            if s["_id"] in nbdiv:
                tainted.update(nbdiv[s["_id"]])
                continue
            got = adapter.project(w)
            exp = s["obs"]
            d = rp.diff({x: v for x, v in exp.items() if x not in NONBLOCKING}, got)
            d2, f2 = None, None
            if d is None:
                for f2 in NONBLOCKING:
                    if f2 in exp and f2 not in tainted:
                        d2 = rp.diff({f2: exp[f2]}, got)
                        if d2:
                            break
            if d or d2:
                rec = {"edge": s["_id"], "first_difference": d or d2, "action": s["act"], "from": s["from"],
                       "behaviour": [x["act"] for x in walk[: k + 1]], "expected": exp, "observed": got,
                       "errtext": w.get("errtext", "") if got["err"] else "", "blocking": bool(d), "world": w}
                divs.append(rec)
                st["divergent"] += 1
                if on_div is not None and on_div(rec):
                    return st, divs
                if s["_id"] in todo:
                    todo.discard(s["_id"])
                if d:
                    bad.add(s["_id"])
                    if s["_id"] in tree:
                        pre, tree = graph.bfs(bad)
                    break
                tainted.add(f2)
                nbdiv[s["_id"]] = {f2}
            else:
                valid.add(s["_id"])
            if s["_id"] in todo:
                todo.discard(s["_id"])
                st["covered"] += 1
                if s["_fk"] != s["_tk"]:
                    st["nontrivial"] += 1
        if hasattr(adapter, "dispose"):
            adapter.dispose(w)
    return st, divs


# ------------------------------------------------------------------------------------------------------------
# run
# ------------------------------------------------------------------------------------------------------------
P_ACTS = ("Enter", "Exit", "Assign")
# exhaustive instances: label -> (cfg, actions that must have been taken)
MC_QUICK = {
    "all": ("RetainState_mc.cfg", ("Enter", "Exit", "Assign", "AssignRO", "SetCache", "SetGrid", "Copy", "MakeReadOnly",
                                   "CallRO", "WriteDb", "LoadDbV")),
    "params": ("RetainState_mcP.cfg", P_ACTS),
    "grid": ("RetainState_mcG.cfg", ("Enter", "Exit", "SetGrid", "SetCache", "SetDFlag")),
    "copy": ("RetainState_mcC.cfg", ("Assign", "AssignRO", "Copy", "MakeReadOnly")),
    "db": ("RetainState_mcD.cfg", ("WriteDb", "LoadDbV", "Copy", "Assign", "AssignRO")),
    "links": ("RetainState_mcL.cfg", ("Enter", "Exit", "Assign", "Copy")),
}
MC_THOROUGH = {
    "all": ("RetainState_mc_thorough.cfg", tuple(a for a in MC_QUICK["all"][1] if a != "LoadDbV")),  # (pool of 1)
    "params": ("RetainState_mcP_thorough.cfg", P_ACTS),
    "params-deep": ("RetainState_mcP2_thorough.cfg", P_ACTS),
    "grid": ("RetainState_mcG_thorough.cfg", MC_QUICK["grid"][1]),
    "copy": ("RetainState_mcC_thorough.cfg", MC_QUICK["copy"][1]),
    "db": ("RetainState_mcD_thorough.cfg", MC_QUICK["db"][1]),
    "links": ("RetainState_mcL_thorough.cfg", MC_QUICK["links"][1]),
}
# emission instances: label -> (cfg, every edge under every profile?)   (otherwise the edges are dealt out to the profiles)
# an optional third entry names the profiles the graph is replayed under (default: PROFILES)
EMIT_QUICK = {
    "links": ("RetainState_emitL.cfg", True, ("links",)),
    "unset+same-name": ("RetainState_emitU.cfg", True, ("unset", "same-name")),
    "read-only": ("RetainState_emitR.cfg", True),
    "freeze-in-scope": ("RetainState_emitF.cfg", False),
    "copy": ("RetainState_emitC.cfg", False),
    "grid": ("RetainState_emitG.cfg", False),
    "params": ("RetainState_emitP.cfg", False),
}
EMIT_THOROUGH = {
    "links": ("RetainState_emitL_thorough.cfg", True, ("links",)),
    "unset+same-name": ("RetainState_emitU_thorough.cfg", True, ("unset", "same-name")),
    "read-only": ("RetainState_emitR.cfg", True),
    "freeze-in-scope": ("RetainState_emitF.cfg", True),
    "grid-heights": ("RetainState_emitG2_thorough.cfg", False),
    "read-only-copies": ("RetainState_emitR_thorough.cfg", False),
    "copy": ("RetainState_emitC_thorough.cfg", False),
    "grid": ("RetainState_emitG_thorough.cfg", False),
    "params-shared": ("RetainState_emitP2_thorough.cfg", False),
    "params-all-kinds": ("RetainState_emitP.cfg", True),
    "params": ("RetainState_emitP_thorough.cfg", False),
}
EMIT = {k: (v[0],) for k, v in EMIT_QUICK.items()}  # (selftest uses the quick graphs)
PROFILES = ("scalar-array", "str-none-dict", "reshape")
ALL_PROFILES = PROFILES + ("unset", "same-name", "links")


def profiles_of(entry):
    return entry[2] if len(entry) > 2 else PROFILES


class _Bg(threading.Thread):
    def __init__(self, fn):
        threading.Thread.__init__(self)
        self.fn, self.res, self.exc = fn, None, None
        self.start()

    def run(self):
        try:
            self.res = self.fn()
        except BaseException as ex:  # re-raised by get()
            self.exc = ex

    def get(self):
        self.join()
        if self.exc is not None:
            raise self.exc
        return self.res


def report_div(rep, d, adapter, direction):
    w = d.pop("world", None)
    act = d["action"]

    def lab(oidx, p):
        if w is not None:
            return adapter.label(w, oidx, p)
        return p

    resh = kept_reshaped(d["from"], adapter.prof) if d.get("from") else bool(d.get("reshaped"))
    key = make_key(act, d["first_difference"], d["root"]["parent"], d["behaviour"], lab, resh,
                   d["expected"].get("err", ""), d["observed"].get("err", ""))
    m = _IDX.search(d["first_difference"].split(":")[0])
    if (key.startswith(("Enter:grid", "Exit:grid")) and getattr(adapter, "empty_grid", False) and m
            and d["observed"]["cls"][int(m.group(1))] == "blk"):
        key = ":".join(key.split(":")[:2]) + ":empty-grid"  # the block's grid has no locations yet (`if self.spatialGrid:` is False for it)
    what = "real armi objects diverge from RetainState after %s [%s]: %s%s" % (
        json.dumps(act), adapter.name, d["first_difference"], (" (" + d["errtext"] + ")") if d.get("errtext") else "")
    payload = {k: v for k, v in d.items() if k not in ("from",)}
    payload.update({"direction": direction, "adapter": adapter.name, "root": d.get("root")})
    rep.violation(key, what, payload)
    return key


def run(rep, tier, seed):
    thorough = tier == "thorough"
    timing = rep.extra.setdefault("timing_s", {})
    t0 = time.time()
    sany = _Bg(lambda: tlc.sany("RetainState_mc", MODDIR))
    # 2. spec -> code: the emission runs start first (the replay waits for them) ------------------------------
    MC = MC_THOROUGH if thorough else MC_QUICK
    EM = EMIT_THOROUGH if thorough else EMIT_QUICK
    em = {k: _Bg(lambda c=v[0]: tlc.run("RetainState_mc", c, MODDIR, workers=1, coverage=False, timeout=3000, heap="6g"))
          for k, v in EM.items()}

    # 1. exhaustive model checking: one instance after the other, in the background -------------------------
    nw = max(2, common.NCPU // 2) if thorough else max(2, common.NCPU // 4)

    def chain(keys):
        return {k: tlc.run("RetainState_mc", MC[k][0], MODDIR, workers=nw, want_prints=False, timeout=6000) for k in keys}

    names = list(MC)
    mcs = ([_Bg(lambda ks=names[0::2]: chain(ks)), _Bg(lambda ks=names[1::2]: chain(ks))] if thorough
           else [_Bg(lambda ks=names: chain(ks))])
    # 3. code -> spec runs in a child process next to the edge replay (both are CPU-bound python)
    cwd_ = common.workdir("c16tr")
    children = {}
    for what in ("traces", "db"):
        outp = os.path.join(cwd_, what + ".json")
        children[what] = (outp, subprocess.Popen(
            [sys.executable, "-m", "props.c16", "--child", what, tier, str(seed), outp], cwd=common.ROOT,
            stdout=subprocess.DEVNULL, stderr=subprocess.DEVNULL))
    adapters = {p: MiniAdapter(p) for p in ALL_PROFILES}
    timing["setup"] = round(time.time() - t0, 1)
    keys_seen = {}
    for focus in EM:
        t1 = time.time()
        res = em[focus].get()
        em[focus] = None
        timing["wait-emit-" + focus] = round(time.time() - t1, 1)
        t1 = time.time()
        rep.add_tlc("edges:" + EM[focus][0], res)
        g = EdgeGraph(res.prints)
        res.prints, res.out = [], ""
        ne = len(g.edges)
        tot = {"walks": 0, "steps": 0, "covered": 0, "nontrivial": 0, "blocked": 0, "divergent": 0}
        profs = profiles_of(EM[focus])
        for pi, prof in enumerate(profs):
            if EM[focus][1]:
                targets = range(ne)
            else:
                targets = [i for i in range(ne) if i % len(profs) == pi]
            if thorough and focus == "params":
                # the shallower edges of this graph are the graph of "params-all-kinds" (every edge under every kind)
                deepest = max(e["lvl"] for e in g.edges)
                targets = [i for i in targets if g.edges[i]["lvl"] == deepest]
            st, divs = cover(g, adapters[prof], targets)
            for k in tot:
                tot[k] += st[k]
            for d in divs:
                d["root"] = g.rootvars
                key = report_div(rep, d, adapters[prof], "replay")
                keys_seen[key] = keys_seen.get(key, 0) + 1
        rep.add_replay("edges-%s" % focus, tot["covered"], tot["nontrivial"],
                       "every edge (s,a,t) TLC explored is executed on real armi objects from a conforming state reached "
                       "by a walk from the initial state, full projection compared after every step; non-trivial = the "
                       "edge changes the abstract state")
        rep.extra.setdefault("replay", {})["edges-%s" % focus].update(
            {"edges_in_graph": ne, "walks": tot["walks"], "steps_executed": tot["steps"],
             "divergent_edges": tot["divergent"], "edges_not_reachable_without_a_divergent_edge": tot["blocked"]})
        if g.edges:
            e = g.edges[len(g.edges) // 2]
            rep.sample({"kind": "edge", "focus": focus, "act": e["act"], "expected_obs": e["obs"]})
        timing["replay-" + focus] = round(time.time() - t1, 1)
    rep.exhaustive = True
    rep.extra["divergence_keys"] = keys_seen

    # 3. code -> spec ------------------------------------------------------------------------------------
    t1 = time.time()
    for what, (outp, child) in children.items():
        if child.wait() != 0 or not os.path.exists(outp):
            raise tlc.MachineryError("%s process failed (rc=%s)" % (what, child.returncode))
        with open(outp) as f:
            out = json.load(f)
        if "machinery" in out:
            raise tlc.MachineryError(out["machinery"])
        (traces_report if what == "traces" else db_report)(rep, out)
    timing["wait-traces+db"] = round(time.time() - t1, 1)

    # 1'. collect the exhaustive runs
    t1 = time.time()
    sany.get()
    mcres = {}
    for th in mcs:
        mcres.update(th.get())
    for k in MC:
        res = mcres[k]
        rep.add_tlc("exhaustive:%s:%s" % (k, MC[k][0]), res)
        if res.violation:
            rep.violation("tlc:" + res.violation["name"], "TLC: %s violated in the specification (%s)" % (
                res.violation["name"], MC[k][0]), {"direction": "tlc", "trace": res.violation["trace"][:20000]})
        never = [a for a in MC[k][1] if res.coverage.get(a, (0, 0))[1] == 0]
        if never:
            raise tlc.MachineryError("vacuous: actions never taken in %s: %s" % (MC[k][0], never))
    timing["wait-mc"] = round(time.time() - t1, 1)
    rep.assume(
        "assignment = a call of the parameter setter or of a public mutator (setNumberDensity, temperatureInC, "
        "changePitch, axial bounds); writing into a stored array behind the parameter system is not an assignment",
        "keep-sets are sets of Parameter definitions, i.e. <<class family, parameter>> pairs",
        "scopes are closed in the order they were opened (with-statement discipline); scopes are not opened over "
        "read-only objects and a reactor is not made read-only inside a scope",
        "'serial numbers are never shared by two live objects' is read literally, also for a pickle round trip made "
        "while the original is alive",
        "the class-level flag Parameter.assigned is bookkeeping, not a value: it may change on a refused assignment",
        "a reactor loaded from a database legitimately carries the serial numbers of the objects it was written from; "
        "nothing created after a load may collide with any live object (the counter never falls behind a live serial)",
        "read-only family: every public mutator that routes through parameters is called with valid arguments on an object "
        "that is read-only together with everything beneath it; grids are not parameters",
    )


# ------------------------------------------------------------------------------------------------------------
# code -> spec: random storms on the smallest test reactor, validated by TLC (RetainState_trace)
# ------------------------------------------------------------------------------------------------------------
RBIND = {
    "r": {"s": "cycleLength", "a": "eFeedMT", "d": "eFissile", "n": "eSWU"},
    "core": {"s": "keff", "a": "betaComponents", "d": "betaDecayConstants", "n": "crMostValuablePrimaryRodLocation",
             "u": "fisFrac"},
    "sfp": {},
    "asm": {"s": "chargeTime", "a": "detailedNDens", "d": "hotChannelFactors", "n": "orientation"},
    # "a" is the SAME NAME on three families (three different Parameter objects); "u" has no default and is unset
    "blk": {"s": "power", "a": "detailedNDens", "d": "linPowByPin", "n": "adjMgFlux"},
    "cmp": {"s": "temperatureInC", "a": "detailedNDens", "d": "numberDensities", "n": "customIsotopicsName", "u": "zrFrac"},
}
RPAR = ("s", "a", "d", "n", "u")
# read-only family on the reactor (CallRO) and side-effecting mutators on writeable objects (Havoc)
RO_CALLS = {
    "r": ["changeNDensByFactor", "clearNumberDensities", "p.update", "p[]=", "del p[]", "copyParamsFrom"],
    "core": ["changeNDensByFactor", "clearNumberDensities", "setNumberDensity", "p.update", "del p[]", "copyParamsFrom"],
    "sfp": ["p.update", "p[]=", "copyParamsFrom"],
    "asm": ["changeNDensByFactor", "setNumberDensity", "clearNumberDensities", "setType", "setMass", "calculateZCoords",
            "del p[]", "copyParamsFrom"],
    "blk": ["changeNDensByFactor", "setNumberDensity", "setNumberDensities", "updateNumberDensities", "clearNumberDensities",
            "setMass", "addMass", "setHeight", "setType", "adjustUEnrich", "del p[]", "copyParamsFrom"],
    "cmp": ["changeNDensByFactor", "setNumberDensities", "updateNumberDensities", "clearNumberDensities", "setTemperature",
            "setDimension", "setMass", "addMass", "setMasses", "setType", "p.update", "p[]=", "del p[]", "copyParamsFrom"],
}
RW_CALLS = {"cmp": ["changeNDensByFactor", "setMass", "addMass", "clearNumberDensities", "updateNumberDensities"],
            "blk": ["changeNDensByFactor", "setNumberDensity", "clearNumberDensities"]}
NMAX = 64  # N of RetainState_trace.cfg
_TEMPLATE = None


class ReactorRecorder:
    name = "reactor"

    def __init__(self):
        armi_ready()
        import numpy as np
        from armi.reactor import assemblies, blocks, reactors
        from armi.reactor import parameters
        from armi.reactor.components import component
        from armi.reactor.excoreStructure import ExcoreStructure

        self.np = np
        self.parameters = parameters
        self.fam = [("r", reactors.Reactor), ("core", reactors.Core), ("sfp", ExcoreStructure),
                    ("asm", assemblies.Assembly), ("blk", blocks.Block), ("cmp", component.Component)]
        global _TEMPLATE
        if _TEMPLATE is None:
            from armi.reactor.tests.test_reactors import loadTestReactor

            o_, r = loadTestReactor(inputFileName="smallestTestReactor/armiRunSmallest.yaml")
            for k, c in enumerate(r.iterChildren(deep=True, predicate=lambda x: isinstance(x, component.Component))):
                c.getVolume()  # lazily computed parameter (Database._setParamsBeforeFreezing does the same)
                if k % 2 == 0:  # what depletion leaves behind: detailed / pin-wise number densities as arrays
                    c.p.detailedNDens = np.array([1.0e-3, 2.0e-3, 3.0e-3])
                    c.p.pinNDens = np.array([[1.0e-3, 2.0e-3]])
            # a 1/3-core model: the only assembly sits at the centre, its blocks are cut by the symmetry lines
            from armi.reactor import geometry

            r.core.symmetry = geometry.SymmetryType(geometry.DomainType.THIRD_CORE, geometry.BoundaryType.PERIODIC)
            r.core.clearCache()
            for c in r.iterChildren(deep=True, predicate=lambda x: isinstance(x, component.Component)):
                c.getVolume()
            if r.core[0][0].getSymmetryFactor() != 3.0:
                raise tlc.MachineryError("the central block is not on a symmetry line")
            for b in r.core.iterChildren(deep=True, predicate=lambda x: isinstance(x, blocks.Block)):
                b.p.mgFlux = np.array([1.0e13, 2.0e13])
                b.p.detailedNDens = np.array([1.0e-3, 2.0e-3])
            _TEMPLATE = (r, o_.cs)
        self.template, self.cs = _TEMPLATE
        # the families must really share one Parameter object per modelled parameter
        objs = [self.template] + list(self.template.iterChildren(deep=True))
        pds = {}
        for o in objs:
            f = self.family(o)
            for p, nm in RBIND[f].items():
                pd = o.p.paramDefs[nm]
                if pds.setdefault((f, p), pd) is not pd:
                    raise tlc.MachineryError("family %s does not share the definition of %s" % (f, nm))

    def family(self, o):
        for f, k in self.fam:
            if isinstance(o, k):
                return f
        raise tlc.MachineryError("object of unknown family %r" % (o,))

    def label(self, w, oid, p):
        f = w["cls"].get(oid, "?")
        nm = RBIND.get(f, {}).get(p, p)
        how = {"cmp.d": "[setNumberDensity]"}.get(f + "." + p, "")
        return "%s.%s%s" % (f, nm, how)

    # -- world -----------------------------------------------------------------------------------------
    def new_world(self):
        r = copy.deepcopy(self.template)
        objs = [r] + list(r.iterChildren(deep=True))
        w = {"obj": {i + 1: o for i, o in enumerate(objs)}, "cls": {}, "stack": [], "err": "", "vid": {}, "rid": {},
             "gid": {}, "prof": "reactor", "shapes": [], "db": None, "dbwalk": None, "dbn": 0, "dirty": False}
        for i, o in w["obj"].items():
            w["cls"][i] = self.family(o)
        return w

    # -- database -------------------------------------------------------------------------------------
    def db_write(self, w, rid):
        """Database.writeToDB of the reactor with id rid (a new state point every time); remembers the walk order"""
        import contextlib
        import io

        from armi.bookkeeping.db.databaseInterface import DatabaseInterface

        r = w["obj"][rid]
        with contextlib.redirect_stdout(io.StringIO()):
            if w["db"] is None:
                d = common.workdir("c16db")
                dbi = DatabaseInterface(r, self.cs)
                dbi.initDB(fName=os.path.join(d, "verif.h5"))
                w["db"] = dbi.database
            w["dbn"] += 1
            w["db"].writeToDB(r, statePointName="w%d" % w["dbn"])
        ident = {id(v): k for k, v in w["obj"].items()}
        w["dbwalk"] = [ident[id(x)] for x in [r] + list(r.iterChildren(deep=True))]

    def db_load(self, w, readOnly):
        """Database.load / loadReadOnly of the last state point; returns [[source id, new id], ..] in the
        specification's order (sources ascending, lowest free ids)"""
        import contextlib
        import io

        with contextlib.redirect_stdout(io.StringIO()):
            if readOnly:
                r2 = w["db"].loadReadOnly(0, 0, statePointName="w%d" % w["dbn"])
            else:
                r2 = w["db"].load(0, 0, statePointName="w%d" % w["dbn"], allowMissing=True)
        news = [r2] + list(r2.iterChildren(deep=True))
        if len(news) != len(w["dbwalk"]):
            raise AssertionError("loaded reactor has %d objects, %d were written" % (len(news), len(w["dbwalk"])))
        n0 = len(w["obj"])
        to = {s_: n0 + 1 + k for k, s_ in enumerate(sorted(w["dbwalk"]))}
        for s_, nn in zip(w["dbwalk"], news):
            if self.family(nn) != w["cls"][s_]:
                raise AssertionError("loaded object %r is not a %s" % (nn, w["cls"][s_]))
            w["obj"][to[s_]] = nn
            w["cls"][to[s_]] = w["cls"][s_]
        return [[s_, to[s_]] for s_ in sorted(w["dbwalk"])]

    def dispose(self, w):
        if w.get("db") is not None:
            try:  # (not Database.close(): that shells out to `mv` to move the file onto itself)
                if w["db"].h5db is not None:
                    w["db"].h5db.close()
                    w["db"].h5db = None
            except Exception:
                pass
            try:
                shutil.rmtree(os.path.dirname(w["db"].fileName), ignore_errors=True)
            except Exception:
                pass
            w["db"] = None

    def vid(self, w, table, c):
        t = w[table]
        if c not in t:
            t[c] = len(t) + 1
        return t[c]

    def grid_state(self, o):
        g = o.spatialGrid

        def r(x):
            if x is None:
                return None
            return tuple(float("%.10g" % y) for y in self.np.asarray(x, dtype=float).ravel())

        return (r(g._unitSteps), tuple(r(b) for b in g._bounds), r(g._offset), read_grid(g))

    def project(self, w):
        O = w["obj"]
        live = sorted(O)
        ident = {id(v): k for k, v in O.items()}
        val, rest, cass, cache, mcache, grid, ro, par, cls, ser, lk, dfl = [], [], [], [], [], [], [], [], [], [], [], []
        for i in live:
            o = O[i]
            f = w["cls"][i]
            d = o.p.__dict__
            b = RBIND[f]
            val.append({p: (self.vid(w, "vid", canon(_field(d, "_p_" + b[p]))) if p in b else 0) for p in RPAR})
            skip = {"_p_" + nm for nm in b.values()}
            skip.add("_p_serialNum")
            rest.append(self.vid(w, "rid", tuple(canon(_field(d, pd.fieldName)) for pd in o.p.paramDefs
                                                 if pd.fieldName not in skip)))
            t_ = link_of(o, ident)
            lk.append(t_ if isinstance(t_, int) else -1)  # (TLC compares integers: an unresolvable link is -1)
            dfl.append(int(bool(getattr(o, "derivedMustUpdate", False))) if f == "blk" else 0)
            cass.append(o.p.assigned)
            cache.append(o.cached.get(CACHE_KEY, 0))
            mcache.append(o.material.cached.get(CACHE_KEY, 0) if f == "cmp" else 0)
            grid.append(self.vid(w, "gid", self.grid_state(o)) if o.spatialGrid is not None else 0)
            ro.append(bool(o.p.readOnly))
            par.append(0 if o.parent is None else ident.get(id(o.parent), -1))
            cls.append(f)
            ser.append(o.p.serialNum)
        same = [min(j for j, s in zip(live, ser) if s == ser[k]) for k in range(len(live))]
        return {"val": val, "rest": rest, "cass": cass, "cache": cache, "mcache": mcache, "grid": grid, "dflag": dfl, "ro": ro,
                "parent": par, "cls": cls, "link": lk, "sameSerialAs": same, "depth": len(w["stack"]), "err": w["err"]}

    # -- random concrete values ------------------------------------------------------------------------
    def value(self, rng, p, f):
        np = self.np
        if p == "u":
            return rng.choice([0.05, 0.1, 0.25])
        if p == "s":
            return rng.choice([450.0, 525.0, 600.0, 700.0]) if f == "cmp" else rng.choice([0.0, 1.5, -3.25, 1.0e6, 2.5])
        if p == "a":
            k = rng.choice([0, 1, 2, 3, 4])
            if k == 0:
                return None
            shape = [(2,), (3,), (2, 2), (1,)][k - 1]
            return np.array([rng.choice([1.0, 2.0, 3.0]) for _ in range(int(np.prod(shape)))]).reshape(shape)
        if p == "d":
            return {"k%d" % j: rng.choice([1.0, 2.0]) for j in range(rng.randrange(1, 3))}
        return rng.choice([None, "txt", [1.0, 2.0], "other", 7])

    def subtree(self, w, i):
        o = w["obj"][i]
        ident = {id(v): k for k, v in w["obj"].items()}
        return [i] + [ident[id(c)] for c in o.iterChildren(deep=True)]

    # -- one random event ------------------------------------------------------------------------------
    def step(self, w, rng, force=None):
        """returns the event {"a":..,"post":..,"x":..} or None if the drawn action is not applicable"""
        O = w["obj"]
        live = sorted(O)
        kind = force["kind"] if force else rng.choice(
            ["Enter"] * 4 + ["Exit"] * 4 + ["Assign"] * 7 + ["Ndens"] * 3 + ["Temp"] * 2 + ["Mutate"] * 2 + ["SetCache"] * 3
            + ["SetHeight"] * 2
            + ["SetGrid"] * 3 + ["ReadGrid"] + ["DeepCopy", "DeepCopy", "Pickle", "MakeReadOnly", "WriteDb", "LoadDb", "LoadDbRO"] + ["RO"] * 4)
        writable = [i for i in live if not O[i].p.readOnly]
        frozen = [i for i in live if O[i].p.readOnly]
        a, x = None, {}
        w["err"] = ""
        try:
            if kind == "Enter":
                cands = [i for i in writable if all(not O[j].p.readOnly for j in self.subtree(w, i))]
                if len(w["stack"]) >= 4 or not cands:
                    return None
                r = rng.choice(cands)
                pairs = [(f, p) for f in RBIND for p in RBIND[f]]
                keep = rng.sample(pairs, rng.choice([0, 0, 1, 2, 3, 6]))
                pds = set()
                for f, p in keep:
                    for i in live:
                        if w["cls"][i] == f:
                            pds.add(O[i].p.paramDefs[RBIND[f][p]])
                            break
                a = {"n": "Enter", "r": r, "keep": [[f, p] for f, p in keep]}
                shapes = {}
                for i in self.subtree(w, r):
                    for f, p in keep:
                        if w["cls"][i] == f:
                            shapes[(i, p)] = shape_of(O[i].p.__dict__.get("_p_" + RBIND[f][p]))
                sr = O[r].retainState(pds)
                sr.__enter__()
                w["stack"].append(sr)
                w["shapes"].append(shapes)
            elif kind == "Exit":
                if not w["stack"]:
                    return None
                a = {"n": "Exit"}
                shapes = w["shapes"].pop()
                x["reshaped"] = any(
                    s is not None and shape_of(O[i].p.__dict__.get("_p_" + RBIND[w["cls"][i]][p])) not in (None, s)
                    for (i, p), s in shapes.items())
                sr = w["stack"].pop()
                if sr.composite.p.readOnly:
                    x["refused-exit"] = True  # frozen inside the scope: the specification says the exit is refused
                sr.__exit__(None, None, None)
            elif kind == "Assign":
                cands = [i for i in writable if RBIND[w["cls"][i]]]
                if not cands:
                    return None
                o = rng.choice(cands)
                f = w["cls"][o]
                p = rng.choice([q for q in RPAR if q in RBIND[f]])
                a = {"n": "Assign", "o": o, "p": p, "v": None}
                if f == "cmp" and p == "d":
                    # a valid composition (the mutators of later events must be able to work with it)
                    cur = O[o].p.numberDensities
                    newv = {k: v * rng.choice([0.5, 1.0, 2.0]) for k, v in cur.items()}
                else:
                    newv = self.value(rng, p, f)
                    if p not in ("s", "u"):
                        w["dirty"] = True  # arbitrary values of arbitrary kinds: not something a database can hold
                setattr(O[o].p, RBIND[f][p], newv)
            elif kind == "Ndens":
                cands = [i for i in writable if w["cls"][i] == "cmp" and O[i].parent is not None]
                if not cands:
                    return None
                o = rng.choice(cands)
                c = O[o]
                fam = self.block_family(w, o)
                if any(O[j].p.readOnly for j in fam):
                    return None
                a = {"n": "Havoc", "o": o, "touched": fam, "call": "setNumberDensity"}
                nuc = rng.choice(sorted(c.p.numberDensities) or ["U235"])
                if rng.random() < 0.7:
                    c.setNumberDensity(nuc, rng.choice([0.001, 0.002, 0.003]))
                else:
                    a["call"] = "setNumberDensities"
                    c.setNumberDensities({nuc: rng.choice([0.001, 0.002]), "FE56": 0.004})
            elif kind == "Temp":
                cands = [i for i in writable if w["cls"][i] == "cmp" and O[i].parent is not None]
                if not cands:
                    return None
                o = rng.choice(cands)
                fam = self.block_family(w, o)
                if any(O[j].p.readOnly for j in fam):
                    return None
                a = {"n": "Havoc", "o": o, "touched": fam, "call": "setTemperature"}
                O[o].setTemperature(rng.choice([450.0, 525.0, 600.0, 700.0]))
            elif kind == "SetCache":
                o = rng.choice(live)
                which = "mat" if (w["cls"][o] == "cmp" and rng.random() < 0.5) else "obj"
                tag = rng.randrange(1, 9)
                a = {"n": "SetCache", "o": o, "w": which, "tag": tag}
                (O[o] if which == "obj" else O[o].material)._setCache(CACHE_KEY, tag)
            elif kind == "SetHeight":
                cands = [i for i in writable if w["cls"][i] == "blk" and O[i].parent is not None
                         and w["cls"].get(self.ident(w, O[i].parent)) == "asm"]
                if not cands:
                    return None
                o = rng.choice(cands)
                touched = sorted(self.subtree(w, self.ident(w, O[o].parent)))
                if any(O[j].p.readOnly for j in touched):
                    return None
                a = {"n": "Havoc", "o": o, "touched": touched, "call": "setHeight"}
                O[o].setHeight(rng.choice([10.0, 25.0, 40.0]) + rng.choice([0.0, 0.5]))
            elif kind == "ParamsFrom":
                ident_ = {id(v): k for k, v in O.items()}
                pairs = [(i, j) for i in writable for j in live if i != j and type(O[i]) is type(O[j])
                         and w["cls"][i] in ("cmp", "blk", "asm") and link_of(O[j], ident_) == 0]  # (no links taken over)
                if not pairs:
                    return None
                dst, src = rng.choice(pairs)
                how = rng.choice(["CopyParams", "UpdateParams"])
                a = {"n": how, "o": dst, "src": src}
                if how == "CopyParams":
                    O[dst].copyParamsFrom(O[src])
                else:
                    O[dst].updateParamsFrom(O[src])
                w["dirty"] = True
            elif kind == "ReadGrid":
                cands = [i for i in live if O[i].spatialGrid is not None]
                if not cands:
                    return None
                o = rng.choice(cands)
                a = {"n": "ReadGrid", "o": o}
                read_grid(O[o].spatialGrid)
            elif kind == "SetGrid":
                cands = [i for i in writable if O[i].spatialGrid is not None]
                if not cands:
                    return None
                o = rng.choice(cands)
                a = {"n": "SetGrid", "o": o, "g": None}
                self.change_grid(O[o], w["cls"][o], rng)
            elif kind == "WriteDb":
                roots = [i for i in live if w["cls"][i] == "r" and O[i].parent is None
                         and all(not O[j].p.readOnly for j in self.subtree(w, i))]
                if not roots or w["dirty"] or (w["dbn"] >= 3 and not force):
                    return None
                r = force.get("o", roots[0]) if force else rng.choice(roots)
                sub = sorted(self.subtree(w, r))
                # volume is a lazily computed parameter: reading it (which writing a database does) may store it
                # (None after clearCache, or a derived shape whose block says "must update"); that is its own event
                before = self.project(w)
                comps = [j for j in sub if w["cls"][j] == "cmp"]
                for j in comps:
                    O[j].getVolume()
                if comps and self.project(w) != before:
                    a = {"n": "Havoc", "o": comps[0], "touched": sub, "call": "getVolume"}
                else:
                    a = {"n": "WriteDb", "r": r}
                    self.db_write(w, r)
            elif kind in ("LoadDb", "LoadDbRO"):
                if w["db"] is None or len(live) + len(w["dbwalk"]) > NMAX:
                    return None
                a = {"n": kind, "ids": None}
                a["ids"] = self.db_load(w, kind == "LoadDbRO")
            elif kind == "Mutate":
                cands = [i for i in writable if w["cls"][i] in ("cmp", "blk") and O[i].parent is not None]
                if not cands:
                    return None
                o = rng.choice(cands)
                f = w["cls"][o]
                fam = self.block_family(w, o) if f == "cmp" else sorted(set(self.subtree(w, o)))
                if any(O[j].p.readOnly for j in fam):
                    return None
                m = rng.choice(RW_CALLS[f])
                a = {"n": "Havoc", "o": o, "touched": fam, "call": m}
                call_mutator(O[o], f, m)
            elif kind in ("DeepCopy", "Pickle"):
                o = force["o"] if force else rng.choice(
                    live if rng.random() < 0.3 else [i for i in live if w["cls"][i] in ("asm", "blk", "cmp")])
                src = sorted(self.subtree(w, o))
                if len(live) + len(src) > NMAX:
                    return None
                new = copy.deepcopy(O[o]) if kind == "DeepCopy" else pickle.loads(pickle.dumps(O[o]))
                olds = [O[o]] + list(O[o].iterChildren(deep=True))
                news = [new] + list(new.iterChildren(deep=True))
                ident = {id(v): k for k, v in O.items()}
                n0 = len(live)
                to = {s: n0 + 1 + k for k, s in enumerate(src)}
                a = {"n": kind, "x": o, "ids": [[s, to[s]] for s in src]}
                if len(olds) != len(news):
                    raise AssertionError("copy has %d nodes, source %d" % (len(news), len(olds)))
                for oo, nn in zip(olds, news):
                    s = ident[id(oo)]
                    O[to[s]] = nn
                    w["cls"][to[s]] = w["cls"][s]
            elif kind == "MakeReadOnly":
                roots = [i for i in live if O[i].parent is None and any(not O[j].p.readOnly for j in self.subtree(w, i))]
                if not roots or rng.random() < (0.8 if w["stack"] else 0.5):
                    return None  # (mostly outside scopes; sometimes while scopes are open: their exits are then refused)
                r = rng.choice(roots)
                a = {"n": "MakeReadOnly", "r": r}
                from armi.reactor import reactorParameters

                reactorParameters.makeParametersReadOnly(O[r])
            elif kind == "RO":
                cands = [i for i in frozen if RBIND[w["cls"][i]]]
                if not cands:
                    return None
                o = rng.choice(cands)
                f = w["cls"][o]
                how = rng.choice(["set", "call", "call", "api"]) if f == "cmp" else rng.choice(["set", "call"])
                detached = f == "cmp" and O[o].parent is None  # the component mutators need a parent (volume, links)
                if how == "api" and detached:
                    how = "set"
                if how == "call":
                    m = rng.choice([c for c in RO_CALLS[f] if not detached or c in ("p.update", "p[]=", "del p[]", "copyParamsFrom")])
                    a = {"n": "CallRO", "o": o, "m": m}
                    call_mutator(O[o], f, m)
                elif how == "set":
                    p = rng.choice([q for q in RPAR if q in RBIND[f]])
                    a = {"n": "AssignRO", "o": o, "p": p, "v": 0}
                    setattr(O[o].p, RBIND[f][p], self.value(rng, p, f))
                elif rng.random() < 0.5:
                    a = {"n": "AssignRO", "o": o, "p": "d", "v": 0, "call": "setNumberDensity"}
                    O[o].setNumberDensity(sorted(O[o].p.numberDensities)[0], 0.0077)
                else:
                    a = {"n": "AssignRO", "o": o, "p": "s", "v": 0, "call": "setTemperature"}
                    O[o].setTemperature(432.0)
        except tlc.MachineryError:
            raise
        except Exception as ex:
            if a is None:
                raise
            w["err"] = type(ex).__name__
            x["errtext"] = "%s: %s" % (type(ex).__name__, str(ex)[:200])
        post = self.project(w)
        if a["n"] == "Assign":
            a["v"] = post["val"][a["o"] - 1][a["p"]]
        if a["n"] == "SetGrid":
            a["g"] = post["grid"][a["o"] - 1]
        ev = {"a": a, "post": post}
        if x:
            ev["x"] = x
        return ev

    def ident(self, w, obj):
        for k, v in w["obj"].items():
            if v is obj:
                return k
        return None

    def block_family(self, w, o):
        """the objects a component mutator may touch: the component, its siblings and their parent"""
        c = w["obj"][o]
        ident = {id(v): k for k, v in w["obj"].items()}
        if c.parent is None:
            return [o]
        return sorted([ident[id(c.parent)]] + [ident[id(k)] for k in c.parent])

    def change_grid(self, o, f, rng):
        g = o.spatialGrid
        np = self.np
        if f == "asm" or g._bounds[2] is not None and g._unitSteps.size == 0:
            b = list(g._bounds)
            old = np.asarray(b[2], dtype=float)
            b[2] = old * rng.choice([1.25, 0.5, 2.0]) + rng.choice([0.0, 1.0])
            g._bounds = tuple(b)
        elif hasattr(g, "cornersUp"):
            g.changePitch(rng.choice([1.0, 2.0, 3.0, 16.0]) + rng.choice([0.0, 0.125]))
        else:
            g.changePitch(rng.choice([1.0, 2.0, 3.0]), rng.choice([1.0, 2.5]))

    def record(self, tid, nev, rng, directed=False, closing=False):
        w = self.new_world()
        p0 = self.project(w)
        init = {k: p0[k] for k in ("parent", "cls", "val", "rest", "cass", "grid", "link", "dflag")}
        ev = []
        tries = 0
        # every fourth history starts with: write the reactor, make objects, load the snapshot, make more objects
        script = [{"kind": "WriteDb", "o": 1}, {"kind": "DeepCopy", "o": 4}, {"kind": "DeepCopy", "o": 5},
                  {"kind": rng.choice(["LoadDb", "LoadDbRO"])}, {"kind": "DeepCopy", "o": 4}] if directed else []
        try:
            while len(ev) < nev and tries < nev * 6:
                tries += 1
                e = self.step(w, rng, force=script.pop(0) if script else None)
                if e is None:
                    continue
                ev.append(e)
                if e["post"]["err"] and e["a"]["n"] not in ("AssignRO", "CallRO") and not e.get("x", {}).get("refused-exit"):
                    break  # an operation that must succeed raised: the objects are in an undefined state
            else:
                # last event of every other history: copyParamsFrom / updateParamsFrom (they take over values BY
                # REFERENCE and replace the collection, so nothing sensible can follow them in a storm)
                if closing:
                    e = self.step(w, rng, force={"kind": "ParamsFrom"})
                    if e is not None:
                        ev.append(e)
        finally:
            self.dispose(w)
        return {"id": tid, "init": init, "ev": ev}


class DbAdapter:
    """replay adapter of the database family: the smallest test reactor, a real Database file per world"""

    def __init__(self, recorder):
        self.rec = recorder
        self.name = "reactor-db"
        self.prof = {}

    def build(self, root):
        w = self.rec.new_world()
        if [w["cls"][i] for i in sorted(w["obj"])] != list(root["cls"] if "cls" in root else self.expect_cls):
            raise tlc.MachineryError("the smallest test reactor is not the tree of RetainState_emitD.cfg")
        return w

    expect_cls = ["r", "core", "sfp", "asm", "blk"] + ["cmp"] * 7

    def dispose(self, w):
        self.rec.dispose(w)

    def label(self, w, oid, p):
        return self.rec.label(w, oid, p)

    def apply(self, w, a):
        O = w["obj"]
        n = a["n"]
        w["err"] = ""
        try:
            if n == "WriteDb":
                self.rec.db_write(w, a["r"])
            elif n in ("LoadDb", "LoadDbRO"):
                ids = self.rec.db_load(w, n == "LoadDbRO")
                if ids != [list(x) for x in a["ids"]]:
                    raise AssertionError("loaded objects %r, specification %r" % (ids, a["ids"]))
            elif n == "DeepCopy":
                src = O[a["x"]]
                new = copy.deepcopy(src)
                olds = [src] + list(src.iterChildren(deep=True))
                news = [new] + list(new.iterChildren(deep=True))
                ident = {id(v): k for k, v in O.items()}
                to = {s_: d for s_, d in a["ids"]}
                if len(olds) != len(news) or len(olds) != len(to):
                    raise AssertionError("copy has %d nodes, source %d, specification %d" % (len(news), len(olds), len(to)))
                for oo, nn in zip(olds, news):
                    s_ = ident[id(oo)]
                    O[to[s_]] = nn
                    w["cls"][to[s_]] = w["cls"][s_]
            else:
                raise tlc.MachineryError("unknown action " + n)
        except tlc.MachineryError:
            raise
        except Exception as ex:
            w["err"] = type(ex).__name__
            w["errtext"] = "%s: %s" % (type(ex).__name__, str(ex)[:200])
        return w["err"]

    def project(self, w):
        O = w["obj"]
        live = sorted(O)
        ident = {id(v): k for k, v in O.items()}
        ser = [O[i].p.serialNum for i in live]
        return {"parent": [0 if O[i].parent is None else ident.get(id(O[i].parent), -1) for i in live],
                "cls": [w["cls"][i] for i in live],
                "sameSerialAs": [min(j for j, s_ in zip(live, ser) if s_ == ser[k]) for k in range(len(live))],
                "ro": [bool(O[i].p.readOnly) for i in live], "err": w["err"]}


def db_replay(thorough, recorder):
    """spec -> code for the database family; returns plain data like traces_collect"""
    cfg = "RetainState_emitD_thorough.cfg" if thorough else "RetainState_emitD.cfg"
    res = tlc.run("RetainState_mc", cfg, MODDIR, workers=1, coverage=False, timeout=3000)
    g = EdgeGraph(res.prints)
    g.rootvars = dict(g.rootvars, cls=DbAdapter.expect_cls)
    ad = DbAdapter(recorder)
    st, divs = cover(g, ad, range(len(g.edges)))
    out = {"cfg": cfg, "tlc": {"summary": res.summary(), "distinct": res.distinct, "generated": res.generated},
           "edges": len(g.edges), "stats": st, "violations": [], "keys": {}}

    class Rep:
        def violation(self, key, what, payload=None):
            out["keys"][key] = out["keys"].get(key, 0) + 1
            if out["keys"][key] == 1:
                out["violations"].append({"key": key, "what": what, "payload": payload})

    for d in divs:
        d["root"] = {"parent": g.rootvars["parent"], "cls": DbAdapter.expect_cls}
        d["from"] = None
        report_div(Rep(), d, ad, "replay-db")
    return out


def traces_collect(thorough, seed, recorder=None, ntraces=None):
    """record + validate; returns plain data (so that it can run in a child process next to the edge replay)"""
    rec = recorder or ReactorRecorder()
    rng = random.Random(seed * 7919 + 16)
    nt = ntraces or (200 if thorough else 40)
    nev = 60 if thorough else 40
    t0 = time.time()
    traces = [rec.record("t%d" % t, nev, rng, directed=(t % 4 == 0), closing=(t % 2 == 1)) for t in range(nt)]
    t_rec = time.time() - t0
    bad, stats = tracecheck.validate("RetainState_trace", "RetainState_trace.cfg", MODDIR, traces, timeout=3000)
    res = stats["tlc"]
    nevents = sum(len(t["ev"]) for t in traces)
    out = {"ntraces": len(traces), "nevents": nevents, "accepted": stats["accepted"], "rejected": len(bad),
           "tlc": {"summary": res.summary(), "distinct": res.distinct, "generated": res.generated},
           "violations": [], "keys": {}, "record_s": round(t_rec, 1), "sample": None}
    if traces and traces[0]["ev"]:
        out["sample"] = {"kind": "trace", "id": traces[0]["id"], "events": [
            {"a": e["a"], "post": {k: e["post"][k] for k in ("depth", "err", "sameSerialAs")}} for e in traces[0]["ev"][:3]]}
    keys = out["keys"]
    validated = nevents
    byid = {t["id"]: t for t in traces}

    def viol(key, what, payload):
        keys[key] = keys.get(key, 0) + 1
        if keys[key] == 1:
            out["violations"].append({"key": key, "what": what, "payload": payload})

    # disagreements about serial numbers do not end a history (no action reads them): first one per history
    first_serial = {}
    for p in res.prints:
        if isinstance(p, dict) and "serial" in p:
            fk = (p["serial"], p.get("field", "sameSerialAs"))
            if fk not in first_serial or p["at"] < first_serial[fk]["at"]:
                first_serial[fk] = p
    for (tidn, fld), p in sorted(first_serial.items()):
        tr = byid[tidn]
        k = p["at"] - 1
        e = tr["ev"][k]
        d = rp.diff({fld: p["expected"][fld]}, e["post"])
        beh = [x["a"] for x in tr["ev"][: k + 1]]
        key = make_key(e["a"], d or "." + fld, tr["init"]["parent"], beh, None, False, "", "")
        viol(key, "recorded history on the reactor is not a behaviour of RetainState at event %d %s: %s" % (
            k + 1, json.dumps(e["a"]), d), {"direction": "trace", "matched": k, "first_difference": d, "behaviour": beh,
                                            "expected": p["expected"], "observed": e["post"], "trace_id": tidn})
    for b in bad:
        if "invariant" in b:
            viol("trace:invariant:" + b["invariant"],
                 "a property of RetainState failed on a state reached by a recorded history: " + b["invariant"],
                 {"direction": "tlc", "trace": b["tlc"]})
            continue
        tr = b["trace"]
        k = b["matched"]
        validated -= len(tr["ev"]) - k
        if k >= len(tr["ev"]):
            raise tlc.MachineryError("trace %s rejected after its last event" % tr["id"])
        e = tr["ev"][k]
        mm = b.get("mismatch")
        beh = [x["a"] for x in tr["ev"][: k + 1]]
        if mm and mm.get("at") == k + 1:
            d = rp.diff(mm["expected"], e["post"])
            w = {"cls": {i + 1: c for i, c in enumerate(e["post"]["cls"])}}
            key = make_key(e["a"], d or ".?", tr["init"]["parent"], beh, lambda oi, p: rec.label(w, oi, p),
                           bool(e.get("x", {}).get("reshaped")), mm["expected"].get("err", ""), e["post"].get("err", ""))
            what = "recorded history on the reactor is not a behaviour of RetainState at event %d %s: %s%s" % (
                k + 1, json.dumps(e["a"]), d, (" (" + e["x"]["errtext"] + ")") if e.get("x", {}).get("errtext") else "")
            payload = {"direction": "trace", "matched": k, "first_difference": d, "behaviour": beh,
                       "expected": mm["expected"], "observed": e["post"], "trace_id": tr["id"]}
        else:
            key = "%s:not-a-step" % e["a"]["n"]
            what = "recorded event %d %s is not enabled in RetainState after the first %d events" % (k + 1, json.dumps(e["a"]), k)
            payload = {"direction": "trace", "matched": k, "behaviour": beh, "observed": e["post"], "trace_id": tr["id"]}
        viol(key, what, payload)
    out["validated"] = validated
    return out


class _TlcShim:
    def __init__(self, d):
        self.d, self.distinct, self.generated = d["summary"], d["distinct"], d["generated"]

    def summary(self):
        return dict(self.d)


def traces_report(rep, out):
    rep.add_tlc("trace-validation", _TlcShim(out["tlc"]))
    rep.add_traces("reactor-storms", out["ntraces"], out["nevents"],
                   "seeded random histories on the smallest test reactor (12 objects + copies): nested scopes on any "
                   "object with random keep-sets, assignments of scalars/arrays/dicts/None/strings to parameters of every "
                   "family, setNumberDensity(ies), setTemperature, caches, grid pitch / bounds, deep copies, pickles, "
                   "read-only; every event with the complete projected post-state must be a step of RetainState")
    if out["sample"]:
        rep.sample(out["sample"])
    for v in out["violations"]:
        rep.violation(v["key"], v["what"], v["payload"])
    rep.extra.setdefault("traces", {})["reactor-storms"].update(
        {"accepted": out["accepted"], "rejected": out["rejected"],
         "events_validated_before_first_rejection": out["validated"], "rejection_keys": out["keys"],
         "record_s": out["record_s"]})
    if out["ntraces"] == 0 or out["nevents"] == 0:
        raise tlc.MachineryError("vacuous: no trace events were recorded")


def db_report(rep, out):
    rep.add_tlc("edges:" + out["cfg"], _TlcShim(out["tlc"]))
    st = out["stats"]
    rep.add_replay("edges-database", st["covered"], st["nontrivial"],
                   "database family: every edge of the write / load / loadReadOnly / deep-copy graph is executed on the "
                   "smallest test reactor with a real Database file; parent links, classes, read-only flags and the "
                   "serial-number sharing classes are compared after every step")
    rep.extra.setdefault("replay", {})["edges-database"].update(
        {"edges_in_graph": out["edges"], "walks": st["walks"], "steps_executed": st["steps"],
         "divergent_edges": st["divergent"], "edges_not_reachable_without_a_divergent_edge": st["blocked"]})
    for v in out["violations"]:
        rep.violation(v["key"], v["what"], v["payload"])
    if out["edges"] == 0 or st["covered"] == 0:
        raise tlc.MachineryError("vacuous: no database edge was replayed")


def _child(argv):
    what, tier, seed, outp = argv[0], argv[1], int(argv[2]), argv[3]
    try:
        rec = ReactorRecorder()
        out = traces_collect(tier == "thorough", seed, recorder=rec) if what == "traces" else db_replay(tier == "thorough", rec)
    except tlc.MachineryError as ex:
        out = {"machinery": str(ex)}
    with open(outp, "w") as f:
        json.dump(out, f, default=str)


# ------------------------------------------------------------------------------------------------------------
# replay of one violation
# ------------------------------------------------------------------------------------------------------------
def replay(payload):
    direction = payload.get("direction")
    if direction == "replay":
        ad = MiniAdapter(payload["adapter"])
        w = ad.build(payload["root"])
        got = None
        for a in payload["behaviour"]:
            ad.apply(w, a)
            got = ad.project(w)
        d = rp.diff(payload["expected"], got)
        if d:
            print(json.dumps({"behaviour": payload["behaviour"], "first_difference": d, "error": w.get("errtext", ""),
                              "expected": payload["expected"], "observed": got}, indent=1, default=str))
            return 1
        print("no divergence: behaviour conforms")
        return 0
    if direction == "replay-db":
        ad = DbAdapter(ReactorRecorder())
        w = ad.build({"cls": DbAdapter.expect_cls})
        got = None
        try:
            for a in payload["behaviour"]:
                ad.apply(w, a)
                got = ad.project(w)
        finally:
            ad.dispose(w)
        d = rp.diff(payload["expected"], got)
        if d:
            print(json.dumps({"behaviour": payload["behaviour"], "first_difference": d, "error": w.get("errtext", ""),
                              "expected": payload["expected"], "observed": got}, indent=1, default=str))
            return 1
        print("no divergence: behaviour conforms")
        return 0
    if direction == "trace":
        rec = ReactorRecorder()
        seed = payload.get("seed", 0)
        rng = random.Random(seed * 7919 + 16)
        thorough = payload.get("tier") == "thorough"
        want = payload["trace_id"]
        tr = None
        for t in range(200 if thorough else 40):
            tr = rec.record("t%d" % t, 60 if thorough else 40, rng, directed=(t % 4 == 0), closing=(t % 2 == 1))
            if tr["id"] == want:
                break
        bad, stats = tracecheck.validate("RetainState_trace", "RetainState_trace.cfg", MODDIR, [tr])
        ser = [p for p in stats["tlc"].prints if isinstance(p, dict) and "serial" in p]
        if bad or ser:
            k = bad[0]["matched"] if bad else min(p["at"] for p in ser) - 1
            e = tr["ev"][k]
            exp = (bad[0].get("mismatch") or {}).get("expected") if bad else min(ser, key=lambda p: p["at"])["expected"]
            print(json.dumps({"trace": want, "rejected_at_event": k + 1, "action": e["a"],
                              "first_difference": rp.diff(exp, e["post"]) if exp else "not a step",
                              "behaviour": [x["a"] for x in tr["ev"][: k + 1]]}, indent=1, default=str))
            return 1
        print("trace %s is accepted" % want)
        return 0
    print(payload.get("trace", "")[:20000] if direction == "tlc" else json.dumps(payload, indent=1, default=str)[:20000])
    return 0


# ------------------------------------------------------------------------------------------------------------
# binding demonstration: realistic in-process mutants of the anchored code
# ------------------------------------------------------------------------------------------------------------
def _mutants():
    """(name, install() -> undo).  Each one still lets armi import and run; each is a different mechanism."""
    armi_ready()
    from armi.materials import material
    from armi.reactor import composites, reactorParameters
    from armi.reactor.components import component
    from armi.reactor.grids import structuredGrid
    from armi.reactor.parameters import parameterCollections as pc
    from armi.reactor.parameters import parameterDefinitions as pdm

    PC, P = pc.ParameterCollection, pdm.Parameter

    def swap(obj, name, fn):
        old = obj.__dict__[name] if isinstance(obj, type) else getattr(obj, name)
        setattr(obj, name, fn)
        return lambda: setattr(obj, name, old)

    out = []

    def m_outer():  # the pickled backup does not contain the outer backup
        def backUp(self):
            st = self.__getstate__()
            st[self._allFields.index("_backup")] = None
            self._backup = pickle.dumps(st)
            self.assigned &= ~pdm.SINCE_BACKUP
        return swap(PC, "backUp", backUp)
    out.append(("collection backup drops the outer backup", m_outer))

    def m_keep_ignored():
        orig = PC.restoreBackup
        return swap(PC, "restoreBackup", lambda self, keep: orig(self, set()))
    out.append(("restoreBackup ignores the keep-set", m_keep_ignored))

    def m_keep_all():
        orig = PC.restoreBackup
        return swap(PC, "restoreBackup", lambda self, keep: orig(self, set(self.paramDefs)))
    out.append(("restoreBackup keeps every assigned parameter", m_keep_all))

    def m_keep_wrong():  # keep-set applied to the wrong collection: definitions matched by NAME across classes
        orig = PC.restoreBackup

        def restoreBackup(self, keep):
            names = {pd.name for pd in keep}
            return orig(self, {pd for pd in self.paramDefs if pd.name in names} | {pd for pd in self.paramDefs if pd.name == "power" and "temperatureInC" in names})
        return swap(PC, "restoreBackup", restoreBackup)
    out.append(("keep-set applied to another class's parameter", m_keep_wrong))

    def m_bit():
        def backUp(self):
            self._backup = pickle.dumps(self.__getstate__())
        return swap(PC, "backUp", backUp)
    out.append(("backUp does not clear SINCE_BACKUP", m_bit))

    def m_cache():
        def restoreBackup(self, keep):
            self.p.restoreBackup(keep)
            _dropped, self._backupCache = self._backupCache
            if self.spatialGrid:
                self.spatialGrid.restoreBackup()
        return swap(composites.ArmiObject if "restoreBackup" in composites.ArmiObject.__dict__ else composites.Composite,
                    "restoreBackup", restoreBackup)
    out.append(("composite cache computed inside the scope survives it", m_cache))

    def m_mcache():
        def restoreBackup(self, keep):
            _dropped, self._backupCache = self._backupCache
        return swap(material.Material, "restoreBackup", restoreBackup)
    out.append(("material cache computed inside the scope survives it", m_mcache))

    def m_serial():
        orig = PC.__deepcopy__

        def dc(self, memo):
            new = orig(self, memo)
            object.__setattr__(new, "_p_serialNum", self.serialNum)
            return new
        return swap(PC, "__deepcopy__", dc)
    out.append(("__deepcopy__ reuses the serial number", m_serial))

    def m_shallow():
        def dc(self, memo):
            memo[id(self)] = new = self.__class__(_state=list(self.__getstate__()))
            return new
        return swap(PC, "__deepcopy__", dc)
    out.append(("__deepcopy__ shares the stored values with the original", m_shallow))

    def m_ro_depth():
        def mro(r):
            r.p.readOnly = True
            for c in r:
                c.p.readOnly = True
        return swap(reactorParameters, "makeParametersReadOnly", mro)
    out.append(("read-only not propagated below the first level", m_ro_depth))

    def m_ro_open():
        def sa(self, key, value):
            assert key in self._slots
            if getattr(self, "readOnly", False) and key == "readOnly":
                raise RuntimeError("A read-only Parameter Collection cannot be made writeable.")
            object.__setattr__(self, key, value)
        return swap(PC, "__setattr__", sa)
    out.append(("read-only collection only protects its readOnly switch", m_ro_open))

    def m_pdflag():
        def rb(self, keep):
            self._backup, _assigned = self._backup
        return swap(P, "restoreBackup", rb)
    out.append(("Parameter.restoreBackup never restores assigned", m_pdflag))

    def m_bounds():
        def rb(self):
            self._unitSteps, _bounds, self._offset = self._backup
        return swap(structuredGrid.StructuredGrid, "restoreBackup", rb)
    out.append(("grid restore forgets the bounds", m_bounds))

    def m_nogrid():
        def rb(self, keep):
            self.p.restoreBackup(keep)
            self.cached, self._backupCache = self._backupCache
        return swap(composites.ArmiObject if "restoreBackup" in composites.ArmiObject.__dict__ else composites.Composite,
                    "restoreBackup", rb)
    out.append(("grids are not restored at all", m_nogrid))

    def m_shallow_scope():
        def helper(self, func):
            pds = set(self.composite.p.paramDefs)
            func(self.composite)
            for pd in pds:
                func(pd)
        return swap(composites.StateRetainer, "_enterExitHelper", helper)
    out.append(("scope does not reach the descendants", m_shallow_scope))

    def m_ndflag():  # the in-place mutator forgets to flag the collection
        orig = component.Component.updateNumberDensities

        def und(self, nd, wipe=False):
            before = self.p.assigned
            orig(self, nd, wipe=wipe)
            if not wipe:
                object.__setattr__(self.p, "assigned", before)
        return swap(component.Component, "updateNumberDensities", und)
    out.append(("setNumberDensity does not flag the collection", m_ndflag))

    def m_exit_order():  # restore in one slot for the collection too (like the grid): last backup wins
        def rb(self, keep):
            data = pickle.loads(self._backup)
            keepb = self._backup
            PC.__setstate__(self, data)
            object.__setattr__(self, "_backup", keepb)
        return swap(PC, "restoreBackup", rb)
    out.append(("collection keeps a single backup slot", m_exit_order))

    def m_seed4():  # seeded change 4: the "other" density parameters are scaled (in place) before the refusal
        def cf(self, factor):
            self._changeOtherDensParamsByFactor(factor)
            self.p.numberDensities = {nuc: dens * factor for nuc, dens in self.p.numberDensities.items()}
        return swap(component.Component, "changeNDensByFactor", cf)
    out.append(("changeNDensByFactor scales detailedNDens/pinNDens before the refusal", m_seed4))

    def m_seed5():  # seeded change 5: Database.load moves the serial counter to the largest STORED serial
        from armi.bookkeeping.db import database

        orig = database.Database.load

        def load(self, *a, **k):
            r = orig(self, *a, **k)
            pc.GLOBAL_SERIAL_NUM = int(max(x.p.serialNum for x in [r] + list(r.iterChildren(deep=True))))
            return r
        return swap(database.Database, "load", load)
    out.append(("Database.load sets the serial counter to the database maximum", m_seed5))

    # ---- second seeding round ----
    def m_r2_unset():  # __setstate__ skips fields for which nothing was stored: an unset parameter is never put back
        def ss(self, state):
            for key, val in zip(self._allFields, state):
                if val is pdm.NoDefault:
                    continue
                setattr(self, key, val)
        return swap(PC, "__setstate__", ss)
    out.append(("__setstate__ skips NoDefault (unset never restored)", m_r2_unset))

    def m_r2_hash():  # Parameter.__hash__ on the name only: a same-named definition of another class matches the keep-set
        return swap(P, "__hash__", lambda self: hash(self.name))
    out.append(("Parameter.__hash__ hashes the name only", m_r2_hash))

    def m_r2_tuple():  # deepcopy fast path that does not copy tuples (_DimensionLink is a tuple)
        def dc(self, memo):
            immutable = (int, float, str, bytes, tuple, type(None))
            state = [v if isinstance(v, immutable) else copy.deepcopy(v, memo) for v in self.__getstate__()]
            memo[id(self)] = new = self.__class__(_state=state)
            return new
        return swap(PC, "__deepcopy__", dc)
    out.append(("__deepcopy__ does not copy tuples (dimension links shared)", m_r2_tuple))

    def m_r2_pitch():  # HexGrid.pitch memoised; changePitch invalidates, restoreBackup does not
        from math import sqrt

        from armi.reactor.grids import hexagonal

        H = hexagonal.HexGrid
        oldp, oldc = H.__dict__["pitch"], H.__dict__["changePitch"]

        def pitch(self):
            v = self.__dict__.get("_pitch")
            if v is None:
                v = sqrt(self._unitSteps[0][0] ** 2 + self._unitSteps[1][0] ** 2)
                self._pitch = v
            return v

        def changePitch(self, newPitchCm):
            oldc(self, newPitchCm)
            self._pitch = None
        H.pitch = property(pitch)
        H.changePitch = changePitch

        def undo():
            H.pitch = oldp
            H.changePitch = oldc
        return undo
    out.append(("HexGrid.pitch memoised, not invalidated by restoreBackup", m_r2_pitch))

    # ---- third seeding round ----
    def m_r3_bounds():  # calculateZCoords refreshes the k-bounds array in place (the grid backup holds the same array)
        from armi.reactor import assemblies

        orig = assemblies.Assembly.calculateZCoords

        def czc(self):
            old = self.spatialGrid._bounds[2]
            orig(self)
            new = self.spatialGrid._bounds[2]
            if old is not None and len(old) == len(new):
                old[:] = new
                b = list(self.spatialGrid._bounds)
                b[2] = old
                self.spatialGrid._bounds = tuple(b)
        return swap(assemblies.Assembly, "calculateZCoords", czc)
    out.append(("calculateZCoords refreshes the axial bounds in place", m_r3_bounds))

    def m_r3_dict():  # __setstate__ writes into __dict__: the read-only guard is bypassed at scope exit
        def ss(self, state):
            self.__dict__.update(zip(self._allFields, state))
        return swap(PC, "__setstate__", ss)
    out.append(("__setstate__ bypasses the read-only guard", m_r3_dict))

    def m_r3_sym():  # Block.__deepcopy__ clears the cache of copies of blocks on a symmetry line (component volumes -> None)
        from armi.reactor import blocks

        orig = blocks.Block.__deepcopy__

        def dc(self, memo):
            b = orig(self, memo)
            if self.getSymmetryFactor() != 1.0:
                b.clearCache()
            return b
        return swap(blocks.Block, "__deepcopy__", dc)
    out.append(("deep copy of a block on a symmetry line drops component volumes", m_r3_sym))
    return out


def selftest():
    """prints caught/MISSED per mutant; 0 iff everything was caught (and TLC refutes the as-built mechanism)"""
    rc = 0
    # 0. the specification's own properties are not vacuous: the mechanisms as built are refuted by TLC
    for cfg, want, what in (("RetainState_asbuilt_grid.cfg", ("ExitRestoresGrid",), "single grid backup slot"),
                            ("RetainState_asbuilt_serial.cfg", ("SerialsUnique",), "unpickled copy keeps the serial"),
                            ("RetainState_asbuilt_dbserial.cfg", ("SerialsBelowNext", "SerialFresh", "SerialsUnique"),
                             "Database.load moves the serial counter to the stored maximum")):
        res = tlc.run("RetainState_mc", cfg, MODDIR, workers=4, want_prints=False, timeout=600)
        ok = res.violation is not None and res.violation["name"] in want
        print("%s  spec-level: mechanism as built (%s) %s by TLC (%s)" % (
            "caught " if ok else "MISSED ", what, "refuted" if ok else "NOT refuted", res.violation["name"] if res.violation else "-"))
        rc |= 0 if ok else 1
    graphs = {}
    for focus, cfgs in EMIT.items():
        r = tlc.run("RetainState_mc", cfgs[0], MODDIR, workers=1, coverage=False, timeout=3000)
        graphs[focus] = EdgeGraph(r.prints)
    rec = ReactorRecorder()

    class Rep:
        def __init__(self):
            self.keys = {}

        def violation(self, key, what, payload=None):
            self.keys.setdefault(key, what)

    def keys_of(stop_at_new=None):
        rep = Rep()
        adapters = {p: MiniAdapter(p) for p in ALL_PROFILES}
        for focus in EMIT_QUICK:
            g = graphs[focus]
            profs = profiles_of(EMIT_QUICK[focus])
            for pi, prof in enumerate(profs):
                ad = adapters[prof]

                def on_div(d, ad=ad, g=g):
                    d["root"] = g.rootvars
                    k = report_div(rep, dict(d), ad, "replay")
                    return stop_at_new is not None and k not in stop_at_new
                st, divs = cover(g, ad, [i for i in range(len(g.edges))
                                         if EMIT_QUICK[focus][1] or i % len(profs) == pi], on_div=on_div)
                if stop_at_new is not None and any(k not in stop_at_new for k in rep.keys):
                    return rep.keys, "edge replay (%s, %s)" % (focus, prof)
        if stop_at_new is not None:
            out = db_replay(False, rec)
            for v in out["violations"]:
                rep.keys.setdefault(v["key"], v["what"])
            if any(k not in stop_at_new for k in rep.keys):
                return rep.keys, "edge replay (database family on the reactor)"
            out = traces_collect(False, 0, recorder=rec, ntraces=25)
            for v in out["violations"]:
                rep.keys.setdefault(v["key"], v["what"])
            return rep.keys, "trace validation"
        return rep.keys, "-"

    base, _ = keys_of()
    for out in (db_replay(False, rec), traces_collect(False, 0, recorder=rec, ntraces=25)):
        for v in out["violations"]:
            base.setdefault(v["key"], v["what"])
    print("baseline (unchanged code) reports: %s" % sorted(base))
    only = os.environ.get("C16_MUTANTS")
    for name, install in _mutants():
        if only and only not in name:
            continue
        undo = install()
        try:
            try:
                keys, where = keys_of(stop_at_new=base)
                new = [k for k in keys if k not in base]
            except tlc.MachineryError as ex:
                new, where = ["machinery: " + str(ex)[:100]], "harness failure"
        finally:
            undo()
        if new:
            print("caught  %-58s by %s: %s" % (name, where, new[0]))
        else:
            print("MISSED  %s" % name)
            rc = 1
    # trace validator self-check: one corrupted field and one removed event must be rejected
    rng = random.Random(5)
    good = [rec.record("g%d" % i, 25, rng) for i in range(3)]
    t = next((x for x in good if len(x["ev"]) > 6 and not any(e["post"]["err"] for e in x["ev"])), good[0])
    c1 = json.loads(json.dumps(t, default=str))
    c1["id"] = "corrupt-field"
    c1["ev"][3]["post"]["rest"][0] += 1000
    c2 = json.loads(json.dumps(t, default=str))
    c2["id"] = "removed-event"
    idx = next((i for i, e in enumerate(c2["ev"][:-1]) if e["a"]["n"] in ("Assign", "Enter", "SetGrid", "SetCache")), 0)
    del c2["ev"][idx]
    bad, _st = tracecheck.validate("RetainState_trace", "RetainState_trace.cfg", MODDIR, [c1, c2])
    rejected = {b["trace"]["id"] for b in bad if "trace" in b}
    for tid in ("corrupt-field", "removed-event"):
        okk = tid in rejected
        print("%s  trace validator on a %s trace" % ("caught " if okk else "MISSED ", tid))
        rc |= 0 if okk else 1
    return rc


if __name__ == "__main__":
    if len(sys.argv) >= 6 and sys.argv[1] == "--child":
        _child(sys.argv[2:])
