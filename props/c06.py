"""C06 -- database snapshots are isolated, complete, queryable and survive aborted runs.

Two specifications, each bound to the real code in both directions where histories matter:

  spec/db/DbHistory     the Database as a run uses it (writeToDB / load / genTimeSteps / getHistories / getHistoriesByLocation /
                        mergeHistory / splitDatabase / close) over a reactor whose tracked objects change value, move and appear.
                        (a) exhaustive TLC run of the clauses (isolation, listing, history, copy exactness, success mark);
                        (b) spec -> code: edges of TLC's state graph are executed on a real Database with a real reactor
                            (smallest test reactor + assemblies built from its blueprints) and every query result TLC printed
                            for the reached state is compared with what the real objects return;
                        (c) code -> spec: seeded random histories with cycle / node numbers up to 99 are run on the real code
                            and validated by TLC against DbHistory_trace.
  spec/run/RunWithDb    Operator.tla (C15) composed with the database interface, a mutating/faulting interface before and
                        after it, and a Fail action at every hook dispatch.
                        (a) exhaustive TLC run (aborted-run and completed-run clauses);
                        (b) spec -> code: every terminal state TLC prints (configuration, failure point, predicted file) is
                            run for real: `with o: o.operate()` on a real Operator with MainInterface, DatabaseInterface and
                            two faulting interfaces; the .h5 left in the working directory is opened with Database("r") and
                            compared (groups, stored state, successfulCompletion), or must be absent when TLC says so.

Expected values always come from TLC; this file only builds inputs, runs the real code, projects and compares.
"""
import json
import os
import random
import shutil
from concurrent.futures import ThreadPoolExecutor

from harness import common, tlc, tracecheck
from harness import replay as rp
from harness.armi_env import armi_ready

DBDIR = os.path.join(common.SPEC, "db")
RUNDIR = os.path.join(common.SPEC, "run")

# the two parameter kinds the statement distinguishes ("the value, or the default if unset"):
#   parameter 1: a Block parameter with a numeric default  -> unset is stored as the default value
#   parameter 2: a Block parameter whose default is None   -> all-unset is not stored at all (the reader substitutes the
#                default), partly-unset is stored with the None marker
PARAMS = ("buRate", "axMesh")
# core positions 1..7 of the specification -> (i, j) hex indices of the smallest reactor's full-core grid
LOCS = [(0, 0), (1, 0), (0, 1), (-1, 1), (-1, 0), (0, -1), (1, -1)]
NOBJ_MAX = 4
# observation fields that cost one history query each (htrk = hbv + hts: the history tracker; hdi = hdi + hdi1 + hdil: the
# wrappers of DatabaseInterface)
HEAVY = ("hist", "hpos", "hsel", "hloc", "htrk", "hdi")


# ============================================================================================================
# part A: the Database over a changing reactor  (DbHistory)
# ============================================================================================================
class DbWorld:
    pass


def _drop_fast_path():
    """Every armi Operator makes itself a fresh scratch directory under /tmp/.armi and only the last one is removed at exit;
    remove the one of the operator just used when it is empty (its database has been moved or deleted by then)."""
    try:
        from armi import context

        fp = context.getFastPath()
        if os.path.basename(os.path.dirname(fp)) == ".armi":
            os.rmdir(fp)
    except OSError:
        pass


class DbAdapter:
    """World = the rig's reactor with up to NOBJ_MAX assemblies (object k = assembly k with its single block), the Database being
    written (A) and the other file (B) in a private working directory."""

    def __init__(self):
        armi_ready()
        from harness.gen_operator import Rig

        self.rig = Rig(custom={"db": False})
        r = self.rig.r
        self.cs = self.rig.cs
        self.r = r
        self.first = r.core[0]
        self.asm, self.blk, self.by_serial = {}, {}, {}
        self.pdefs = [self.first[0].p.paramDefs[name] for name in PARAMS]
        self.bp_height = list(r.blueprints.assemDesigns[self.first.getType()].height)
        self.home = os.getcwd()
        self.nworld = 0
        self._dumps = {}
        self.notes = []

    def rig_for_runs(self):
        """The operator runs use their own rig (their reactor keeps the single original assembly)."""
        from harness.gen_operator import Rig

        if getattr(self, "_run_rig", None) is None:
            self._run_rig = Rig()
        return self._run_rig

    # -- values ------------------------------------------------------------------------------------------
    def real(self, p, v):
        d = self.pdefs[p - 1].default
        if v == 0:
            return d
        return float(v) if isinstance(d, float) else int(v)

    def token(self, p, x):
        """real value -> the specification's value: 0 for the parameter's default (None / the numeric default), k for k."""
        d = self.pdefs[p - 1].default
        if x is None and d is None:
            return 0
        if x is not None and d is not None and x == d:
            return 0
        try:
            if float(x) == int(x) and int(x) >= 1:
                return int(x)
        except (TypeError, ValueError):
            pass
        return self.odd("value of %s: %r" % (PARAMS[p - 1], x))

    def odd(self, what):
        """A real value the specification has no name for: reported as -1 (never a value of the specification; the kind of a
        leaf stays comparable inside TLC) and described in the notes of the projection."""
        self.notes.append(what)
        return -1

    def loc_of(self, ijk):
        ij = (int(ijk[0]), int(ijk[1]))
        return LOCS.index(ij) + 1 if ij in LOCS else self.odd("location %r" % ([int(x) for x in ijk],))

    def create(self, k):
        """Object k enters the history: it is constructed now from the blueprints, so it is a new identity (fresh serial
        numbers) -- in particular after a snapshot has been loaded -- and nothing has ever assigned its first parameter."""
        a = self.r.blueprints.constructAssem(self.cs, name=self.first.getType())
        self.asm[k], self.blk[k] = a, a[0]
        sn = int(a[0].p.serialNum)
        if sn in self.by_serial:
            self.clash = "object %d was created with the serial number %d of live object %d" % (k, sn, self.by_serial[sn])
        self.by_serial[sn] = k
        a[0].p[PARAMS[1]] = self.real(2, 0)  # the blueprints give it a value; parameter 1 is left as it is: never assigned
        return a

    def seen(self, r2):
        """What a load returned: {cyc, nod, st, bp}; afterwards everything it returned is overwritten (parameters of its blocks
        and its blueprints), so that a later load that shares anything with it shows."""
        out = {"cyc": int(r2.p.cycle), "nod": int(r2.p.timeNode), "st": self.state_view(r2)}
        design = r2.blueprints.assemDesigns[self.first.getType()] if r2.blueprints is not None else None
        out["bp"] = 0 if design is not None and list(design.height) == self.bp_height and r2.blueprints is not self.r.blueprints \
            else self.odd("blueprints of the loaded reactor: %r" % (design and list(design.height),))
        try:
            for a in r2.core:
                for b in a:
                    b.p[PARAMS[1]] = 77  # (not parameter 1: assigning it anywhere would end its "never assigned" state)
        except Exception:  # noqa: BLE001 -- a read-only reactor refuses
            pass
        if design is not None:
            design.height[0] = 99.0
        return out

    def locator(self, l):
        i, j = LOCS[l - 1]
        return self.r.core.spatialGrid[i, j, 0]

    # -- world -------------------------------------------------------------------------------------------
    def build(self, root):
        from armi.bookkeeping.db.database import Database

        w = DbWorld()
        self.nworld += 1
        self.npar = len(root["par"][0])
        w.dir = common.workdir("c06db")
        os.chdir(w.dir)
        core = self.r.core
        for a in list(core):
            core.removeAssembly(a, discharge=False)
        w.live = set()
        self.asm, self.blk, self.by_serial, self.clash = {}, {}, {}, None
        # every history starts like a fresh process: no object has assigned parameter 1 yet (armi keeps "somebody has assigned
        # this parameter" per definition for the life of the process and leaves never-assigned parameters out of a snapshot)
        from armi.reactor import parameters

        self.pdefs[0].assigned = parameters.NEVER
        for k, flag in enumerate(root["live"], start=1):
            if not flag:
                continue
            a = self.create(k)
            for p in range(1, self.npar + 1):
                if root["par"][k - 1][p - 1]:
                    a[0].p[PARAMS[p - 1]] = self.real(p, root["par"][k - 1][p - 1])
            core.add(a, self.locator(root["loc"][k - 1]))
            w.live.add(k)
        self.cs["reloadDBName"] = ""
        self.r.p.cycle, self.r.p.timeNode = root["now"]
        self.r.p.time = self.time_of(*root["now"])
        w.nfile = 0
        w.Database = Database
        # an operator whose stack holds the database interface (over the file being written) and the history tracker
        from armi.bookkeeping.db.databaseInterface import DatabaseInterface
        from armi.bookkeeping.historyTracker import HistoryTrackerInterface

        w.o = self.rig.new_operator()
        w.dbi = DatabaseInterface(self.r, self.cs)
        w.tracker = HistoryTrackerInterface(self.r, self.cs)
        w.o.addInterface(w.dbi)
        w.o.addInterface(w.tracker)
        w.A = self._open(w)
        w.astate, w.bstate, w.bpath, w.apath = "open", "none", None, None
        w.err, w.res = "", {"kind": "none"}
        return w

    def _open(self, w):
        w.nfile += 1
        db = w.Database("f%d.h5" % w.nfile, "w")
        db.open()
        db.writeInputsToDB(self.cs)
        w.dbi._db = db
        return db

    def dispose(self, w):
        try:
            if w.A is not None and w.A.isOpen():
                w.A.close(False)
            w.o.removeAllInterfaces()
        finally:
            os.chdir(self.home)
            shutil.rmtree(w.dir, ignore_errors=True)
            _drop_fast_path()

    # -- actions -----------------------------------------------------------------------------------------
    def apply(self, w, a):
        n = a["n"]
        w.err, w.res = "", {"kind": "none"}
        r, core = self.r, self.r.core
        if n == "Assign":
            self.blk[a["o"]].p[PARAMS[a["p"] - 1]] = self.real(a["p"], a["v"])
        elif n == "Move":
            me = self.asm[a["o"]]
            target = self.locator(a["l"])
            other = [self.asm[k] for k in w.live if self.asm[k] is not me and self.asm[k].spatialLocator == target]
            if other:  # the swap of fuelHandlers.swapAssemblies
                old = me.spatialLocator
                me.moveTo(other[0].spatialLocator)
                other[0].moveTo(old)
            else:
                core.removeAssembly(me, discharge=False)
                core.add(me, target)
        elif n == "Birth":
            core.add(self.create(a["o"]), self.locator(a["l"]))
            w.live.add(a["o"])
        elif n == "Advance":
            r.p.cycle, r.p.timeNode = a["c"], a["t"]
            r.p.time = self.time_of(a["c"], a["t"])
        elif n == "Write":
            try:
                w.A.writeToDB(r, a["l"] or None)
            except ValueError as ex:  # the refusal the specification models: "... was already in ..."
                if "already in" not in str(ex):
                    raise
                w.err = "ValueError"
        elif n == "Load":
            if a["via"] == "ro":
                r2 = w.A.loadReadOnly(a["c"], a["t"], statePointName=a["l"] or None)
            elif a["via"] == "state":
                # Operator.loadState -> DatabaseInterface.loadState: the operator's reactor becomes the loaded one
                try:
                    w.o.loadState(a["c"], a["t"], a["l"])
                    r2 = w.o.r
                finally:
                    w.o.reattach(self.r, self.cs)
                if r2 is self.r:
                    raise AssertionError("loadState did not attach a loaded reactor")
            else:
                r2 = w.A.load(a["c"], a["t"], statePointName=a["l"] or None, cs=self.cs)
            w.res = dict(self.seen(r2), kind="load")
        elif n == "Rotate":
            w.A.close(a["ok"])
            w.bpath, w.bstate = os.path.join(w.dir, "f%d.h5" % w.nfile), "closed"
            # the closed file is the reload database of the case from now on (DatabaseInterface.loadState looks into the live
            # database first and into cs["reloadDBName"] after it)
            self.cs["reloadDBName"] = w.bpath
            w.A = self._open(w)
        elif n == "Merge":
            with w.Database(w.bpath, "r") as src:
                w.A.mergeHistory(src, a["c"], a["t"])
        elif n == "Split":
            w.bpath = w.A.splitDatabase([tuple(pr) for pr in a["k"]], "-all")
            w.bstate = "closed"
        elif n == "Close":
            if a["via"] == "exit":  # the end of a `with db:` block, with or without an exception passing through
                try:
                    raise RuntimeError("leaving the with-block") if not a["ok"] else StopIteration
                except (RuntimeError, StopIteration) as ex:
                    exc = (type(ex), ex, ex.__traceback__) if not a["ok"] else (None, None, None)
                w.A.__exit__(*exc)
            else:
                w.A.close(a["ok"])
            w.apath, w.astate = os.path.join(w.dir, "f%d.h5" % w.nfile), "closed"
        else:
            raise AssertionError("unknown action " + n)
        return w.err

    # -- projection --------------------------------------------------------------------------------------
    def state_view(self, reactor):
        """[{o, loc, par}] of the tracked objects found in a reactor (the live one or a loaded one), matched by the serial number
        of their block."""
        out = []
        for a in reactor.core:
            if len(a) != 1:
                out.append({"o": self.odd("assembly %s with %d blocks" % (a.getName(), len(a))), "loc": -1, "par": []})
                continue
            b = a[0]
            o = self.by_serial.get(int(b.p.serialNum))
            if self.clash and reactor is self.r:
                o = self.odd(self.clash)
            if o is None:
                o = self.odd("unknown block serial number %d" % int(b.p.serialNum))
            out.append({"o": o, "loc": self.loc_of(a.spatialLocator.getCompleteIndices()),
                        "par": [self.token(p, b.p[PARAMS[p - 1]]) for p in (1, 2)][: self.npar]})
        return sorted(out, key=lambda d: d["o"])

    npar = 2

    def _hist_rows(self, w, hist, comps, columns, conv):
        rows = []
        for k in sorted(w.live):
            c = comps[k]
            cols = []
            for name, p in columns:
                h = hist[c].get(name, {})
                cols.append(sorted([int(cn[0]), int(cn[1]), conv(p, v)] for cn, v in h.items()))
            rows.append({"o": k, "h": cols})
        return rows

    def project(self, w, want=None):
        """The observation of DbHistory!Obs; `want` (a set of field names) limits the expensive history queries to the ones
        that will be compared."""
        r = self.r
        self.notes = []
        out = {"reactor": self.state_view(r), "now": [int(r.p.cycle), int(r.p.timeNode)], "astate": w.astate, "bstate": w.bstate}
        want = set(HEAVY) | {"dumpA", "dumpB"} if want is None else set(want)
        cols = [(PARAMS[p - 1], p) for p in range(1, self.npar + 1)]
        names = [name for name, _ in cols]
        if w.astate == "open":
            db = w.A
            out["steps"] = [[int(c), int(n)] for c, n in db.genTimeSteps()]
            out["names"] = [self.parse_name(g) for g in db.keys()]
            out["has"] = [[bool(db.hasTimeStep(c, n, lab)) for lab in TRACE_LABELS] for c, n, _ in out["names"]]
            blocks = [self.blk[k] for k in sorted(w.live)]

            def query(field, fn):
                # an exception escaping a history query is an observation (the specification defines a value for every state)
                try:
                    out[field] = fn()
                except Exception as ex:  # noqa: BLE001
                    out[field] = {"exception": "%s: %s" % (type(ex).__name__, str(ex)[:160])}

            if "hist" in want:
                query("hist", lambda: self._hist_rows(w, db.getHistories(blocks, names), self.blk, cols, self.token))
            if "hpos" in want:
                def hpos():
                    h = db.getHistories([self.asm[k] for k in sorted(w.live)], ["location"])
                    rows = self._hist_rows(w, h, self.asm, [("location", 0)], lambda p, v: self.loc_of(v))
                    return [{"o": row["o"], "h": row["h"][0]} for row in rows]
                query("hpos", hpos)
            if "hsel" in want:
                sel = [[c, n] for c, n, lab in reversed(out["names"]) if lab == ""]
                out["sel"] = sel
                query("hsel", lambda: self._hist_rows(w, db.getHistories(blocks, names, [tuple(x) for x in sel]), self.blk, cols,
                                                      self.token))
            if "htrk" in want:
                query("hbv", lambda: self.tracker_values(w, out["names"]))
                query("hts", lambda: [self.step_of_time(t) for t in w.tracker.getTimeSteps()])
            if "hdi" in want:
                now = (int(r.p.cycle), int(r.p.timeNode))
                plain = [(c, n) for c, n, lab in reversed(out["names"]) if lab == ""]
                ask = plain + ([] if now in plain else [now])
                out["ask"] = [list(x) for x in ask]

                def single(steps):
                    # DatabaseInterface.getHistory, one block at a time
                    return self._hist_rows(w, {self.blk[k]: w.dbi.getHistory(self.blk[k], names, list(steps)) for k in sorted(w.live)},
                                           self.blk, cols, self.token)

                query("hdi", lambda: single(ask))
                query("hdi1", lambda: single([now]))
                query("hdil", lambda: self._hist_rows(w, w.dbi.getHistories(blocks, names, list(ask), byLocation=True), self.blk, cols,
                                                      self.token))
            if "hloc" in want:
                query("hloc", lambda: self._hist_rows(w, db.getHistoriesByLocation(blocks, names), self.blk, cols, self.token))
        else:
            out.update({"steps": [], "names": [], "has": [], "hist": [], "hpos": [], "sel": [], "hsel": [], "hloc": [], "hbv": [],
                        "hts": [], "ask": [], "hdi": [], "hdi1": [], "hdil": []})
        empty = {"ok": False, "names": [], "snaps": []}
        if "dumpA" in want:
            out["dumpA"] = self.dump(w.apath) if w.astate == "closed" else empty
        if "dumpB" in want:
            out["dumpB"] = self.dump(w.bpath) if w.bstate == "closed" else empty
        if self.notes:
            out["notes"] = list(self.notes)  # never compared (the specification has no such field); explains the -1 values
        return out

    def tracker_values(self, w, names):
        """HistoryTrackerInterface.getBlockHistoryVal for the steps DbHistory!TrackSteps names: the steps with an unlabelled
        snapshot that holds the object, and the current step when the file lists nothing under it."""
        r = self.r
        now = (int(r.p.cycle), int(r.p.timeNode))
        listed = {(c, n) for c, n, _ in names}
        rows = []
        for k in sorted(w.live):
            b = self.blk[k]
            steps = []
            for c, n, lab in names:
                if lab == "" and int(b.p.serialNum) in w.A.h5db["c%02dn%02d/layout/serialNum" % (c, n)][()]:
                    steps.append((c, n))
            if now not in listed:
                steps.append(now)
            cols = []
            for p in range(1, self.npar + 1):
                cols.append([[c, n, self.token(p, w.tracker.getBlockHistoryVal(b.getName(), PARAMS[p - 1], (c, n)))]
                             for c, n in sorted(steps)])
            rows.append({"o": k, "h": cols})
        return rows

    @staticmethod
    def time_of(c, n):
        """The reactor's time in years: an injective function of (cycle, node), the adapter's choice of data."""
        return c + n / 128.0

    def step_of_time(self, t):
        c = int(t)
        n = (float(t) - c) * 128.0
        if abs(n - round(n)) > 1e-9:
            return [self.odd("time %r" % (t,)), -1]
        return [c, int(round(n))]

    @staticmethod
    def parse_name(g):
        g = g.lstrip("/")
        return [int(g[1:3]), int(g[4:6]), g[6:]]

    def dump(self, path):
        """A closed file as Database(path, "r") shows it; cached while the file on disk is unchanged."""
        st = os.stat(path)
        key = (path, st.st_size, st.st_mtime_ns)
        if key not in self._dumps:
            from armi.bookkeeping.db.database import Database

            with Database(path, "r") as db:
                names = [self.parse_name(g) for g in db.keys()]
                snaps = []
                for i, (c, n, lab) in enumerate(names):
                    # the two entry points of Database in turn
                    r2 = db.load(c, n, statePointName=lab or None, cs=self.cs) if i % 2 == 0 else \
                        db.loadReadOnly(c, n, statePointName=lab or None)
                    snaps.append(self.seen(r2))
                self._dumps = {key: {"ok": bool(db.h5db.attrs["successfulCompletion"]), "names": names, "snaps": snaps}}
        return self._dumps[key]


GRAPHS = ("wide", "narrow", "births")
RANK = {"Merge": 0, "Split": 0, "Load": 1, "Rotate": 1, "Birth": 1, "Write": 2, "Close": 3}  # rare steps first


def edge_class(e):
    """Input class of an edge: the action and the features of its source state that decide what the call has to do."""
    a, f = e["act"], e["from"]
    n = a["n"]
    sa, sb = f["A"]["snaps"], f["B"]["snaps"]
    ctx = "split" if any(x["off"] > 0 for x in sa) else "rebased0" if f["B"]["st"] == "closed" and sa and len(sb) > len(sa) \
        else "merged" if f["B"]["st"] == "closed" and sa else "-"
    if n == "Split":
        ks = [tuple(k) for k in a["k"]]
        return (n, min(len(ks), 3), min(k[0] for k in ks) > 0, any(x["lab"] for x in sa),
                ks == sorted(ks), ks[0][0] == min(k[0] for k in ks))  # ... the order of the list: ascending? smallest cycle first?
    if n == "Merge":
        before = [x for x in sb if (x["c"], x["n"]) < (a["c"], a["t"])]
        return (n, min(len(before), 2), len(before) < len(sb), any(x["lab"] for x in before),
                any((x["c"], x["n"]) == (a["c"], a["t"]) for x in sb))
    if n == "Load":
        me = [x for x in sa if (x["c"], x["n"], x["lab"]) == (a["c"], a["t"], a["l"])]
        twin = any((x["c"], x["n"]) == (a["c"], a["t"]) and x["lab"] != a["l"] and me and x["st"] != me[0]["st"] for x in sa)
        other = any((x["c"], x["n"], x["lab"]) == (a["c"], a["t"], a["l"]) and me and x["st"] != me[0]["st"] for x in sb)
        return (n, a["via"], bool(a["l"]), twin, other, ctx)
    if n == "Birth":
        return (n, a["o"], ctx, min(len(sa), 2))
    if n == "Write":
        return (n, a["l"], e["err"], ctx, min(len(sa), 2))
    if n in ("Close", "Rotate"):
        return (n, a["ok"], a.get("via", "-"), ctx, min(len(sa), 2))
    return (n, ctx, min(len(sa), 2))


def class_order(graph, rng):
    """Edge indices so that every input class is visited before any class is visited twice (classes of rare database steps
    first, members of a class in seeded random order)."""
    classes = {}
    for i, e in enumerate(graph.edges):
        classes.setdefault(edge_class(e), []).append(i)
    # rare database steps first; among the others, the ones that start from a file whose cycles a split has re-numbered
    keys = sorted(classes, key=lambda k: (0 if "split" in k and k[0] in RANK else RANK.get(k[0], 4), str(k)))
    for k in keys:
        rng.shuffle(classes[k])
    order = []
    while any(classes.values()):
        for k in keys:
            if classes[k]:
                order.append(classes[k].pop())
    return order


def covering_replay(graph, obs_of, ad, budget, seed, part=(0, 1), loads=0.0):
    """Execute edges of TLC's graph on real objects: for every target edge (classes in round-robin order, see class_order) the
    BFS path to its source is applied, then the edge; every edge that had not been checked before is checked when it is passed
    (one projection each).  part = (k, n): this call handles every n-th target starting with the k-th (worker processes).
    loads = probability with which a Load edge of the current state (a self-loop of the graph: it changes no state variable, so
    it lies on no BFS path) is executed before a step, so that reactor changes and writes *after a load* are replayed too.
    -> (indices of the checked edges, indices of the non-trivial ones among them, divergences)"""
    order = class_order(graph, random.Random(seed))
    k, n = part
    order = order[k::n]
    budget = -(-budget // n)
    rng = random.Random(seed * 1009 + k)
    index = {id(e): i for i, e in enumerate(graph.edges)}
    checked = set()
    divs = []
    nontriv = set()
    for idx in order:
        if len(checked) >= budget or len(divs) >= 400:
            break
        e = graph.edges[idx]
        if idx in checked or e["_fk"] not in graph.path:
            continue
        steps = []
        for s in graph.path[e["_fk"]] + [e]:
            here = [x for x in graph.succ.get(s["_fk"], ()) if x["act"]["n"] == "Load" and x["_tk"] == x["_fk"]]
            if here and s["act"]["n"] != "Load" and rng.random() < loads:
                fresh = [x for x in here if index[id(x)] not in checked]
                steps.append(rng.choice(fresh or here))
            steps.append(s)
        root = steps[0]["from"]
        w = ad.build(root)
        try:
            for i, s in enumerate(steps):
                si = index[id(s)]
                new = si not in checked
                exp = obs_of(s)
                if exp is None:
                    new = False
                try:
                    ad.apply(w, s["act"])
                    got = None
                    if new:
                        # one of the five history queries per checked edge (seeded rotation), everything else always
                        heavy = HEAVY[rng.randrange(len(HEAVY))]
                        want = {heavy} | ({"dumpA", "dumpB"} if s["act"]["n"] in ("Close", "Rotate", "Split", "Merge") or i == len(steps) - 1 else set())
                        got = ad.project(w, want)
                        got["err"], got["res"] = w.err, w.res
                        exp = {f: v for f, v in exp.items() if f in got}
                except Exception as ex:  # noqa: BLE001 -- an exception escaping a legal operation or query is a divergence
                    import traceback

                    divs.append({"diverged_at": i + 1, "root": root, "behaviour": [x["act"] for x in steps[: i + 1]], "action": s["act"],
                                 "first_difference": ".exception: %s escaped from the real code: %s" % (type(ex).__name__, str(ex)[:300]),
                                 "expected": exp, "observed": {"exception": traceback.format_exc()[-2000:]}})
                    break
                if new:
                    checked.add(si)
                    if s["_fk"] != s["_tk"]:
                        nontriv.add(si)
                    # field by field, so that one differing query does not hide the others
                    ds = [d for d in (rp.diff({f: exp[f]}, {f: got.get(f, "<missing>")}) for f in exp) if d]
                    for d in ds:
                        divs.append({"diverged_at": i + 1, "root": root, "behaviour": [x["act"] for x in steps[: i + 1]],
                                     "action": s["act"], "first_difference": d, "expected": exp, "observed": got})
                    if ds:
                        break
        finally:
            ad.dispose(w)
    return sorted(checked), sorted(nontriv), divs


def emitted_graph(prints):
    """edges + per-state observations printed by an emission run -> (Graph, obs_of(edge))"""
    obs = {}
    for p in prints:
        if isinstance(p, dict) and "st" in p:
            obs.setdefault(rp.skey(p["st"]), p["obs"])
    edges = [p for p in prints if isinstance(p, dict) and "act" in p]
    g = rp.Graph(edges)

    def obs_of(e):
        o = obs.get(e["_tk"])
        if o is None:
            return None
        o = dict(o)
        o["err"], o["res"] = e["err"], e["res"]
        return o

    return g, obs_of


FIELD_GROUP = {"hdi": "history", "hdi1": "history", "hdil": "history", "ask": "history", "hist": "history", "hpos": "history", "hsel": "history", "hloc": "history", "hbv": "history", "sel": "history",
               "hts": "getTimeSteps", "steps": "listing", "names": "listing", "has": "listing"}


def div_key(d):
    """Stable identifier of the failing query / input class of a divergence (the same in both directions):
       db:<query>:exception:<type>            a query raised
       db:<group>[:after-split|:after-merge]   a query (history / listing / getTimeSteps) returned something else; the context says
                                               whether the file had been produced by a split or a merge
       db:<field>:<action>                     outcome of a call (err, res), contents of a closed file (dumpA/B), live state"""
    import re

    field = re.sub(r"\[\d+\]", "", d["first_difference"].split(":")[0]).split(".")
    field = field[1] if len(field) > 1 else "?"
    obs = d.get("observed") or {}
    if isinstance(obs.get(field), dict) and "exception" in obs[field]:
        return "db:%s:exception:%s" % (field, obs[field]["exception"].split(":")[0])
    if field == "exception":
        return "db:%s:exception" % d["action"]["n"]
    acts = [a["n"] for a in d["behaviour"]]
    ctx = ":after-split" if "Split" in acts else ":after-merge" if "Merge" in acts else ""
    if field in FIELD_GROUP:
        return "db:%s%s" % (FIELD_GROUP[field], ctx)
    return "db:%s:%s%s" % (field, d["action"]["n"], ctx)


# -- code -> spec ---------------------------------------------------------------------------------------------
TRACE_CONST = {"NObj": 4, "NInit": 2, "NLoc": 5, "NVal": 3}
TRACE_LABELS = ("", " sp", "-special", ".v2", "EOL", "error", "x")  # = DbHistory!ProbeLabels, in ASCII order


def trace_driver(ad, ntraces, nev, seed, first=0):
    """Seeded random histories on the real reactor + Database; every event logs the call, its outcome and a selection of the
    observation fields as the real objects show them afterwards.  The driver's own bookkeeping (which objects it put where)
    decides what is legal; arguments that name snapshots are taken from the file's own listing."""
    traces = []
    C = TRACE_CONST
    for t in range(first, first + ntraces):
        rng = random.Random(seed * 7919 + 6 + 1000003 * t)  # one generator per history: any partition gives the same histories
        root = {"live": [k <= C["NInit"] for k in range(1, C["NObj"] + 1)],
                "loc": [k if k <= C["NInit"] else 0 for k in range(1, C["NObj"] + 1)],
                "par": [[0, 0] for _ in range(C["NObj"])], "now": [0, 0]}
        w = ad.build(root)
        live = {k for k in range(1, C["NObj"] + 1) if root["live"][k - 1]}
        loc = {k: root["loc"][k - 1] for k in live}
        par = {k: [0, 0] for k in range(1, C["NObj"] + 1)}
        now = [0, 0]
        big = rng.random() < 0.5
        times = [(rng.randrange(100), rng.randrange(100)) for _ in range(4)] if big else [(c, n) for c in range(3) for n in range(2)]
        if big and rng.random() < 0.5:  # a few neighbours: same cycle / same node, so that name order is exercised
            c0, n0 = times[0]
            times += [(c0, (n0 + 1) % 100), ((c0 + 1) % 100, n0), (c0, (n0 + 9) % 100)]
        rotated = split = merged = False
        ev = []
        try:
            for step in range(nev):
                last = step == nev - 1
                a = None
                x = rng.random()
                listing = [ad.parse_name(g) for g in w.A.keys()] if w.astate == "open" else []
                if last:
                    a = {"n": "Close", "ok": rng.random() < 0.5, "via": rng.choice(["close", "exit"])}
                elif x < 0.22:
                    o, p = rng.choice(sorted(live)), rng.randint(1, 2)
                    v = rng.choice([v for v in range(C["NVal"] + 1) if v != par[o][p - 1]])
                    par[o][p - 1] = v
                    a = {"n": "Assign", "o": o, "p": p, "v": v}
                elif x < 0.34:
                    o = rng.choice(sorted(live))
                    l = rng.choice([l for l in range(1, C["NLoc"] + 1) if l != loc[o]])
                    for k in live:
                        if loc[k] == l:
                            loc[k] = loc[o]
                    loc[o] = l
                    a = {"n": "Move", "o": o, "l": l}
                elif x < 0.40:
                    free = [l for l in range(1, C["NLoc"] + 1) if l not in loc.values()]
                    o = len(live) + 1
                    if o <= C["NObj"] and free:
                        l = rng.choice(free)
                        live.add(o)
                        loc[o] = l
                        a = {"n": "Birth", "o": o, "l": l}
                elif x < 0.56:
                    c, n = rng.choice([tm for tm in times if list(tm) != now])
                    now = [c, n]
                    a = {"n": "Advance", "c": c, "t": n}
                elif x < 0.82:
                    if len(listing) < 38:
                        a = {"n": "Write", "l": rng.choice(("", "", "", "EOL") + TRACE_LABELS)}
                elif x < 0.88:
                    if listing:
                        c, n, lab = rng.choice(listing)
                        a = {"n": "Load", "c": c, "t": n, "l": lab, "via": rng.choice(["load", "ro", "state"])}
                elif x < 0.94:
                    if not rotated and not split and listing:
                        rotated = True
                        a = {"n": "Rotate", "ok": rng.random() < 0.5}
                    elif rotated and not merged and not listing:
                        merged = True
                        # start points: a listed step of the source, or any other time (possibly between / after the listed ones)
                        with w.Database(w.bpath, "r") as src:
                            steps = sorted(set(src.genTimeSteps()))
                        c, n = rng.choice(steps + [rng.choice(times)] + [(steps[-1][0], min(99, steps[-1][1] + 1))])
                        a = {"n": "Merge", "c": int(c), "t": int(n)}
                else:
                    plain = sorted({(c, n) for c, n, lab in listing if lab == ""})
                    if not rotated and not split and plain:
                        split = True
                        k = rng.sample(plain, rng.randint(1, len(plain)))
                        a = {"n": "Split", "k": [list(pr) for pr in k]}  # in the (random) order of the sample
                if a is None:
                    continue
                try:
                    ad.apply(w, a)
                    want = set(rng.sample(HEAVY, 2))
                    if a["n"] in ("Close", "Rotate", "Split", "Merge"):
                        want |= {"dumpA", "dumpB"}
                    post = ad.project(w, want)
                    # getTimeSteps is compared in the replay direction only: it differs from the specification in most states
                    # of the unchanged tree (see the report), which would end nearly every recorded history at its first event
                    post.pop("hts", None)
                    ev.append({"a": a, "err": w.err, "res": w.res, "post": post})
                except Exception as ex:  # noqa: BLE001  an escaping exception ends the history; TLC rejects the event
                    ev.append({"a": a, "err": "", "res": {"kind": "none"},
                               "post": {"exception": "%s: %s" % (type(ex).__name__, str(ex)[:200])}})
                    break
        finally:
            ad.dispose(w)
        traces.append({"id": "h%d" % t, "ev": ev})
    return traces


# ============================================================================================================
# part B: aborted and completed runs  (RunWithDb)
# ============================================================================================================
class InjectedFailure(Exception):
    """What a failing hook of an application interface raises (kind "CustomError": an application's own Exception subclass)."""


class InjectedAbort(BaseException):
    """Kind "BaseException": an abort that is not an Exception."""


def _raise(kind, where):
    """A hook fails: with an ordinary exception, or with something that is not an Exception (sys.exit, Ctrl-C, ...)."""
    import sys

    msg = "injected failure at %r" % (where,)
    if kind == "RuntimeError":
        raise RuntimeError(msg)
    if kind == "CustomError":
        raise InjectedFailure(msg)
    if kind == "SystemExit":
        sys.exit(1)
    if kind == "KeyboardInterrupt":
        raise KeyboardInterrupt(msg)
    if kind == "BaseException":
        raise InjectedAbort(msg)
    raise AssertionError("unknown kind of failure " + kind)


KINDS = ("RuntimeError", "SystemExit", "CustomError", "KeyboardInterrupt", "BaseException")
KIND_OF = {RuntimeError: "RuntimeError", InjectedFailure: "CustomError", SystemExit: "SystemExit",
           KeyboardInterrupt: "KeyboardInterrupt", InjectedAbort: "BaseException"}


class _Env:
    """Answers of the recording interfaces of gen_operator: nobody asks for a halt, couplers converge at once."""

    @staticmethod
    def halt(i, cycle):
        return False

    @staticmethod
    def conv(i, cycle, node, iteration):
        return True

    @staticmethod
    def noise(i, e, cycle, node, iteration):
        return False


class _FaultSink(list):
    """The call sink of gen_operator's recording interfaces: every hook of an "f" interface reports here first.  The hook named by
    `plan` fails; every other one changes the reactor state (one more unit on the tracked block parameter)."""

    def __init__(self, o, plan, kind="CustomError", probe=None, touch=None):
        list.__init__(self)
        self.o, self.plan, self.kind, self.fired = o, plan, kind, False
        self.touch = touch  # stack position of the interface that stores auxiliary data under the current node, or None
        self.probe, self.probes = probe, []  # probe = (stack position of the asking interface, nodes of the history) or None

    def ask(self, ev):
        """Operator.loadState for every node of the history (RuntimeError: no database holds it -> -1); the reactor of the run is
        put back after each answer."""
        o = self.o
        keep = o.r
        vals = []
        for c, n in self.probe[1]:
            try:
                o.loadState(c, n)
                v = int(round(float(o.r.core[0][0].p[PARAMS[0]])))
            except RuntimeError:
                v = -1
            finally:
                o.reattach(keep, o.cs)
            vals.append([c, n, v])
        self.probes.append({"e": ev["e"], "c": ev["rc"], "n": ev["rn"], "vals": vals})

    def append(self, ev):
        list.append(self, ev)
        if self.plan is not None and (ev["e"], ev["i"], ev["rc"], ev["rn"], ev["it"]) == self.plan:
            self.fired = True
            _raise(self.kind, self.plan)
        # (the end-of-cycle dispatch nested in MainInterface.interactBOL of a restart comes before any BOL hook: not a probe point)
        if self.touch == ev["i"] and ev["e"] == "EN":
            # another interface places data of its own under the current time step, the documented way, before the database
            # interface has written the node
            group = self.o.getInterface("database").database.getH5Group(self.o.r)
            group.create_dataset("auxOfInterface%d" % ev["i"], data=[float(ev["rc"]), float(ev["rn"])])
        if self.probe and ev["i"] == self.probe[0] and ev["e"] in ("EOC", "EOL") and any(x["e"] == "BOL" for x in self):
            self.ask(ev)
        block = self.o.r.core[0][0]  # the operator's current reactor (a restart replaces it by the loaded one)
        block.p[PARAMS[0]] = block.p[PARAMS[0]] + 1.0


def _history_settings(steps):
    """Detailed cycle history with the given burn steps per cycle."""
    cycles = []
    for c, b in enumerate(steps):
        days = [1.0 + c + j for j in range(b)]
        cycles.append({"step days": days, "power fractions": [1.0] * b})
    return {"nCycles": len(steps), "cycles": cycles}


class RunAdapter:
    """Executes one printed run of RunWithDb: a real Operator on the smallest test reactor with the stack given by `roles`,
    inside `with o: o.operate()`, in a private working directory; projects the .h5 left there."""

    def __init__(self, rig=None):
        armi_ready()
        from harness import gen_operator as go

        self.go = go
        self.rig = rig or go.Rig()
        self.home = os.getcwd()

    def run(self, run):
        """-> {raised, fired, file}.  A phase-2 record is a restart: the first run (from (0, 0), with the failure crash1 or none)
        is executed for real in the same working directory, its file becomes the reload file of the second run."""
        wd = common.workdir("c06run")
        os.chdir(wd)
        try:
            reload_name = None
            if run.get("phase", 1) == 2:
                first = self._one(wd, run, 0, 0, run["crash1"], None)
                src = os.path.join(wd, self.rig.cs.caseTitle + ".h5")
                if not os.path.exists(src):
                    return {"raised": first["raised"], "fired": first["fired"],
                            "file": {"exists": False, "ok": False, "snaps": [], "note": "the first run left no file to restart from"}}
                reload_name = "first.h5"
                os.rename(src, os.path.join(wd, reload_name))
            out = self._one(wd, run, run["sc"], run["sn"], run["crash"], reload_name)
            out["file"] = self.project_file(wd, self.rig.cs.caseTitle + ".h5")
            return out
        finally:
            os.chdir(self.home)
            shutil.rmtree(wd, ignore_errors=True)

    def _one(self, wd, run, sc, sn, cr, reload_name):
        from armi.bookkeeping.db.databaseInterface import DatabaseInterface
        from armi.bookkeeping.mainInterface import MainInterface

        go, rig = self.go, self.rig
        roles, tight = run["roles"], run["tight"]
        ifs = [{"en": True, "bf": False, "rev": role == "main", "dfr": False, "cpl": tight and role == "f", "hlt": False}
               for role in roles]
        st = go.stack_settings(ifs, 0, tight, 1, list(run.get("skip") or [False] * len(run["steps"])))
        st.update({"db": True, "startCycle": sc, "startNode": sn, "loadStyle": "fromDB" if reload_name else "fromInput",
                   "reloadDBName": reload_name or ""})
        rig.configure(history=_history_settings(run["steps"]), settings=st)
        o = rig.new_operator()
        r = rig.r
        r.core[0][0].p[PARAMS[0]] = 0.0
        plan = None if cr["e"] == "none" else (cr["e"], cr["i"], cr["c"], cr["n"], cr["it"])
        probe = None
        if reload_name:
            nodes = [(c, n) for c, b in enumerate(run["steps"]) for n in range(b + 1)]
            probe = (roles.index("f") + 1, nodes)
        touch = roles.index("f") + 1 if run.get("touch") else None
        sink = _FaultSink(o, plan, cr.get("kind", "CustomError"), probe, touch)
        dbi = None
        for k, role in enumerate(roles, start=1):
            if role == "main":
                o.addInterface(MainInterface(r, rig.cs), reverseAtEOL=True)
            elif role == "db":
                dbi = DatabaseInterface(r, rig.cs)
                o.addInterface(dbi)
            else:
                o.addInterface(go.recorder_class(k, tight)(r, rig.cs, sink, _Env, ifs[k - 1]))
        # a restart begins like any run: reactor from the input at (0, 0); MainInterface.interactBOL moves it to the restart point
        rig.reset_time(0 if reload_name else sc, 0 if reload_name else sn)
        out = {"raised": None}
        try:
            try:
                with o:
                    o.operate()
            except BaseException as ex:  # noqa: BLE001 -- whatever escapes the run is an observation ...
                if not sink.fired and isinstance(ex, (KeyboardInterrupt, SystemExit)):
                    raise  # ... except a real interrupt of the check itself
                out["raised"] = KIND_OF[type(ex)] if sink.fired and type(ex) in KIND_OF else "%s: %s" % (type(ex).__name__, str(ex)[:200])
            out["fired"] = sink.fired
            out["probes"] = sink.probes
        finally:
            try:
                if dbi is not None and dbi._db is not None and dbi._db.isOpen():
                    dbi._db.close(False)
                    out.setdefault("notes", []).append("database handle still open after the run")
            finally:
                o.removeAllInterfaces()
                _drop_fast_path()
        return out

    def project_file(self, wd, fn):
        """{exists, ok, snaps: [{c, n, lab, val}]} of the .h5 in the working directory, through Database("r"); the stored reactor
        state is read from every group, and the last group is additionally loaded as a reactor."""
        from armi.bookkeeping.db.database import Database

        path = os.path.join(wd, fn)
        if not os.path.exists(path):
            return {"exists": False, "ok": False, "snaps": [], "others": sorted(f for f in os.listdir(wd) if f.endswith(".h5"))}
        snaps = []
        with Database(path, "r") as db:
            ok = bool(db.h5db.attrs["successfulCompletion"])
            pairs = list(db.genTimeSteps())
            names = [DbAdapter.parse_name(g) for g in db.keys()]
            for (c, n, lab), pr in zip(names, pairs):
                g = db.h5db["c%02dn%02d%s" % (c, n, lab)]
                try:
                    snap = {"c": int(g["Reactor/cycle"][0]), "n": int(g["Reactor/timeNode"][0]), "lab": lab,
                            "val": int(round(float(g["HexBlock/" + PARAMS[0]][0]))) if PARAMS[0] in g["HexBlock"] else 0}
                    if "layout" not in g:
                        raise KeyError("layout")
                except KeyError as ex:  # a listed step that holds no (complete) reactor state cannot be loaded
                    snap = {"c": c, "n": n, "lab": lab, "val": -1, "unloadable": "no %s in the group" % ex}
                if (snap["c"], snap["n"]) != (c, n) or tuple(int(x) for x in pr) != (c, n):
                    snap["name"] = [c, n, [int(x) for x in pr]]
                snaps.append(snap)
            if names:
                c, n, lab = names[-1]
                try:
                    r2 = db.load(c, n, statePointName=lab or None, cs=self.rig.cs)
                    got = int(round(float(r2.core[0][0].p[PARAMS[0]])))
                    if got != snaps[-1]["val"] or (int(r2.p.cycle), int(r2.p.timeNode)) != (c, n):
                        snaps[-1]["loaded"] = [int(r2.p.cycle), int(r2.p.timeNode), got]
                except Exception as ex:  # noqa: BLE001 -- a listed step that does not load is an observation
                    snaps[-1]["loaded"] = "%s: %s" % (type(ex).__name__, str(ex)[:120])
        return {"exists": True, "ok": ok, "snaps": snaps}


def run_key(run, d):
    import re

    cr = run["crash"]
    field = re.sub(r"\[\d+\]", "", d.split(":")[0]).strip(".").split(".")[0] or "?"
    if run.get("phase", 1) == 2:
        return "run:restart-from-%s:%s:%s" % ("aborted" if run["crash1"]["e"] != "none" else "completed",
                                              "completed" if cr["e"] == "none" else "abort:" + cr["e"], field)
    if cr["e"] == "none":
        return "run:completed:%s%s" % (field, ":exempt-cycles" if run["tight"] and any(run.get("skip") or []) else "")
    dbi = run["roles"].index("db") + 1
    where = "before-db" if cr["i"] < dbi else "after-db"
    return "run:abort:%s:%s:%s%s%s" % (cr["e"], where, field, "" if "main" in run["roles"] else ":no-main",
                                       "" if cr.get("kind") in ("RuntimeError", "CustomError") else ":not-an-Exception")


def run_class(r, fine):
    cr = r["crash"]
    dbi = r["roles"].index("db") + 1
    where = "-" if cr["e"] == "none" else "before" if cr["i"] < dbi else "after"
    # coupling: off / on / on with exempt cycles (then: is the cycle of the failure -- or any cycle of a completed run -- exempt)
    skip = r.get("skip") or []
    exempt = bool(r["tight"]) and (any(skip) if cr["e"] == "none" or cr["c"] < 0 else bool(skip[cr["c"]]))
    base = (r.get("phase", 1), r["crash1"]["e"] != "none", cr["e"], where, r["tight"], exempt)
    return base + ((cr["i"], len(r["roles"])) if fine else (len(r["roles"]),) if cr["e"] in ("none", "BOL") else ())


def stratified(runs, k, rng, fine=False):
    """A sample of k runs that covers every (phase, event, failing side of the database interface, coupling[, position, stack])
    class before repeating one."""
    classes = {}
    for r in runs:
        cr = r["crash"]
        classes.setdefault(run_class(r, fine), []).append(r)
    for v in classes.values():
        rng.shuffle(v)
    out = []
    keys = sorted(classes, key=lambda c: (c[2] != "none", str(c)))  # the completed runs first, then the failure points
    turn = 0
    while len(out) < k and any(classes.values()):
        for key in keys:
            if classes[key] and len(out) < k:
                # what the failing hook raises rotates over the sample, so that every kind of abort is executed
                want = KINDS[turn % len(KINDS)]
                j = next((j for j, r in enumerate(classes[key]) if r["crash"].get("kind") == want), len(classes[key]) - 1)
                r = classes[key].pop(j)
                if r["crash"]["e"] != "none":
                    turn += 1
                out.append(r)
    return out


def select_runs(eres, thorough, seed, max_runs):
    runs = [p for p in eres.prints if isinstance(p, dict) and "file" in p]
    if not runs:
        raise tlc.MachineryError("RunWithDb emission printed no run")
    rng = random.Random(seed * 131 + 7)
    n1, n2 = max_runs
    first = [r for r in runs if r["phase"] == 1]
    second = [r for r in runs if r["phase"] == 2]
    sel = (stratified(first, n1, rng, fine=thorough) if len(first) > n1 else first) + \
          (stratified(second, n2, rng, fine=False) if len(second) > n2 else second)
    return sel, len(runs)


def execute_runs(ad, runs):
    """-> [(expected, observed)] for the printed runs, each executed for real"""
    out = []
    for run in runs:
        exp = {"file": run["file"], "raised": None if run["crash"]["e"] == "none" else run["crash"]["kind"],
               "fired": run["crash"]["e"] != "none",
               "probes": [{k: p[k] for k in ("e", "c", "n", "vals")} for p in run.get("probes", [])]}
        out.append((exp, ad.run(run)))
    return out


def report_runs(rep, runs, results, total):
    nontrivial = 0
    for run, (exp, got) in zip(runs, results):
        if run["crash"]["e"] != "none":
            nontrivial += 1
        d = rp.diff(exp, got)
        if d:
            rep.violation(run_key(run, d.replace(".file", "", 1) if d.startswith(".file.") else d),
                          "the file left by a real run differs from RunWithDb for %s failing at %s: %s" % (
                              json.dumps({k: run[k] for k in ("steps", "sc", "sn", "tight", "skip", "roles", "phase", "crash1")}),
                              json.dumps(run["crash"]), d),
                          {"direction": "run", "part": "run", "run": run, "expected": exp, "observed": got, "first_difference": d})
    rep.add_replay("aborted-and-completed-runs", len(runs), nontrivial,
                   "one behaviour = one finished run printed by TLC (cycle history, stack, coupling, the single failure point or "
                   "none, the predicted file) executed as `with o: o.operate()` on a real Operator with MainInterface / "
                   "DatabaseInterface / two failing-or-mutating interfaces (phase 2: restarted through loadStyle=fromDB from the file "
                   "a real first run left, completed or aborted); the .h5 in the working directory is opened with "
                   "Database('r') and compared group by group; non-trivial = the run is aborted by an injected failure "
                   "(%d of the %d printed runs executed, every class of failure point before any is repeated)" % (len(runs), total))
    mid = runs[len(runs) // 2]
    rep.sample({"kind": "run", "cfg": {k: mid[k] for k in ("steps", "sc", "sn", "tight", "skip", "roles")}, "failure": mid["crash"],
                "expected_file": mid["file"]})


# ============================================================================================================
def _sfx(thorough):
    return "_thorough" if thorough else ""


def _tlc_verdict(rep, res, module):
    if res.violation:
        rep.violation("tlc:%s:%s" % (module, res.violation["name"]), "TLC: %s violated in %s" % (res.violation["name"], module),
                      {"direction": "tlc", "trace": res.violation["trace"][:20000]})


def _nonvacuous(res, actions, what):
    never = [a for a in actions if res.coverage.get(a, (0, 0))[1] == 0]
    if never:
        raise tlc.MachineryError("vacuous: actions never taken in %s: %s" % (what, never))


_SELFTEST = False
_CACHE = {}


def _cached_run(module, cfg, moddir, **kw):
    key = (module, cfg)
    if key not in _CACHE:
        _CACHE[key] = tlc.run(module, cfg, moddir, **kw)
    return _CACHE[key]


# -- the real-code work as jobs: executed in this process (self-test, C06_PROCS=1) or by worker processes ----------------
def do_job(job, ad=None, graphs=None):
    """One unit of real-code work; everything in and out is JSON."""
    kind = job["kind"]
    if kind == "edges":
        if graphs is not None and job["graph"] in graphs:
            g, obs_of = graphs[job["graph"]]
        else:
            with open(job["prints"]) as f:
                g, obs_of = emitted_graph(json.load(f))
        checked, nontriv, divs = covering_replay(g, obs_of, ad or DbAdapter(), job["budget"], job["seed"], tuple(job["part"]),
                                                 loads=job.get("loads", 0.0))
        return {"checked": checked, "nontrivial": nontriv, "divs": divs, "nedges": len(g.edges)}
    if kind == "traces":
        return {"traces": trace_driver(ad or DbAdapter(), job["count"], job["nev"], job["seed"], first=job["first"])}
    if kind == "runs":
        rig = ad.rig_for_runs() if ad is not None else None
        return {"results": execute_runs(RunAdapter(rig), job["runs"])}
    raise AssertionError("unknown job " + kind)


def run_jobs(jobs, ad, graphs):
    """-> results in the order of `jobs`.  Worker processes (C06_PROCS, default 4) each load armi and build their own reactor;
    in-process monkey-patches (self-test) are only visible to the serial path."""
    import subprocess
    import sys
    import time

    nproc = 1 if _SELFTEST else max(1, int(os.environ.get("C06_PROCS", "4")))
    if nproc == 1 or len(jobs) == 1:
        ad = ad or DbAdapter()
        return [json.loads(json.dumps(do_job(j, ad, graphs), default=str)) for j in jobs]
    wd = common.workdir("c06jobs")
    env = dict(os.environ)
    env["PYTHONPATH"] = os.pathsep.join([common.ROOT] + ([os.environ["VERIF_REPO"]] if os.environ.get("VERIF_REPO") else []) +
                                        [x for x in env.get("PYTHONPATH", "").split(os.pathsep) if x])
    pending = list(enumerate(jobs))
    running, results = [], [None] * len(jobs)
    deadline = time.time() + float(os.environ.get("C06_JOB_TIMEOUT", "3000"))
    while pending or running:
        if time.time() > deadline:
            for _, proc, _, _, log in running:
                proc.kill()
                log.close()
            raise tlc.MachineryError("C06 worker processes exceeded the time limit; jobs still running: %s" % [r[0] for r in running])
        while pending and len(running) < nproc:
            i, job = pending.pop(0)
            jf, of, lf = (os.path.join(wd, "%s%d.json" % (t, i)) for t in ("job", "out", "log"))
            with open(jf, "w") as f:
                json.dump(dict(job, out=of), f)
            log = open(lf, "w")
            running.append((i, subprocess.Popen([sys.executable, "-m", "props.c06", jf], cwd=common.ROOT, env=env, stdout=log,
                                                stderr=subprocess.STDOUT), of, lf, log))
        time.sleep(0.2)
        for item in list(running):
            i, proc, of, lf, log = item
            if proc.poll() is None:
                continue
            running.remove(item)
            log.close()
            if proc.returncode != 0 or not os.path.exists(of):
                for _, other, _, _, olog in running:
                    other.kill()
                    olog.close()
                with open(lf) as f:
                    raise tlc.MachineryError("C06 worker for job %d (%s) failed rc=%s\n%s" % (i, jobs[i]["kind"], proc.returncode,
                                                                                           f.read()[-3000:]))
            with open(of) as f:
                results[i] = json.load(f)
    return results


def _worker_main(argv):
    with open(argv[0]) as f:
        job = json.load(f)
    res = do_job(job)
    with open(job["out"] + ".tmp", "w") as f:
        json.dump(res, f, default=str)
    os.replace(job["out"] + ".tmp", job["out"])
    return 0


def run(rep, tier, seed, parts=("db", "run")):
    thorough = tier == "thorough"
    sfx = _sfx(thorough)
    if not _SELFTEST:
        for m, d in (("DbHistory_mc", DBDIR), ("DbHistory_trace", DBDIR), ("RunWithDb_mc", RUNDIR)):
            tlc.sany(m, d)
    rep.exhaustive = True
    pool = ThreadPoolExecutor(max_workers=3)
    # emission runs first (the real-code work waits for them), exhaustive runs in the background while the real code runs
    fut = {}
    fut["wide"] = pool.submit(_cached_run, "DbHistory_mc", "DbHistory_emit%s.cfg" % sfx, DBDIR, workers=1, coverage=False, timeout=3000)
    fut["narrow"] = pool.submit(_cached_run, "DbHistory_mc", "DbHistory_emit2%s.cfg" % sfx, DBDIR, workers=1, coverage=False, timeout=3000)
    fut["births"] = pool.submit(_cached_run, "DbHistory_mc", "DbHistory_emit3%s.cfg" % sfx, DBDIR, workers=1, coverage=False, timeout=3000)
    fut["runs"] = pool.submit(_cached_run, "RunWithDb_mc", "RunWithDb_emit%s.cfg" % sfx, RUNDIR, workers=1, coverage=False, timeout=3000)
    if not _SELFTEST:
        fut["db_mc"] = pool.submit(tlc.run, "DbHistory_mc", "DbHistory_mc%s.cfg" % sfx, DBDIR, want_prints=False, timeout=3000,
                                   workers=6)
        fut["run_mc"] = pool.submit(tlc.run, "RunWithDb_mc", "RunWithDb_mc%s.cfg" % sfx, RUNDIR, want_prints=False, timeout=3000,
                                    workers=4)
    try:
        serial = _SELFTEST or os.environ.get("C06_PROCS", "4") == "1"
        # ---- plan the real-code work ----
        budgets = {"wide": 900 if thorough else 70, "narrow": 600 if thorough else 60, "births": 400 if thorough else 30}
        splits = {"wide": 3 if thorough else 1, "narrow": 2 if thorough else 1, "births": 1}
        loads = {"wide": 0.25, "narrow": 0.25, "births": 1.0}
        ntr, nev, tsplit = (60, 30, 3) if thorough else (8, 16, 1)
        max_runs, rsplit = ((260, 50), 4) if thorough else ((30, 6), 2)
        jobs, graphs, meta = [], {}, {}
        jobdir = common.workdir("c06prints")
        if "db" in parts:
            for name in GRAPHS:
                eres = fut[name].result()
                rep.add_tlc("edges:%s:DbHistory_emit" % name, eres)
                _tlc_verdict(rep, eres, "DbHistory")
                graphs[name] = emitted_graph(eres.prints)
                if not graphs[name][0].edges:
                    raise tlc.MachineryError("DbHistory emission (%s) printed no edge" % name)
                pf = os.path.join(jobdir, name + ".json")
                if not serial:
                    with open(pf, "w") as f:
                        json.dump([p for p in eres.prints if isinstance(p, dict)], f)
                for k in range(splits[name]):
                    jobs.append({"kind": "edges", "graph": name, "prints": pf, "budget": budgets[name], "seed": seed,
                                 "part": [k, splits[name]], "loads": loads[name]})
            per = -(-ntr // tsplit)
            for k in range(tsplit):
                jobs.append({"kind": "traces", "first": k * per, "count": min(per, ntr - k * per), "nev": nev, "seed": seed})
        if "run" in parts:
            eres = fut["runs"].result()
            rep.add_tlc("runs:RunWithDb_emit" + sfx, eres)
            _tlc_verdict(rep, eres, "RunWithDb")
            sel, total = select_runs(eres, thorough, seed, max_runs)
            meta["runs"] = (sel, total)
            # interleave, so that every worker gets cheap and expensive (restart) runs
            for k in range(rsplit):
                jobs.append({"kind": "runs", "runs": sel[k::rsplit], "slice": [k, rsplit]})
        # longest jobs first
        order = sorted(range(len(jobs)), key=lambda i: {"runs": 0, "edges": 1, "traces": 2}[jobs[i]["kind"]])
        results = [None] * len(jobs)
        for i, r in zip(order, run_jobs([jobs[i] for i in order], None if not serial else DbAdapter(), graphs)):
            results[i] = r
        # ---- account ----
        if "db" in parts:
            _report_db(rep, seed, graphs, jobs, results)
        if "run" in parts:
            sel, total = meta["runs"]
            got = [None] * len(sel)
            for job, res in zip(jobs, results):
                if job["kind"] == "runs":
                    k, n = job["slice"]
                    got[k::n] = [tuple(x) for x in res["results"]]
            report_runs(rep, sel, got, total)
        if not _SELFTEST:
            res = fut["db_mc"].result()
            rep.add_tlc("exhaustive:DbHistory_mc%s.cfg" % sfx, res)
            _tlc_verdict(rep, res, "DbHistory")
            _nonvacuous(res, ("Assign", "Move", "Birth", "Advance", "Write", "WriteRefused", "Rotate", "Merge", "Close", "DbStep"),
                        "DbHistory_mc")
            res = fut["run_mc"].result()
            rep.add_tlc("exhaustive:RunWithDb_mc%s.cfg" % sfx, res)
            _tlc_verdict(rep, res, "RunWithDb")
            _nonvacuous(res, ("RCall", "RDbWrite", "RControl", "Fail", "RNextR"), "RunWithDb_mc")
    finally:
        pool.shutdown(wait=True)
    rep.assume(
        "tracked objects = assemblies of the smallest test reactor's blueprint (one block each); parameter 1 = Block.%s (numeric "
        "default), parameter 2 = Block.%s (default None); values are small numbers different from the defaults" % PARAMS,
        "cycle / node < 100 (two-digit group names); labels '' < ' sp' < '-special' < '.v2' < 'EOL' < 'error' < 'x' (ASCII order of "
        "the group names; state-point names are free text, the documentation's own example is '-special')",
        "every history starts like a fresh process: tracked objects are constructed when they enter the history and the adapter "
        "resets armi's per-definition 'somebody has assigned this parameter' flag of parameter 1 (global state armi keeps), so the "
        "first snapshots hold no column for it and both load and every history must answer with the default",
        "DatabaseInterface.getHistory / getHistories report the live value under the current step whenever it is requested, "
        "written or not; everything a load returned (block parameters, blueprints) is overwritten by the adapter after it has "
        "been looked at: later loads must not show it",
        "in the uncoupled runs with a MainInterface the first application interface stores auxiliary data under the current node "
        "through Database.getH5Group(r) before the database interface writes the node",
        "genTimeSteps lists a labelled snapshot under its (cycle, node) again (DESIGN S13): 'listed' = that sequence, its set of "
        "pairs is exactly the set of pairs written; a history reports one value per pair, the last-named snapshot winning",
        "getHistories appends the live value under the reactor's current (cycle, node) when the object has stored entries and none "
        "for that step; the block's own live 'location' is not compared (histories of 'location' are taken on assemblies)",
        "the reactor's time in years is cycle + node/128 (data chosen by the adapter), so that HistoryTrackerInterface.getTimeSteps "
        "can be read back as steps; getTimeSteps is compared in the spec -> code direction only",
        "mergeHistory is used as in a restart: into a freshly opened file; 'requested steps' = strictly before the start point",
        "splitDatabase keeps unlabelled snapshots only and re-bases cycles to the smallest kept cycle (documented)",
        "runs: failures are raised at the entry of a hook (a failing hook changes nothing); failures before the database is "
        "opened leave no file; failures after DatabaseInterface.interactEOL find the file finalised (both outside the "
        "statement's window, modelled as observed); failures inside the nested end-of-cycle dispatch of a restart are not modelled",
    )


def _report_db(rep, seed, graphs, jobs, results):
    # spec -> code: three emitted graphs -- "wide" (objects that move and appear, two parameters, depth 4/5), "narrow" (one
    # object, deeper sequences of database steps) and "births" (objects created after loads of older snapshots)
    for name in GRAPHS:
        g, obs_of = graphs[name]
        checked, nontriv, divs = set(), set(), []
        for job, res in zip(jobs, results):
            if job["kind"] == "edges" and job["graph"] == name:
                checked |= set(res["checked"])
                nontriv |= set(res["nontrivial"])
                divs += res["divs"]
        if not checked:
            raise tlc.MachineryError("no DbHistory edge replayed (%s)" % name)
        rep.add_replay("database-edges-" + name, len(checked), len(nontriv),
                       "an edge (s,a,t) of TLC's state graph of DbHistory is executed as path(s);a on a real reactor + Database; "
                       "after it the real listing, snapshot names, hasTimeStep, one of the five history queries (seeded rotation: "
                       "getHistories of blocks / of assembly locations / with explicit timeSteps, getHistoriesByLocation, the "
                       "history tracker), the result of a load and, after close / rotate / merge / split, the complete contents of "
                       "the closed files are compared with the values TLC printed for t; loads (Database.load / loadReadOnly / "
                       "Operator.loadState) are also executed between the steps of a path; non-trivial = the edge changes the "
                       "abstract state (%s graph: %d of %d edges checked, every input class before any is repeated)" % (
                           name, len(checked), len(g.edges)))
        for d in divs:
            rep.violation(div_key(d), "real Database diverges from DbHistory after %s: %s" % (
                json.dumps(d["behaviour"]), d["first_difference"]), dict(d, direction="replay", part="db"))
        e = next((x for x in g.edges if x["act"]["n"] == {"wide": "Load", "narrow": "Merge"}.get(name, "Birth") and x["lvl"] >= 3),
                 g.edges[len(g.edges) // 2])
        rep.sample({"kind": "edge", "graph": name, "path": [s["act"] for s in g.path[e["_fk"]]], "act": e["act"],
                    "expected": {k: v for k, v in (obs_of(e) or {}).items() if k in ("steps", "names", "hist", "res", "err")}})

    # code -> spec
    traces = []
    for job, res in zip(jobs, results):
        if job["kind"] == "traces":
            traces += res["traces"]
    bad, stats = tracecheck.validate("DbHistory_trace", "DbHistory_trace.cfg", DBDIR, traces, timeout=3000)
    rep.add_tlc("trace-validation:DbHistory", stats["tlc"])
    rep.add_traces("database-random-histories", len(traces), sum(len(t["ev"]) for t in traces),
                   "seeded random histories (assign / move / birth / advance with cycle and node up to 99 / write with 4 labels / "
                   "load / rotate + merge / split / close) on a real reactor + Database; every event (call, outcome, listing, "
                   "names, hasTimeStep, two of the five history queries, dumps of closed files) must be a step of DbHistory")
    rep.sample({"kind": "trace", "id": traces[0]["id"], "events": [{"a": e["a"], "err": e["err"]} for e in traces[0]["ev"][:8]]})
    for b in bad:
        if "invariant" in b:
            rep.violation("trace:invariant:" + b["invariant"], "a recorded history drives DbHistory into a state violating %s" %
                          b["invariant"], {"direction": "trace", "part": "db", "tlc": b.get("tlc")})
            continue
        ev = b["trace"]["ev"]
        k = b["matched"]
        nxt = ev[k] if k < len(ev) else {}
        acts = [e["a"] for e in ev[: k + 1]]
        d = None
        if "mismatch" in b and nxt:
            d = rp.diff(b["mismatch"]["expected"], {"post": nxt["post"], "err": nxt["err"], "res": nxt["res"]})
        pseudo = {"first_difference": (d or ".?: not enabled").replace(".post", "", 1), "behaviour": acts,
                  "action": nxt.get("a", {"n": "?"}), "observed": nxt.get("post", {})}
        rep.violation(div_key(pseudo),
                      "recorded history is not a behaviour of DbHistory at event %d (%s): %s" % (
                          k + 1, json.dumps(nxt.get("a")), d or "the call is not enabled / the outcome is not the specified one"),
                      {"direction": "trace", "part": "db", "trace": b["trace"], "matched": k, "mismatch": b.get("mismatch")})


# ============================================================================================================
def replay(payload):
    """Re-execute one recorded violation on the real code and print the comparison."""
    direction = payload.get("direction")
    if direction == "replay":
        ad = DbAdapter()
        w = ad.build(payload["root"])
        try:
            for a in payload["behaviour"]:
                ad.apply(w, a)
            got = ad.project(w, set(HEAVY) | {"sel", "dumpA", "dumpB"})
            got["err"], got["res"] = w.err, w.res
        finally:
            ad.dispose(w)
        exp = {k: v for k, v in payload["expected"].items() if k in got}
        d = rp.diff(exp, got)
        print(json.dumps({"behaviour": payload["behaviour"], "first_difference": d, "expected": exp, "observed": got}, indent=1,
                         default=str) if d else "no divergence: behaviour conforms")
        return 1 if d else 0
    if direction == "run":
        got = RunAdapter().run(payload["run"])
        d = rp.diff(payload["expected"], got)
        print(json.dumps({"run": payload["run"], "first_difference": d, "observed": got}, indent=1, default=str)
              if d else "no divergence: run conforms")
        return 1 if d else 0
    if direction == "trace" and payload.get("trace"):
        bad, _ = tracecheck.validate("DbHistory_trace", "DbHistory_trace.cfg", DBDIR, [payload["trace"]], timeout=600)
        print("recorded trace %s by DbHistory_trace%s" % ("REJECTED" if bad else "accepted",
                                                         (" at event %d" % (bad[0]["matched"] + 1)) if bad else ""))
        return 1 if bad else 0
    print("replay of direction=%s: see payload (TLC trace)" % direction)
    return 0


# ------------------------------------------------------------------------------------------------------------
# binding demonstration
# ------------------------------------------------------------------------------------------------------------
class _Sources:
    """Source-level variants of methods of the anchored classes: a mutant is the method's current source with one textual
    replacement, compiled in the method's own module namespace.  `base` replacements (the three repairs proposed for the defects
    this check reports) are applied first when their target text is still present, so that mutants are judged against a tree
    on which the check is clean."""

    def __init__(self):
        self.src = {}

    def source(self, cls, name):
        import inspect

        key = (cls, name)
        if key not in self.src:
            self.src[key] = inspect.getsource(cls.__dict__[name])  # indented as in the file (method of a class)
        return self.src[key]

    def compile(self, cls, name, src):
        import sys

        ns = sys.modules[cls.__module__].__dict__
        loc = {}
        exec(compile("class _Holder:\n" + src, "<c06 variant of %s.%s>" % (cls.__name__, name), "exec"), ns, loc)  # noqa: S102
        return loc["_Holder"].__dict__[name]

    def rebase(self, cls, name, old, new):
        src = self.source(cls, name)
        if old in src:
            self.src[(cls, name)] = src.replace(old, new)
            return True
        return False

    def variant(self, cls, name, old, new):
        src = self.source(cls, name)
        if old not in src:
            raise tlc.MachineryError("selftest: text to mutate not found in %s.%s: %r" % (cls.__name__, name, old))
        return self.compile(cls, name, src.replace(old, new))


def selftest():
    """In-process mutants of the anchored code; each must be detected by the replay / trace / run comparison."""
    global _SELFTEST
    import contextlib

    from harness.report import Report
    from harness.selftest import patched, run_mutants

    armi_ready()
    from armi.bookkeeping.db import database as dbmod
    from armi.bookkeeping.db import databaseInterface as dbimod
    from armi.bookkeeping.historyTracker import HistoryTrackerInterface as HT
    from armi.operators import operator as opmod

    _SELFTEST = True
    D, DI, OP = dbmod.Database, dbimod.DatabaseInterface, opmod.Operator
    S = _Sources()
    # the four repairs proposed in the report (no-ops on a tree where they are already made)
    repairs = [
        (D, "splitDatabase", 'dbOut[offsetGroupName + "/Reactor/cycle"][()] = offsetCycle\n',
         'dbOut[offsetGroupName + "/Reactor/cycle"][()] = offsetCycle\n'
         '                dbOut[offsetGroupName].attrs["cycle"] = offsetCycle\n'),
        (D, "mergeHistory", "if cyc == startCycle and tn == startNode:", "if (cyc, tn) >= (startCycle, startNode):"),
        (D, "getHistoriesByLocation", "if ancestor == anchorSerialNum and loc in locations\n                ]\n            )",
         "if ancestor == anchorSerialNum and loc in locations\n                ],\n                dtype=int,\n            )"),
        (HT, "getTimeSteps", "timeInYears = [t[1] for t in timeInYears]", "timeInYears = list(timeInYears.values())"),
    ]
    base = contextlib.ExitStack()
    for cls, name, old, new in repairs:
        already = (new in S.source(cls, name))
        if not already and S.rebase(cls, name, old, new):
            base.enter_context(patched(cls, name, S.compile(cls, name, S.source(cls, name))))
            print("note: %s.%s repaired in-process for the self-test (the tree under test still has the reported defect)" % (
                cls.__name__, name))

    def detector(parts):
        def detect():
            rep = Report("C06", "quick", 0)
            run(rep, "quick", 0, parts=parts)
            return [v["key"] for v in rep.violations]
        return detect

    def V(cls, name, old, new):
        return lambda: patched(cls, name, S.variant(cls, name, old, new))

    def overwrite_group(self, r, statePointName=None):
        name = dbmod.getH5GroupName(r.p.cycle, r.p.timeNode, statePointName)
        if name in self.h5db:
            del self.h5db[name]
        g = self.h5db.create_group(name, track_order=True)
        g.attrs["cycle"], g.attrs["timeNode"] = r.p.cycle, r.p.timeNode
        return g

    def has_step_ignores_label(self, cycle, timeNode, statePointName=""):
        return dbmod.getH5GroupName(cycle, timeNode) in self.h5db

    def close_keeps_fast_path(self, completedSuccessfully=False):
        self._openCount = 0
        if self.h5db is None:
            return
        if self._permission == "w":
            self.h5db.attrs["successfulCompletion"] = completedSuccessfully
            self.h5db.flush()
        self.h5db.close()
        self.h5db = None

    def exit_without_error_hooks(self, exception_type, exception_value, stacktrace):
        return None

    def error_closes_successful(self):
        try:
            self._db.writeToDB(self.r, "error")
            self._db.close(True)
        except Exception:  # noqa: BLE001
            pass

    def error_without_snapshot(self):
        try:
            self._db.close(False)
        except Exception:  # noqa: BLE001
            pass

    def eol_without_snapshot(self):
        self.closeDB()

    def eol_closes_unsuccessful(self):
        self._db.writeToDB(self.r, "EOL")
        self._db.close(False)

    orig_en = DI.interactEveryNode

    def every_node_skips_first_of_later_cycles(self, cycle, node):
        if cycle > 0 and node == 0:
            return
        orig_en(self, cycle, node)

    orig_load_bp = D.loadBlueprints

    def load_blueprints_cached(self):
        if getattr(self, "_c06_blueprints", None) is None:
            self._c06_blueprints = orig_load_bp(self)
        return self._c06_blueprints

    def every_node_skips_existing_group(self, cycle, node):
        if self.o.cs["tightCoupling"]:
            return
        if self._db.hasTimeStep(cycle, node):
            return
        self.writeDBEveryNode()

    import re as _re

    db_mutants = [
        ("writeToDB silently overwrites an existing snapshot", lambda: patched(D, "getH5Group", overwrite_group)),
        ("hasTimeStep ignores the label", lambda: patched(D, "hasTimeStep", has_step_ignores_label)),
        ("genTimeSteps lists in reverse name order", V(D, "genTimeSteps", "sorted(self.h5db.keys())", "sorted(self.h5db.keys(), reverse=True)")),
        ("getHistories pairs values with objects by position, not serial number",
         V(D, "getHistories", "serialNumsForType = layout.serialNum[layoutIndicesForType].tolist()",
           "serialNumsForType = sorted(layout.serialNum[layoutIndicesForType].tolist())")),
        ("getHistories does not substitute the default for an unstored parameter",
         V(D, "getHistories", "parameters.byNameAndType(paramName, compType).default,", "0.0,")),
        ("getHistories never appends the live value", V(D, "getHistories", "if cycleNode not in hist:", "if False:")),
        ("getHistories keeps the first of several snapshots of a step",
         V(D, "getHistories", "histData[c][paramName][cycle, timeNode] = val", "histData[c][paramName].setdefault((cycle, timeNode), val)")),
        ("getHistoriesByLocation reads the value of the first object of the type",
         V(D, "getHistoriesByLocation", "data = dataSet[objectIndicesInData]", "data = dataSet[[0] * len(objectIndicesInData)]")),
        ("mergeHistory also copies the start step", V(D, "mergeHistory", "if (cyc, tn) >= (startCycle, startNode):", "if (cyc, tn) > (startCycle, startNode):")),
        ("mergeHistory skips labelled snapshots", V(D, "mergeHistory", "self.h5db.copy(h5ts, h5ts.name)", "if len(h5ts.name) > 7:\n                continue\n            self.h5db.copy(h5ts, h5ts.name)")),
        ("splitDatabase does not re-base Reactor/cycle",
         V(D, "splitDatabase", 'dbOut[offsetGroupName + "/Reactor/cycle"][()] = offsetCycle\n', "pass\n")),
        ("splitDatabase drops the first kept step", V(D, "splitDatabase", "for cycle, node in keepTimeSteps:", "for cycle, node in sorted(keepTimeSteps)[1:] or keepTimeSteps:")),
        ("close marks every file successful", V(D, "close", 'self.h5db.attrs["successfulCompletion"] = completedSuccessfully', 'self.h5db.attrs["successfulCompletion"] = True')),
        ("load ignores the label", V(D, "load", "h5group = self.h5db[getH5GroupName(cycle, node, statePointName)]", "h5group = self.h5db[getH5GroupName(cycle, node)] if getH5GroupName(cycle, node) in self.h5db else self.h5db[getH5GroupName(cycle, node, statePointName)]")),
        ("close leaves the file in the fast path", lambda: patched(D, "close", close_keeps_fast_path)),
        ("load resets the serial-number counter to the snapshot's maximum (seed 2)",
         V(D, "load", "parameterCollections.GLOBAL_SERIAL_NUM = max(\n            parameterCollections.GLOBAL_SERIAL_NUM, layout.serialNum.max()\n        )",
           "parameterCollections.GLOBAL_SERIAL_NUM = int(layout.serialNum.max())")),
        ("loadReadOnly does not forward the label (seed 5)",
         V(D, "loadReadOnly", "r = self.load(cycle, node, statePointName=statePointName, allowMissing=True)",
           "r = self.load(cycle, node, allowMissing=True)")),
        ("DatabaseInterface.loadState ignores the label",
         V(DI, "loadState", "statePointName=timeStepName,\n                        cs=self.cs,", "cs=self.cs,")),
        ("splitDatabase takes the re-basing offset from the first step of the list, not the smallest (round 2, seed 1)",
         V(D, "splitDatabase", "minCycle = next(iter(sorted(keepTimeSteps)))[0]", "minCycle = next(iter(keepTimeSteps))[0]")),
        ("getHistories answers None, not the default, for a parameter no object had assigned at a step (round 3, seed 1)",
         V(D, "getHistories", "data = np.repeat(\n                            parameters.byNameAndType(paramName, compType).default,\n"
                              "                            len(reorderedComps),\n                        )",
           "data = np.array([None] * len(reorderedComps))")),
        ("time-step groups are recognised only when the label is a word (round 3, seed 3)",
         lambda: patched(D, "timeNodeGroupPattern", _re.compile(r"^c(\d\d)n(\d\d)\w*$"))),
        ("DatabaseInterface.getHistory adds the live value only while the current step is unwritten (round 3, seed 4)",
         V(DI, "getHistory", "        if nowRequested:\n            for param in params or history.keys():",
           "        if nowRequested and not self.database.hasTimeStep(*now):\n            for param in params or history.keys():")),
        ("loadBlueprints caches the parsed blueprints on the Database object (round 3, seed 5)",
         lambda: patched(D, "loadBlueprints", load_blueprints_cached)),
        ("history tracker answers every step with the live value",
         V(HT, "getBlockHistoryVal", "if self._isCurrentTimeStep(ts) and not self._databaseHasDataForTimeStep(ts):", "if True:")),
        ("Database.__exit__ closes as successful although an exception is passing",
         V(D, "__exit__", "self.close(all(i is None for i in (type, value, traceback)))", "self.close(True)")),
    ]
    run_mutants_list = [
        ("Operator.__exit__ does not call interactAllError", lambda: patched(OP, "__exit__", exit_without_error_hooks)),
        ("interactError closes the database as successful", lambda: patched(DI, "interactError", error_closes_successful)),
        ("interactError does not write the error snapshot", lambda: patched(DI, "interactError", error_without_snapshot)),
        ("interactEOL does not write the end-of-life snapshot", lambda: patched(DI, "interactEOL", eol_without_snapshot)),
        ("interactEOL closes the database as unsuccessful", lambda: patched(DI, "interactEOL", eol_closes_unsuccessful)),
        ("interactEveryNode skips node 0 of later cycles", lambda: patched(DI, "interactEveryNode", every_node_skips_first_of_later_cycles)),
        ("close leaves the file in the fast path (runs)", lambda: patched(D, "close", close_keeps_fast_path)),
        ("_performTightCoupling writes the database only in cycles that are not exempt from coupling (seed 1)",
         V(OP, "_performTightCoupling",
           "        if writeDB:\n            # database has not yet been written, so we need to write it.\n"
           "            dbi = self.getInterface(\"database\")\n            dbi.writeDBEveryNode()",
           "            if writeDB:\n                dbi = self.getInterface(\"database\")\n                dbi.writeDBEveryNode()")),
        ("Operator.__exit__ runs the error hooks for Exception instances only (round 2, seed 2)",
         V(OP, "__exit__", "if any([exception_type, exception_value, stacktrace]):", "if isinstance(exception_value, Exception):")),
        ("loadState asks the reload database before the live one (round 2, seed 5)",
         V(DI, "_getLoadDB",
           "            if self._db is not None:\n                yield self._db\n            if os.path.exists(self.cs[\"reloadDBName\"]):\n"
           "                yield Database(self.cs[\"reloadDBName\"], \"r\")",
           "            if os.path.exists(self.cs[\"reloadDBName\"]):\n                yield Database(self.cs[\"reloadDBName\"], \"r\")\n"
           "            if self._db is not None:\n                yield self._db")),
        ("interactEveryNode does not write a node whose group exists already (round 3, seed 2)",
         lambda: patched(DI, "interactEveryNode", every_node_skips_existing_group)),
        ("prepRestartRun merges one node too many", V(DI, "prepRestartRun", "self._db.mergeHistory(inputDB, startCycle, startNode)", "self._db.mergeHistory(inputDB, startCycle, startNode + 1)")),
        ("prepRestartRun does not merge the history", V(DI, "prepRestartRun", "self._db.mergeHistory(inputDB, startCycle, startNode)", "pass")),
        ("writeDBEveryNode stores every node but the first of a cycle under a label", V(DI, "writeDBEveryNode", "self._db.writeToDB(self.r)", "self._db.writeToDB(self.r, 'x' if self.r.p.timeNode else None)")),
    ]
    only = os.environ.get("C06_SELFTEST", "")  # "db" / "run": one half only
    pick = os.environ.get("C06_MUTANT", "")    # substring of a mutant's label: only those
    orig_load_bp = D.loadBlueprints

    def load_blueprints_cached(self):
        if getattr(self, "_c06_blueprints", None) is None:
            self._c06_blueprints = orig_load_bp(self)
        return self._c06_blueprints

    def every_node_skips_existing_group(self, cycle, node):
        if self.o.cs["tightCoupling"]:
            return
        if self._db.hasTimeStep(cycle, node):
            return
        self.writeDBEveryNode()

    import re as _re

    db_mutants = [m for m in db_mutants if pick in m[0]]
    run_mutants_list = [m for m in run_mutants_list if pick in m[0]]
    rc = 0
    try:
        with base:
            if only in ("", "db"):
                rc |= run_mutants(db_mutants, detector(("db",)))
            if only in ("", "run"):
                rc |= run_mutants(run_mutants_list, detector(("run",)))
    finally:
        _SELFTEST = False
    return rc


if __name__ == "__main__":
    import sys

    sys.exit(_worker_main(sys.argv[1:]))
