"""C17 -- case settings survive a write/read cycle and reject what they cannot hold.

Two specifications (spec/settings), each bound to the real code:

  SettingSchema   what one setting admits, stores and writes: the value data model, voluptuous' validation language,
                  Setting._setSchema, the named validators (cycles, cross-section control, tight coupling, flag lists),
                  dump.  (a) SettingSchema_mc: the semantic laws over a synthetic space of schemas/declarations.
                  (b) SettingSchema_cat: TLC evaluates the module over the catalog of the *real* settings (declarations
                  read from the live Setting objects by harness/gen_settings.py) and prints, for every setting and every
                  candidate value, the verdict and the stored / written value; `cs[name] = value` is executed once per case
                  on the real code (verdict, stored value, dump, previous value kept on refusal), and the per-setting data
                  laws (DefaultAdmitted, value round trip) are reported per setting.
  SettingsCase    Settings objects, files and copies as a state machine over abstract values (d, a, b; inputs ca, x).
                  (a) exhaustive TLC runs of the clauses of the statement; (b) spec -> code: every edge of TLC's graph is
                  executed on real Settings objects with every abstract setting name instantiated by a *class* of real
                  settings and the abstract values by concrete values TLC classified in SettingSchema_cat; plus the sweep:
                  the round-trip and refusal paths for every real setting x every admitted / refused value x every style;
                  (c) code -> spec: seeded random histories on real objects, abstracted and validated by SettingsCase_trace.

Expected values always come from TLC (the printed cases and the emitted states); this file builds inputs, runs the real
code, projects and compares.
"""
import collections
import copy
import io
import json
import os
import pickle
import random
import re

from harness import common, tlc, tracecheck
from harness import gen_settings as gs
from harness import replay as rp
from harness.armi_env import armi_ready

MODDIR = os.path.join(common.SPEC, "settings")
ABS_NAMES = ("P", "Q", "R", "V", "Z")
UNKNOWN_NAME = "verifNoSuchSetting"

# Settings whose values are *acted on* while a file is loaded (beyond their schema); valid-value tokens for them are
# restricted to what the action accepts.  This restricts inputs only; see rep.assume in run().
_LEVELS = ("debug", "extra", "info", "important", "prompt", "warning", "error")
HOOK_SAFE = {
    "userPlugins": lambda p: p == [],  # Settings.loadFromInputFile imports what the list names (None: see HOOK_PROBES)
    # Settings.setModuleVerbosities (called by every load) takes each value as a level name or a numeric string
    "moduleVerbosity": lambda p: isinstance(p, dict) and all(isinstance(v, str) and (v in _LEVELS or v.isnumeric()) for v in p.values()),
}


# ============================================================================================================
# part 1: SettingSchema over the catalog -> cases, value library
# ============================================================================================================
class Lib:
    """Everything TLC said about the real settings: cases per setting, laws, rename tables; and the value library the
    instantiations draw from (only values TLC classified)."""

    def __init__(self, prints, entries):
        self.entries = {e["name"]: e for e in entries}
        self.order = [e["name"] for e in entries]
        self.cases = collections.defaultdict(list)
        self.law = {}
        for p in prints:
            if not isinstance(p, dict):
                continue
            if "law" in p:
                self.law[p["law"]] = p
            elif "s" in p:
                self.cases[p["s"]].append(p)
        missing = [n for n in self.order if n not in self.law or not self.cases[n]]
        if missing:
            raise tlc.MachineryError("SettingSchema_cat printed nothing for %s" % missing[:5])
        self.vals, self.noncanon, self.bad, self.default = {}, {}, {}, {}
        for n in self.order:
            self._library(n)

    @staticmethod
    def _lst(x):
        return [] if x in ({}, None) else list(x)

    def _library(self, n):
        e = self.entries[n]
        dflt = gs.plain_of_tag(e["default"])
        self.default[n] = dflt
        opts = [gs.plain_of_tag(o) for o in e["options"]]
        vals, seen, nonc, bad = [], set(), collections.defaultdict(list), []
        for c in self.cases[n]:
            if c["r"] == "bad":
                bad.append(c["raw"])
                continue
            if c["r"] != "ok" or c["rt"] != "holds":
                continue
            stored = gs.plain_of_tag(c["out"])
            key = repr(_canon(stored))
            if _json(c["raw"]) != _json(c["dump"]):
                nonc[key].append(c["raw"])
            if key in seen or gs.same(stored, dflt):
                continue
            if n == "versions" and isinstance(stored, dict) and "armi" in stored:
                continue
            if opts and not any(gs.same(stored, o) for o in opts):
                continue  # options given: only listed values count as a user's valid choice (enforced or not)
            if n in HOOK_SAFE and not HOOK_SAFE[n](stored):
                continue
            if not _yaml_data(stored):
                continue
            seen.add(key)
            vals.append({"stored": stored, "dump_tag": c["dump"], "key": key})
        self.vals[n], self.noncanon[n], self.bad[n] = vals, nonc, bad

    def active_old(self, n):
        return self._lst(self.law[n]["active"])

    def expired_old(self, n):
        return self._lst(self.law[n]["expired"])

    def default_admitted(self, n):
        return bool(self.law[n]["defaultAdmitted"])


def _json(x):
    return json.dumps(x, sort_keys=True)


def _canon(p):
    if isinstance(p, dict):
        return sorted(((repr(k), _canon(v)) for k, v in p.items()))
    if isinstance(p, list):
        return [_canon(x) for x in p]
    return (type(p).__name__, p)


def _yaml_data(p):
    """values a YAML file can hold: the JSON data model with string keys (flags are written as their names)"""
    if isinstance(p, dict):
        return all(isinstance(k, str) and _yaml_data(v) for k, v in p.items())
    if isinstance(p, list):
        return all(_yaml_data(x) for x in p)
    if isinstance(p, tuple):
        return p[0] == "flag"
    return p is None or isinstance(p, (bool, int, float, str))


_CAT_CACHE = {}


def schema_cases():
    """catalog -> TLC (SettingSchema_cat) -> Lib"""
    if "lib" in _CAT_CACHE:
        return _CAT_CACHE["lib"], _CAT_CACHE["res"], _CAT_CACHE["skipped"]
    entries, skipped = gs.catalog()
    wd = common.workdir("c17cat")
    fn = os.path.join(wd, "catalog.json")
    with open(fn, "w") as f:
        json.dump({"today": gs.today_int(), "settings": entries}, f)
    res = tlc.run("SettingSchema_cat", "SettingSchema_cat.cfg", MODDIR, workers=1, coverage=False,
                  env={"C17_CATALOG": fn}, timeout=900)
    if res.violation:
        raise tlc.MachineryError("SettingSchema_cat: " + res.violation["trace"][:2000])
    lib = Lib(res.prints, entries)
    _CAT_CACHE.update(lib=lib, res=res, skipped=skipped)
    return lib, res, skipped


def _settings_cls():
    armi_ready()
    gs.ensure_plugin()
    from armi import settings

    return settings.Settings


def _obj(cs, name):
    """the live Setting object (Settings.__getitem__ refuses some names while `cycles` is set; items() does not)"""
    return dict(cs.items())[name]


def _value(cs, name, objs=None):
    v = gs.plain((objs or dict(cs.items()))[name].value)
    if name == "versions" and isinstance(v, dict):
        v = {k: x for k, x in v.items() if k != "armi"}  # the writer's stamp is not a user value
    return v


def run_cases(rep, lib):
    """`cs[name] = raw` once per printed case, from a known non-default previous value."""
    Settings = _settings_cls()
    cs = Settings()
    objs = dict(cs.items())
    n_ok = n_bad = n_unm = 0
    for name in lib.order:
        st = objs[name]
        prev = lib.vals[name][0] if lib.vals[name] else None
        for c in lib.cases[name]:
            if c["r"] == "unm":
                n_unm += 1
                continue
            raw = gs.from_tag(c["raw"])
            st.revertToDefault()
            if prev is not None:
                cs[name] = gs.from_tag(prev["dump_tag"])
            before = _value(cs, name, objs)
            try:
                cs[name] = raw
                got = None
            except Exception as ex:  # noqa: BLE001  a refusal is "an error"; its class is recorded, not judged
                got = type(ex).__name__
            after = _value(cs, name, objs)
            what = None
            if c["r"] == "ok":
                n_ok += 1
                exp = gs.plain_of_tag(c["out"])
                if name == "versions" and isinstance(exp, dict):
                    exp = {k: x for k, x in exp.items() if k != "armi"}
                if got is not None:
                    what = ("accept", "refused with %s, specification stores %r" % (got, exp))
                elif not gs.same(exp, after):
                    what = ("stored", "stored %r, specification stores %r" % (after, exp))
                else:
                    d = gs.plain(st.dump())
                    ed = gs.plain_of_tag(c["dump"])
                    if name == "versions":
                        d = {k: x for k, x in d.items() if k != "armi"} if isinstance(d, dict) else d
                        ed = {k: x for k, x in ed.items() if k != "armi"} if isinstance(ed, dict) else ed
                    if not gs.same(d, ed):
                        what = ("dump", "dump() gives %r, specification writes %r" % (d, ed))
                if c["rt"] == "fails":
                    rep.violation("law:RoundTripValue:%s" % name,
                                  "setting %s: the written form of the stored value of %r is stored differently (TLC, SettingSchema!RoundTripValue)" % (name, raw),
                                  {"direction": "law", "case": c})
            else:
                n_bad += 1
                if got is None:
                    what = ("refuse", "accepted and stored %r, specification refuses" % (after,))
                elif not gs.same(before, after):
                    what = ("keep", "refused with %s but the value changed from %r to %r" % (got, before, after))
            if what:
                rep.violation("case:%s:%s" % (what[0], name), "cs[%r] = %r: %s" % (name, raw, what[1]),
                              {"direction": "case", "setting": name, "case": c})
    return n_ok, n_bad, n_unm


def run_laws(rep, lib):
    """Per-setting data laws TLC evaluated over the catalog, confirmed on the real writer/reader."""
    Settings = _settings_cls()
    quarantine = set()
    for name in lib.order:
        if lib.default_admitted(name):
            continue
        quarantine.add(name)
        # confirm on the real code: the default, as the full style writes it, must be readable
        cs = Settings()
        s = io.StringIO()
        cs.writeToYamlStream(s, "full")
        txt = _keep_only(s.getvalue(), {name})
        try:
            Settings().loadFromString(txt)
            confirmed = None
        except Exception as ex:  # noqa: BLE001
            confirmed = "%s: %s" % (type(ex).__name__, str(ex)[:200])
        if confirmed:
            rep.violation("default-rejected:%s" % name,
                          "setting %s: its default, as the full style writes it (%s), is refused when read back [%s]; TLC: SettingSchema!DefaultAdmitted is false for the declaration"
                          % (name, txt.strip().splitlines()[1].strip() if len(txt.strip().splitlines()) > 1 else "?", confirmed),
                          {"direction": "law", "setting": name, "file": txt})
        else:
            rep.violation("case:default:%s" % name, "TLC says the default of %s is not admitted, the real reader accepts it" % name,
                          {"direction": "case", "setting": name})
    return quarantine


def _yaml():
    from ruamel.yaml import YAML

    y = YAML()
    y.default_flow_style = False
    return y


def _load_text(txt):
    from ruamel.yaml import YAML

    tree = YAML(typ="safe").load(txt)
    return tree.get("settings", {}) if isinstance(tree, dict) else {}


def _dump_entries(pairs):
    from ruamel.yaml.comments import CommentedMap

    m = CommentedMap()
    for k, v in pairs:
        m[k] = v
    s = io.StringIO()
    _yaml().dump({"settings": m}, s)
    return s.getvalue()


def _keep_only(txt, names):
    d = _load_text(txt)
    return _dump_entries([(k, _unplain(v)) for k, v in d.items() if k in names])


def _unplain(v):
    return v


# ============================================================================================================
# part 2: instantiation of the abstract names / values
# ============================================================================================================
class Gamma:
    """One instantiation: abstract setting name -> class of real settings; per member, abstract value -> concrete value.
    All concrete values are ones TLC classified (Lib); `k` rotates through them."""

    def __init__(self, lib, rng, k=0, size=6, everything=False, injective=False, api=None, only=None, with_r=True, exclude=()):
        self.lib, self.k = lib, k
        self.api = api or ("file" if rng.random() < 0.4 else "stream")
        names = [n for n in lib.order if n != "versions"]
        elig = [n for n in names if lib.vals[n] and (not injective or len(lib.vals[n]) >= 2)]
        elig = [n for n in elig if n not in exclude]
        if only is not None:
            elig = [n for n in elig if n in only]
        renamed = [n for n in elig if lib.active_old(n)]
        plain_ = [n for n in elig if not lib.active_old(n)]
        rng.shuffle(renamed)
        rng.shuffle(plain_)
        if everything:
            p, rest = renamed, plain_
            q, r = rest[0::2], rest[1::2]
        else:
            p = self._pick(renamed, size)
            q = self._pick(plain_, size)
            r = self._pick([n for n in plain_ if n not in q], size)
        if not with_r:
            q, r = (q + r if everything else q), []
        self.members = {"P": p, "Q": q, "R": r, "V": ["versions"]}
        used = set(p) | set(q) | set(r) | {"versions"}
        self.members["Z"] = [n for n in lib.order if n not in used]
        self.cls = {m: a for a, ms in self.members.items() for m in ms}
        self.tok = {}
        for a in ("P", "Q", "R", "V"):
            for m in self.members[a]:
                self.tok[m] = self._tokens(m, k)
        for m in self.members["Z"]:
            self.tok[m] = {"d": self._default_tok(m), "x": self._bad(m, k)}
        self.old = {m: lib.active_old(m)[k % len(lib.active_old(m))] for m in p}
        self.unknown = [UNKNOWN_NAME] + sorted(x for n in lib.order for x in lib.expired_old(n))

    def _pick(self, pool, size):
        """`size` members, at least one of which has a refusable value (so refusals can be realised)"""
        out = pool[:size]
        if out and not any(self.lib.bad[n] for n in out):
            for n in pool[size:]:
                if self.lib.bad[n]:
                    out[-1] = n
                    break
        return out

    def _default_tok(self, m):
        e = self.lib.entries[m]
        d = self.lib.law[m]["defaultDump"]
        return {"stored": self.lib.default[m], "raw_tag": d, "dump": gs.plain_of_tag(d)}

    def _bad(self, m, k):
        b = self.lib.bad[m]
        if m == "versions":  # SettingsCase!StampRefused models a `versions` entry that is not a container
            b = [x for x in b if x["t"] in ("int", "float", "bool", "none")]
        return {"raw_tag": b[k % len(b)]} if b else None

    def _tokens(self, m, k):
        vs = self.lib.vals[m]
        a = vs[k % len(vs)]
        b = vs[(k + 1) % len(vs)]
        nc = [r for r in self.lib.noncanon[m].get(a["key"], []) if _yaml_data(gs.plain_of_tag(r)) and '"flag"' not in _json(r)]

        def tk(v, raw=None):
            return {"stored": v["stored"], "raw_tag": raw or v["dump_tag"], "dump": gs.plain_of_tag(v["dump_tag"])}

        return {"d": self._default_tok(m), "a": tk(a), "b": tk(b), "ca": tk(a, nc[k % len(nc)] if nc else None), "x": self._bad(m, k)}

    # -- expansions ------------------------------------------------------------------------------------------
    def raw(self, m, t):
        return gs.from_tag(self.tok[m][t]["raw_tag"])

    def has_bad(self, m):
        return self.tok[m].get("x") is not None

    def file_names(self, n):
        """real file names an abstract file name stands for"""
        if n == "Po":
            return [self.old[m] for m in self.members["P"]]
        if n == "Zz":
            return list(self.unknown)
        return list(self.members[n])

    def describe(self):
        return {"k": self.k, "api": self.api, "P": self.members["P"], "Q": self.members["Q"], "R": self.members["R"],
                "Z": len(self.members["Z"])}


# ============================================================================================================
# part 3: the adapter (real Settings objects driven by the actions of SettingsCase)
# ============================================================================================================
class World:
    def __init__(self, g, quarantine, wd):
        self.g, self.quarantine, self.wd = g, quarantine, wd
        self.cs = {}
        self.text = None  # the settings file (text); self.path when the file API is used
        self.path = None
        self.nfile = 0
        self.err = ""
        self.inv = []
        self.exc = ""
        self.quarantined = 0


class Adapter:
    def __init__(self, lib, quarantine):
        self.Settings = _settings_cls()
        self.lib, self.quarantine = lib, quarantine
        self.wd = common.workdir("c17files")
        from armi.meta import __version__

        self.version = __version__
        self._n = 0

    def build(self, g):
        w = World(g, self.quarantine, self.wd)
        w.cs[1] = self.Settings()
        return w

    # -- file plumbing ----------------------------------------------------------------------------------------
    def _set_text(self, w, txt):
        w.text = txt
        if w.g.api == "file":
            self._n += 1
            w.path = os.path.join(self.wd, "f%d.yaml" % self._n)
            with open(w.path, "w") as f:
                f.write(txt)

    def _abstract_of(self, w, realname):
        g = w.g
        if realname in g.cls:
            return g.cls[realname]
        for m, o in g.old.items():
            if o == realname:
                return "Po"
        return "Zz"

    def _regroup(self, w, content, order, bad_first=None):
        """re-emit the file with the entries grouped by abstract entry in the given abstract order (a user may reorder a
        file); inside a refused entry the members that carry the refused value come first"""
        groups = collections.OrderedDict((n, []) for n in order)
        for k, v in content.items():
            groups.setdefault(self._abstract_of(w, k), []).append((k, v))
        pairs = []
        for n, kv in groups.items():
            if bad_first is not None and n == bad_first[0]:
                kv = sorted(kv, key=lambda p: 0 if p[0] in bad_first[1] else 1)
            pairs += kv
        return _dump_entries(pairs)

    # -- actions ----------------------------------------------------------------------------------------------
    def apply(self, w, a):
        g = w.g
        n = a["n"]
        w.err, w.exc = "", ""
        if n == "New":
            w.cs[a["id"]] = self.Settings()
        elif n == "Assign":
            cs = w.cs[a["o"]]
            for m in g.members[a["s"]]:
                if a["r"] == "d" and m in w.quarantine:
                    continue  # its default is not assignable (SettingSchema!DefaultAdmitted false; reported by run_laws)
                cs[m] = g.raw(m, a["r"])
        elif n == "AssignBad":
            cs = w.cs[a["o"]]
            tried = 0
            for m in g.members[a["s"]]:
                if not g.has_bad(m):
                    continue
                tried += 1
                try:
                    cs[m] = g.raw(m, "x")
                    w.exc = "%s accepted %r" % (m, g.raw(m, "x"))
                except Exception as ex:  # noqa: BLE001
                    w.err = "Invalid"
                    w.last_exc = type(ex).__name__
            if not tried:
                raise tlc.MachineryError("class %s has no member with a refusable value" % a["s"])
            if w.exc:
                w.err = "accepted: " + w.exc
        elif n == "AssignUnknown":
            cs = w.cs[a["o"]]
            from armi.utils.customExceptions import NonexistentSetting

            for nm in g.file_names(a["nm"]):
                try:
                    cs[nm] = 1
                    w.err = "accepted: %s" % nm
                    break
                except NonexistentSetting:
                    w.err = "Nonexistent"
        elif n == "Revert":
            w.cs[a["o"]].revertToDefaults()
        elif n == "GetSet":
            cs = w.cs[a["o"]]
            bad = a["r"] == "x"
            for m in g.members[a["s"]]:
                if (bad and not g.has_bad(m)) or (a["r"] == "d" and m in w.quarantine):
                    continue
                st = cs.getSetting(m)
                try:
                    st.setValue(g.raw(m, a["r"]))
                    if bad:
                        w.exc = "%s accepted %r" % (m, g.raw(m, "x"))
                except Exception:  # noqa: BLE001
                    if not bad:
                        raise
                    w.err = "Invalid"
                v = st.value  # whatever is done to the copy in place stays with the copy
                if isinstance(v, list):
                    v.append("c17-poke")
                elif isinstance(v, dict):
                    try:
                        v["c17-poke"] = 1
                    except Exception:  # noqa: BLE001
                        pass
            if w.exc:
                w.err = "accepted: " + w.exc
        elif n == "Write":
            self._write(w, a)
        elif n in ("SetBad", "SetOld", "AddUnknown"):
            self._edit(w, a)
        elif n == "HandWrite":
            pairs = []
            for e in a["es"]:
                names = g.file_names(e["n"])
                members = g.members["P"] if e["n"] == "Po" else (names if e["n"] != "Zz" else [None] * len(names))
                later = []
                for fname, m in zip(names, members):
                    if e["n"] == "Zz":
                        pairs.append((fname, 1))
                    elif e["t"] == "x":      # members that can carry a refused value first; the read never gets past them
                        if g.has_bad(m):
                            pairs.append((fname, g.raw(m, "x")))
                        else:
                            later.append((fname, g.raw(m, "a")))
                    else:
                        pairs.append((fname, g.raw(m, e["t"])))
                pairs += later
            self._set_text(w, _dump_entries(pairs))
        elif n == "Read":
            self._read(w, a)
        elif n in ("Modified", "ModifiedBad"):
            cs = w.cs[a["o"]]
            bad = n == "ModifiedBad"
            ms = [m for m in g.members[a["s"]] if (not bad or g.has_bad(m)) and not (a["r"] == "d" and m in w.quarantine)]
            if not ms:
                raise tlc.MachineryError("class %s has no member with a refusable value" % a["s"])
            try:
                new = cs.modified(newSettings={m: g.raw(m, a["r"]) for m in ms})
                if bad:
                    w.err = "accepted"
                else:
                    w.cs[a["id"]] = new
            except Exception:  # noqa: BLE001
                if not bad:
                    raise
                w.err = "Invalid"
        elif n == "Duplicate":
            cs = w.cs[a["o"]]
            if a["kind"] == "duplicate":
                new = cs.duplicate()
            elif a["kind"] == "deepcopy":
                new = copy.deepcopy(cs)
            else:
                new = pickle.loads(pickle.dumps(cs))
            w.cs[a["id"]] = new
        else:
            raise AssertionError("unknown action " + n)
        return w.err

    def _write(self, w, a):
        cs = w.cs[a["o"]]
        style = a["style"]
        if w.g.api == "file":
            self._n += 1
            path = os.path.join(self.wd, "f%d.yaml" % self._n)
            if style == "medium":
                cs.writeToYamlFile(path, style="medium", fromFile=w.path)
            else:
                cs.writeToYamlFile(path, style=style)
            with open(path) as f:
                w.text = f.read()
            w.path = path
        else:
            s = io.StringIO()
            if style == "medium":
                cs.writeToYamlStream(s, "medium", settingsSetByUser=list(_load_text(w.text).keys()))
            else:
                cs.writeToYamlStream(s, style)
            w.text = s.getvalue()

    def _edit(self, w, a):
        g = w.g
        content = collections.OrderedDict(_load_text(w.text))
        order = [e["n"] for e in a["_from_es"]]
        kind = a["n"]
        if kind == "AddUnknown":
            for nm in g.unknown:
                content[nm] = 1
            order = order + ["Zz"]
            self._set_text(w, self._regroup(w, content, order))
            return
        target = a["_from_es"][a["i"] - 1]["n"]
        if kind == "SetOld":
            new = collections.OrderedDict()
            for k, v in content.items():
                new[g.old[k] if target == "P" and k in g.old else k] = v
            order[a["i"] - 1] = "Po"
            self._set_text(w, self._regroup(w, new, order))
            return
        # SetBad: members of the entry that have a refusable value get it
        names = g.file_names(target)
        members = g.members["P"] if target == "Po" else names
        hit = set()
        for fname, m in zip(names, members):
            if fname in content and g.has_bad(m):
                content[fname] = g.raw(m, "x")
                hit.add(fname)
        if not hit:
            raise tlc.MachineryError("entry %s has no member with a refusable value" % target)
        self._set_text(w, self._regroup(w, content, order, bad_first=(target, hit)))

    def _read(self, w, a):
        cs = w.cs[a["o"]]
        txt = w.text
        # quarantine: a setting whose default the reader refuses (reported once by run_laws) would make every full-style
        # file unreadable and hide everything else; its untouched default entry is taken out of the text before reading
        if w.quarantine:
            content = _load_text(txt)
            drop = [q for q in w.quarantine if q in content and gs.same(gs.plain(content[q]), w.g.tok[q]["d"]["dump"])]
            if drop:
                w.quarantined += 1
                txt = "\n".join(ln for ln in txt.splitlines() if not any(re.match(r"^\s{2}%s:" % re.escape(q), ln) for q in drop)) + "\n"
        try:
            if w.g.api == "file":
                path = w.path
                if txt != w.text:
                    self._n += 1
                    path = os.path.join(self.wd, "q%d.yaml" % self._n)
                    with open(path, "w") as f:
                        f.write(txt)
                reader = cs.loadFromInputFile(path)
            else:
                reader = cs.loadFromString(txt)
            w.inv = sorted(reader.invalidSettings)
        except Exception as ex:  # noqa: BLE001  "rejected with an error when read"
            w.err = "Invalid"
            w.exc = "%s: %s" % (type(ex).__name__, str(ex)[:300])
            w.inv = []

    # -- comparison with the specification's state ----------------------------------------------------------------
    def check(self, w, exp, act=None):
        """first difference between the real world and the state TLC printed (None if they agree)"""
        g = w.g
        if len(w.cs) != exp["n"]:
            return ".n: expected %d objects, observed %d" % (exp["n"], len(w.cs))
        if exp["err"] != w.err:
            return ".err: expected %r, observed %r %s" % (exp["err"], w.err, w.exc)
        for o in range(1, exp["n"] + 1):
            objs = dict(w.cs[o].items())
            for a in ABS_NAMES:
                if a not in exp["val"][o - 1]:
                    continue
                t = exp["val"][o - 1][a]
                for m in g.members[a]:
                    if m not in objs:
                        return ".val[%d].%s:%s: setting missing" % (o, a, m)
                    got = _value(None, m, objs)
                    want = g.tok[m][t]["stored"]
                    if not gs.same(want, got):
                        return ".val[%d].%s:%s: expected %s = %r, observed %r" % (o, a, m, t, want, got)
        d = self._check_file(w, exp["file"])
        if d:
            return d
        if act is not None and act["n"] == "Read" and exp["err"] == "":
            content = set(_load_text(w.text).keys())
            got_inv = []
            for ab in ("Po", "Zz"):
                names = [x for x in g.file_names(ab) if x in content]
                hit = [x for x in names if x in w.inv]
                if names and len(hit) == len(names):
                    got_inv.append(ab)
                elif hit:
                    got_inv.append(ab + "?partial")
            extra = [x for x in w.inv if self._abstract_of(w, x) not in ("Po", "Zz")]
            if extra:
                got_inv.append("current:" + extra[0])
            if got_inv != list(exp["inv"]):
                return ".inv: expected %r reported invalid, observed %r (%s)" % (exp["inv"], got_inv, w.inv[:4])
        sh = self._shared(w)
        if sh != list(exp.get("shared", [])):
            return ".shared: objects share mutable state: %s" % sh[:3]
        return None

    def _check_file(self, w, ef):
        g = w.g
        if ef["style"] == "none":
            return None if w.text is None else ".file: expected no file"
        if w.text is None:
            return ".file: expected a file, none written"
        content = _load_text(w.text)
        want = {}
        for e in ef["es"]:
            names = g.file_names(e["n"])
            members = g.members["P"] if e["n"] == "Po" else names
            for fname, m in zip(names, members):
                if e["n"] == "Zz":
                    want[fname] = ("any", None)
                elif e["t"] == "x":
                    if g.has_bad(m):
                        want[fname] = ("raw", gs.plain(g.raw(m, "x")))
                    else:
                        want[fname] = ("any", None)
                elif ef["style"] == "hand":
                    want[fname] = ("raw", gs.plain(g.raw(m, e["t"])))
                else:
                    want[fname] = ("dump", g.tok[m][e["t"]]["dump"])
        miss = sorted(set(want) - set(content))
        if miss:
            return ".file.names: %s (%s) expected in the %s file, absent" % (miss[0], self._abstract_of(w, miss[0]), ef["style"])
        extra = sorted(set(content) - set(want))
        if extra:
            return ".file.names: %s (%s) not expected in the %s file, present" % (extra[0], self._abstract_of(w, extra[0]), ef["style"])
        for k, (kind, v) in want.items():
            if kind == "any":
                continue
            got = gs.plain(content[k])
            if k == "versions" and isinstance(got, dict):
                if ef["style"] != "hand" and got.get("armi") != self.version:
                    return ".file.stamp: versions.armi is %r, not %r" % (got.get("armi"), self.version)
                got = {a: b for a, b in got.items() if a != "armi"}
            if not gs.same(v, got) and not (kind == "raw" and v == got):
                return ".file.value:%s: expected %r written, observed %r" % (k, v, got)
        return None

    def _shared(self, w):
        """settings whose Setting object or a mutable part of whose value is the same object in two live Settings objects"""
        seen = {}
        out = []
        for o, cs in w.cs.items():
            for name, st in cs.items():
                for ident in _mutable_ids(st):
                    prev = seen.get(ident)
                    if prev is not None and prev[0] != o:
                        out.append("%s(%d,%d)" % (name, prev[0], o))
                    else:
                        seen[ident] = (o, name)
        return sorted(set(out))


def _mutable_ids(st):
    yield id(st)
    stack = [st.value]
    while stack:
        v = stack.pop()
        if isinstance(v, dict):
            yield id(v)
            stack.extend(v.values())
        elif isinstance(v, list):
            yield id(v)
            stack.extend(v)
        elif hasattr(v, "__dict__") and not isinstance(v, type) and not _is_enum(v):
            yield id(v)
            stack.extend(vars(v).values())


def _is_enum(v):
    import enum

    return isinstance(v, enum.Enum)


# ============================================================================================================
# part 4: replaying TLC's graph
# ============================================================================================================
def run_path(ad, g, steps, check_from=0):
    """steps: edges (from, act, to).  Executes them on a fresh world; compares after every step >= check_from.
    Returns None or a divergence record (with the index of the diverging step in "step")."""
    w = ad.build(g)
    for i, e in enumerate(steps):
        act = dict(e["act"])
        act["_from_es"] = e["from"]["file"]["es"]
        try:
            ad.apply(w, act)
            d = ad.check(w, e["to"], act) if i >= check_from else None
        except tlc.MachineryError:
            raise
        except Exception as ex:  # noqa: BLE001  a legal operation of the real code raised: a verdict
            import traceback

            d = ".exception: %s escaped from the real code: %s" % (type(ex).__name__, str(ex)[:300])
            return _div(i, d, steps, e, g, {"exception": traceback.format_exc()[-1500:]})
        if d:
            return _div(i, d, steps, e, g, {"err": w.err, "exc": w.exc, "text": (w.text or "")[:1500]})
    return None


def _div(i, d, steps, e, g, observed):
    return {"step": i, "diverged_at": i + 1, "first_difference": d, "behaviour": [s["act"] for s in steps[: i + 1]], "action": e["act"],
            "from": e["from"], "expected": e["to"], "observed": observed, "gamma": g.describe()}


def label_of(e):
    n = e["act"]["n"]
    if n == "Read" and any(x["n"] == "Po" for x in e["from"]["file"]["es"]):
        return "ReadOld"
    return n


def key_of(d, e, prefix="replay"):
    fd = d["first_difference"]
    cat = fd.split(":")[0].lstrip(".").split("[")[0].split(".")[0]
    lab = label_of(e)
    member = ""
    if lab == "ReadOld":
        return "%s:ReadOld" % prefix
    if lab != "ReadOld":
        m = re.match(r"^\.(?:val\[\d+\]\.\w+|file\.value):(\w+):", fd)
        if m:
            member = ":" + m.group(1)
    return "%s:%s:%s%s" % (prefix, lab, cat, member)


_EMIT_CACHE = {}


def emit_graph(cfg):
    if cfg not in _EMIT_CACHE:
        res = tlc.run("SettingsCase_mc", cfg, MODDIR, workers=1, coverage=False, timeout=1800)
        if res.violation:
            raise tlc.MachineryError("%s: %s" % (cfg, res.violation["trace"][:1500]))
        edges = [p for p in res.prints if isinstance(p, dict) and "act" in p]
        for e in edges:
            _fix_empty(e["from"])
            _fix_empty(e["to"])
            if "es" in e["act"]:
                e["act"]["es"] = _aslist(e["act"]["es"])
        _EMIT_CACHE[cfg] = (res, rp.Graph(edges))
    return _EMIT_CACHE[cfg]


def _aslist(x):
    return [] if x == {} else x


def _fix_empty(st):
    """ToJson prints an empty sequence built by a function constructor as {}"""
    st["file"]["es"] = _aslist(st["file"]["es"])
    st["inv"] = _aslist(st["inv"])
    st["shared"] = _aslist(st["shared"])


def replay_edges(rep, ad, lib, graph, label, rng, size, max_edges=None, rounds=1, exclude=()):
    """every edge (s, a, t): path(s) ; a on fresh real objects, compared with t; one fresh instantiation per edge"""
    edges = list(graph.edges)
    if max_edges is not None and len(edges) > max_edges:
        edges = rng.sample(edges, max_edges)
    n = nt = 0
    ndiv = 0
    with_r = any("R" in e["to"]["val"][0] for e in edges[:1])
    for rnd in range(rounds):
        for e in edges:
            pre = graph.path.get(e["_fk"])
            if pre is None:
                continue
            g = Gamma(lib, rng, k=rng.randrange(1000), size=size, with_r=with_r, exclude=exclude)
            steps = [rp.strip(x) for x in pre] + [rp.strip(e)]
            d = run_path(ad, g, steps, check_from=0)      # a divergence is attributed to the step where it first shows
            n += 1
            nt += e["_fk"] != e["_tk"]
            if d:
                ndiv += 1
                at = steps[d["step"]]
                rep.violation(key_of(d, at), "real Settings objects diverge from SettingsCase after %s: %s" % (json.dumps(at["act"]), d["first_difference"]),
                              dict(d, direction="replay"))
                if ndiv >= 400:
                    break
    rep.add_replay(label, n, nt,
                   "every edge (s,a,t) of TLC's state graph is executed as path(s);a on fresh armi Settings objects, each abstract "
                   "setting instantiated by a class of real settings; non-trivial = the edge changes the abstract state")
    return n
